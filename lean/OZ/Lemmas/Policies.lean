import OZ.Model.Policies
/-
Helper lemmas for the policy models (C14): exact descriptions of successful calls, the
checked u32 sum, subset sums of weights, cleanup vs. the read-only scan of `can_enforce`,
the state invariants of the spending policy and its relation to the ghost log of
authorized transfers.
-/
namespace OZ.Policies
open OZ.Host

deriving instance DecidableEq for Except

theorem bind_ok {ε α β : Type} {x : Except ε α} {f : α → Except ε β} {v : β}
    (h : (x >>= f) = .ok v) : ∃ a, x = .ok a ∧ f a = .ok v := by
  cases x with
  | error e => cases h
  | ok a => exact ⟨a, rfl, h⟩

theorem requireAuth_ok {auth : List Nat} {a : Nat} {u : Unit} (h : requireAuth auth a = .ok u) :
    a ∈ auth := by
  unfold requireAuth at h
  split at h
  · assumption
  · cases h

theorem requireAuth_of {auth : List Nat} {a : Nat} (h : a ∈ auth) : requireAuth auth a = .ok () := by
  unfold requireAuth; rw [if_pos h]

theorem requireAuth_not {auth : List Nat} {a : Nat} (h : a ∉ auth) : requireAuth auth a = .error .auth := by
  unfold requireAuth; rw [if_neg h]

theorem ofOpt_ok {α : Type} {e : Err} {o : Option α} {x : α} (h : ofOpt e o = .ok x) : o = some x := by
  cases o with
  | none => cases h
  | some y => injection h with h; subst h; rfl

theorem upd2_same {β : Type} (f : Nat → Nat → β) (a b : Nat) (v : β) : upd2 f a b v a b = v := by
  simp [upd2]

theorem upd2_other {β : Type} (f : Nat → Nat → β) (a b x y : Nat) (v : β) (h : ¬ (x = a ∧ y = b)) :
    upd2 f a b v x y = f x y := by
  simp [upd2, h]

/-! ## simple threshold -/
namespace Simple

theorem enforce_ok {s s' : State} {auth : List Nat} {ctx : Ctx} {sg : List Nat} {rule : Rule} {acct : Nat}
    (h : enforce s auth ctx sg rule acct = .ok s') :
    acct ∈ auth ∧ ∃ t, s.thr acct rule.id = some t ∧ t ≤ sg.length ∧
      s' = { s with events := s.events ++ [.enforced acct rule.id sg] } := by
  unfold enforce at h
  obtain ⟨_, h1, h⟩ := bind_ok h
  obtain ⟨t, h2, h⟩ := bind_ok h
  unfold checkCount at h
  split at h
  · rename_i ht
    injection h with h
    exact ⟨requireAuth_ok h1, t, ofOpt_ok h2, ht, h.symm⟩
  · cases h

theorem enforce_of {s : State} {auth : List Nat} (ctx : Ctx) {sg : List Nat} {rule : Rule} {acct t : Nat}
    (ha : acct ∈ auth) (hs : s.thr acct rule.id = some t) (ht : t ≤ sg.length) :
    enforce s auth ctx sg rule acct = .ok { s with events := s.events ++ [.enforced acct rule.id sg] } := by
  unfold enforce getThreshold
  rw [requireAuth_of ha, hs]
  show checkCount s sg rule acct t = _
  unfold checkCount
  rw [if_pos ht]

theorem validateAndSet_ok {s s' : State} {t : Nat} {rule : Rule} {acct : Nat}
    (h : validateAndSet s t rule acct = .ok s') :
    1 ≤ t ∧ t ≤ rule.signers.length ∧ s' = { s with thr := upd2 s.thr acct rule.id (some t) } := by
  unfold validateAndSet at h
  split at h
  · cases h
  · rename_i hn
    injection h with h
    refine ⟨?_, ?_, h.symm⟩ <;> omega

end Simple

/-! ## weighted threshold -/
namespace Weighted

/-- the checked loop returns the plain sum, or fails exactly when the sum passes u32::MAX -/
theorem csum_eq (l : List Nat) : ∀ acc, acc ≤ U32_MAX →
    csum acc l = if acc + l.sum ≤ U32_MAX then .ok (acc + l.sum) else .error .mathOverflow := by
  induction l with
  | nil => intro acc h; simp [csum, h]
  | cons w ws ih =>
    intro acc h
    unfold csum
    by_cases hw : acc + w ≤ U32_MAX
    · rw [if_pos hw, ih _ hw, List.sum_cons]
      by_cases h2 : acc + w + ws.sum ≤ U32_MAX
      · rw [if_pos h2, if_pos (by omega)]; congr 1; omega
      · rw [if_neg h2, if_neg (by omega)]
    · rw [if_neg hw, List.sum_cons, if_neg (by omega)]

theorem csum0_eq (l : List Nat) :
    csum 0 l = if l.sum ≤ U32_MAX then .ok l.sum else .error .mathOverflow := by
  have := csum_eq l 0 (by simp [U32_MAX])
  simpa using this

/-- weight of a signer under a map: its configured weight, 0 when it has none -/
def wOf (m : WMap) (k : Nat) : Nat := (lookup m k).getD 0

/-- total configured weight -/
def total (m : WMap) : Nat := (m.map Prod.snd).sum

/-- weight of a signer list, with multiplicity -/
def wsum (m : WMap) (sg : List Nat) : Nat := (sg.map (wOf m)).sum

theorem filterMap_lookup_sum (m : WMap) (sg : List Nat) : (sg.filterMap (lookup m)).sum = wsum m sg := by
  induction sg with
  | nil => rfl
  | cons k ks ih =>
    unfold wsum at *
    simp only [List.filterMap_cons, List.map_cons, List.sum_cons, wOf]
    cases hk : lookup m k with
    | none => simp [ih]
    | some w => simp [ih]

theorem calcWeight_eq (m : WMap) (sg : List Nat) :
    calcWeight m sg = if wsum m sg ≤ U32_MAX then .ok (wsum m sg) else .error .mathOverflow := by
  unfold calcWeight
  rw [csum0_eq, filterMap_lookup_sum]

theorem totalWeight_eq (m : WMap) :
    totalWeight m = if total m ≤ U32_MAX then .ok (total m) else .error .mathOverflow := by
  unfold totalWeight total
  rw [csum0_eq]

theorem sum_ite_notin (a w : Nat) (g : Nat → Nat) (l : List Nat) (h : a ∉ l) :
    (l.map (fun k => if a = k then w else g k)).sum = (l.map g).sum := by
  induction l with
  | nil => rfl
  | cons x xs ih =>
    have hx : a ≠ x := fun e => h (by simp [e])
    have hxs : a ∉ xs := fun e => h (by simp [e])
    simp only [List.map_cons, List.sum_cons, if_neg hx, ih hxs]

theorem sum_ite_nodup (a w : Nat) (g : Nat → Nat) (l : List Nat) (h : l.Nodup) :
    (l.map (fun k => if a = k then w else g k)).sum ≤ w + (l.map g).sum := by
  induction l with
  | nil => simp
  | cons x xs ih =>
    have hnx : x ∉ xs := (List.nodup_cons.mp h).1
    have hxs : xs.Nodup := (List.nodup_cons.mp h).2
    simp only [List.map_cons, List.sum_cons]
    by_cases hx : a = x
    · subst hx
      rw [if_pos rfl, sum_ite_notin a w g xs hnx]; omega
    · rw [if_neg hx]
      have := ih hxs; omega

theorem wsum_nil (sg : List Nat) : wsum [] sg = 0 := by
  unfold wsum
  induction sg with
  | nil => rfl
  | cons k ks ih => simp only [List.map_cons, List.sum_cons, ih]; simp [wOf, lookup]

theorem wOf_cons (a w : Nat) (r : WMap) (k : Nat) : wOf ((a, w) :: r) k = if a = k then w else wOf r k := by
  by_cases hk : a = k
  · simp [wOf, lookup, hk]
  · simp [wOf, lookup, hk]

/-- a duplicate-free signer list never weighs more than the whole map -/
theorem wsum_le_total (m : WMap) : ∀ sg : List Nat, sg.Nodup → wsum m sg ≤ total m := by
  induction m with
  | nil => intro sg _; rw [wsum_nil]; exact Nat.zero_le _
  | cons p r ih =>
    intro sg hn
    obtain ⟨a, w⟩ := p
    have h1 : wsum ((a, w) :: r) sg = (sg.map (fun k => if a = k then w else wOf r k)).sum := by
      unfold wsum
      congr 1
      apply List.map_congr_left
      intro k _
      exact wOf_cons a w r k
    have h2 := sum_ite_nodup a w (wOf r) sg hn
    have h3 := ih sg hn
    unfold wsum at h3
    rw [h1]
    unfold total at *
    simp only [List.map_cons, List.sum_cons]
    omega

/-- configuration invariant of one installation: 1 ≤ threshold ≤ total weight ≤ u32::MAX -/
def PInv (p : Params) : Prop := 1 ≤ p.threshold ∧ p.threshold ≤ total p.weights ∧ total p.weights ≤ U32_MAX

def Inv (s : State) : Prop := ∀ a r p, s.par a r = some p → PInv p

theorem checkAndStore_ok {s s' : State} {p : Params} {rule : Rule} {acct : Nat}
    (h : checkAndStore s p rule acct = .ok s') :
    p.threshold ≤ total p.weights ∧ total p.weights ≤ U32_MAX ∧
      s' = { s with par := upd2 s.par acct rule.id (some p) } := by
  unfold checkAndStore at h
  obtain ⟨t, h1, h⟩ := bind_ok h
  rw [totalWeight_eq] at h1
  split at h1
  · rename_i hle
    injection h1 with h1; subst h1
    split at h
    · cases h
    · rename_i hn
      injection h with h
      exact ⟨by omega, hle, h.symm⟩
  · cases h1

theorem checkInstall_ok {s s' : State} {m : WMap} {t : Nat} {rule : Rule} {acct : Nat}
    (h : checkInstall s m t rule acct = .ok s') :
    1 ≤ t ∧ t ≤ total m ∧ total m ≤ U32_MAX ∧
      s' = { s with par := upd2 s.par acct rule.id (some ⟨m, t⟩) } := by
  unfold checkInstall at h
  obtain ⟨tot, h1, h⟩ := bind_ok h
  rw [totalWeight_eq] at h1
  split at h1
  · rename_i hle
    injection h1 with h1; subst h1
    split at h
    · cases h
    · rename_i hn
      injection h with h
      exact ⟨by omega, by omega, hle, h.symm⟩
  · cases h1

theorem inv_upd {s : State} {acct rid : Nat} {p : Params} (hi : Inv s) (hp : PInv p) :
    Inv { s with par := upd2 s.par acct rid (some p) } := by
  intro a r q hq
  dsimp only at hq
  by_cases hk : a = acct ∧ r = rid
  · obtain ⟨rfl, rfl⟩ := hk
    rw [upd2_same] at hq; injection hq with hq; subst hq; exact hp
  · rw [upd2_other _ _ _ _ _ _ hk] at hq; exact hi a r q hq

theorem inv_del {s : State} {acct rid : Nat} (hi : Inv s) :
    Inv { s with par := upd2 s.par acct rid none } := by
  intro a r q hq
  dsimp only at hq
  by_cases hk : a = acct ∧ r = rid
  · obtain ⟨rfl, rfl⟩ := hk
    rw [upd2_same] at hq; cases hq
  · rw [upd2_other _ _ _ _ _ _ hk] at hq; exact hi a r q hq

theorem enforce_iff (s : State) (auth : List Nat) (ctx : Ctx) (sg : List Nat) (rule : Rule) (acct : Nat) :
    (∃ s', enforce s auth ctx sg rule acct = .ok s') ↔
      acct ∈ auth ∧ ∃ p, s.par acct rule.id = some p ∧ wsum p.weights sg ≤ U32_MAX ∧
        p.threshold ≤ wsum p.weights sg := by
  constructor
  · rintro ⟨s', h⟩
    unfold enforce at h
    obtain ⟨_, h1, h⟩ := bind_ok h
    obtain ⟨p, h2, h⟩ := bind_ok h
    unfold enforceWith at h
    obtain ⟨w, h3, h⟩ := bind_ok h
    rw [calcWeight_eq] at h3
    split at h3
    · rename_i hle
      injection h3 with h3; subst h3
      split at h
      · rename_i ht
        exact ⟨requireAuth_ok h1, p, ofOpt_ok h2, hle, ht⟩
      · cases h
    · cases h3
  · rintro ⟨ha, p, hp, hle, ht⟩
    refine ⟨{ s with events := s.events ++ [.enforced acct rule.id sg] }, ?_⟩
    unfold enforce getParams
    rw [requireAuth_of ha, hp]
    show enforceWith s p sg rule acct = _
    unfold enforceWith
    rw [calcWeight_eq, if_pos hle]
    show (if p.threshold ≤ wsum p.weights sg then _ else _) = _
    rw [if_pos ht]

theorem enforce_events {s s' : State} {auth : List Nat} {ctx : Ctx} {sg : List Nat} {rule : Rule} {acct : Nat}
    (h : enforce s auth ctx sg rule acct = .ok s') :
    s' = { s with events := s.events ++ [.enforced acct rule.id sg] } := by
  unfold enforce at h
  obtain ⟨_, h1, h⟩ := bind_ok h
  obtain ⟨p, h2, h⟩ := bind_ok h
  unfold enforceWith at h
  obtain ⟨w, h3, h⟩ := bind_ok h
  split at h
  · injection h with h; exact h.symm
  · cases h

theorem canEnforce_true_iff (s : State) (ctx : Ctx) (sg : List Nat) (rule : Rule) (acct : Nat) :
    canEnforce s ctx sg rule acct = .ok true ↔
      ∃ p, s.par acct rule.id = some p ∧ wsum p.weights sg ≤ U32_MAX ∧ p.threshold ≤ wsum p.weights sg := by
  unfold canEnforce
  cases hp : s.par acct rule.id with
  | none => simp
  | some p =>
    simp only [Option.some.injEq, exists_eq_left']
    unfold meets
    rw [calcWeight_eq]
    by_cases hle : wsum p.weights sg ≤ U32_MAX
    · rw [if_pos hle]
      show Except.ok (decide (p.threshold ≤ wsum p.weights sg)) = Except.ok true ↔ _
      by_cases ht : p.threshold ≤ wsum p.weights sg
      · simp [hle, ht]
      · simp [ht]
    · rw [if_neg hle]
      constructor
      · intro h; cases h
      · intro h; exact absurd h.1 hle

/-- every successful operation preserves the configuration invariant -/
theorem apply_inv {s s' : State} (hi : Inv s) (auth : List Nat) (op : Op) (h : apply s auth op = .ok s') :
    Inv s' := by
  cases op with
  | install a r ps t =>
    simp only [apply] at h
    unfold install at h
    obtain ⟨_, _, h⟩ := bind_ok h
    split at h
    · cases h
    · obtain ⟨h1, h2, h3, rfl⟩ := checkInstall_ok h
      exact inv_upd hi ⟨h1, h2, h3⟩
  | setThreshold a r t =>
    simp only [apply] at h
    unfold setThreshold at h
    obtain ⟨_, _, h⟩ := bind_ok h
    split at h
    · cases h
    · rename_i ht
      obtain ⟨p, hp, h⟩ := bind_ok h
      obtain ⟨h2, h3, rfl⟩ := checkAndStore_ok h
      exact inv_upd hi ⟨by show 1 ≤ t; omega, h2, h3⟩
  | setSignerWeight a r sg w =>
    simp only [apply] at h
    unfold setSignerWeight at h
    obtain ⟨_, _, h⟩ := bind_ok h
    obtain ⟨p, hp, h⟩ := bind_ok h
    obtain ⟨h2, h3, rfl⟩ := checkAndStore_ok h
    have := (hi a r.id p (ofOpt_ok hp)).1
    exact inv_upd hi ⟨this, h2, h3⟩
  | uninstall a r =>
    simp only [apply] at h
    unfold uninstall at h
    obtain ⟨_, _, h⟩ := bind_ok h
    injection h with h; subst h
    exact inv_del hi
  | enforce a r c sg =>
    simp only [apply] at h
    rw [enforce_events h]
    exact hi

theorem run_inv (ops : List (List Nat × Op)) : ∀ s, Inv s → Inv (run s ops) := by
  induction ops with
  | nil => intro s hs; exact hs
  | cons x xs ih =>
    intro s hs
    simp only [run, List.foldl_cons]
    apply ih
    unfold step
    cases hx : apply s x.1 x.2 with
    | error e => exact hs
    | ok s' => exact apply_inv hs x.1 x.2 hx

theorem init_inv : Inv init := by
  intro a r p h; cases h

end Weighted


/-! ## spending limit -/
namespace Spend

/-- sum of the amounts of a history -/
def isum (h : List Entry) : Int := (h.map (·.amount)).sum

theorem isum_nil : isum [] = 0 := rfl
theorem isum_cons (e : Entry) (h : List Entry) : isum (e :: h) = e.amount + isum h := by
  simp [isum, List.sum_cons]
theorem isum_append (a b : List Entry) : isum (a ++ b) = isum a + isum b := by
  induction a with
  | nil => simp [isum_nil]
  | cons x xs ih => rw [List.cons_append, isum_cons, isum_cons, ih]; omega
theorem isum_reverse (a : List Entry) : isum a.reverse = isum a := by
  induction a with
  | nil => rfl
  | cons x xs ih => rw [List.reverse_cons, isum_append, ih, isum_cons, isum_cons, isum_nil]; omega

theorem chk_ok {x y : Int} (h : chk x = .ok y) : in128 x ∧ y = x := by
  unfold chk at h
  split at h
  · rename_i hx; injection h with h; exact ⟨hx, h.symm⟩
  · cases h
theorem chk_of {x : Int} (h : in128 x) : chk x = .ok x := by unfold chk; rw [if_pos h]
theorem chk_not {x : Int} (h : ¬ in128 x) : chk x = .error .overflowPanic := by unfold chk; rw [if_neg h]

/-- the answer the scan of `can_enforce` derives from what cleanup would leave -/
def capAns (c : List Entry × Int) : Option Int :=
  if MAX_HISTORY_ENTRIES ≤ c.1.length then none else some c.2

/-- the read-only scan of `can_enforce` computes exactly what `cleanup_old_entries` computes:
same expired total, same overflow panics, and "no room" iff what remains has ≥ 1000 entries -/
theorem scan_eq_cleanup (cutoff : Nat) (h : List Entry) : ∀ acc,
    scanExpired cutoff h acc = (cleanup cutoff h acc >>= fun c => .ok (capAns c)) := by
  induction h with
  | nil => intro acc; simp [scanExpired, cleanup, capAns, MAX_HISTORY_ENTRIES, bind, Except.bind]
  | cons e rest ih =>
    intro acc
    unfold scanExpired cleanup
    by_cases he : e.ledger ≤ cutoff
    · rw [if_pos he, if_pos he]
      cases hc : chk (acc + e.amount) with
      | error x => rfl
      | ok a => exact ih a
    · rw [if_neg he, if_neg he]
      by_cases hl : MAX_HISTORY_ENTRIES ≤ (e :: rest).length
      · rw [if_pos hl]
        show _ = Except.ok (if MAX_HISTORY_ENTRIES ≤ (e :: rest).length then none else some acc)
        rw [if_pos hl]
      · rw [if_neg hl]
        show _ = Except.ok (if MAX_HISTORY_ENTRIES ≤ (e :: rest).length then none else some acc)
        rw [if_neg hl]

/-- what a successful cleanup returns: the history minus a prefix of entries at or before
the cutoff, the sum of that prefix, and a remainder that is empty or starts after the cutoff -/
theorem cleanup_spec (cutoff : Nat) : ∀ (h : List Entry) (acc : Int) (h' : List Entry) (r : Int),
    cleanup cutoff h acc = .ok (h', r) →
    ∃ pre, h = pre ++ h' ∧ r = acc + isum pre ∧ (∀ e ∈ pre, e.ledger ≤ cutoff) ∧
      (∀ e, h'.head? = some e → cutoff < e.ledger) := by
  intro h
  induction h with
  | nil =>
    intro acc h' r hc
    unfold cleanup at hc
    injection hc with hc; injection hc with h1 h2; subst h1; subst h2
    exact ⟨[], rfl, by simp [isum_nil], by simp, by simp⟩
  | cons e rest ih =>
    intro acc h' r hc
    unfold cleanup at hc
    by_cases he : e.ledger ≤ cutoff
    · rw [if_pos he] at hc
      obtain ⟨a, h1, h2⟩ := bind_ok hc
      obtain ⟨_, rfl⟩ := chk_ok h1
      obtain ⟨pre, hp1, hp2, hp3, hp4⟩ := ih _ _ _ h2
      refine ⟨e :: pre, by rw [hp1]; rfl, by rw [hp2, isum_cons]; omega, ?_, hp4⟩
      intro x hx
      cases hx with
      | head => exact he
      | tail _ hx' => exact hp3 x hx'
    · rw [if_neg he] at hc
      injection hc with hc; injection hc with h1 h2; subst h1; subst h2
      refine ⟨[], rfl, by simp [isum_nil], by simp, ?_⟩
      intro x hx
      simp only [List.head?_cons, Option.some.injEq] at hx
      subst hx; omega

/-- what `can_enforce` and `enforce` both decide for a transfer of `amt` against data `d` at
ledger `now`: cleanup succeeds, the two i128 operations stay in range, the updated total
fits the limit and fewer than 1000 entries remain -/
def Accepts (now : Nat) (d : Data) (amt : Int) : Prop :=
  ∃ h' r, cleanup (now - d.period) d.history 0 = .ok (h', r) ∧ in128 (d.cached - r) ∧
    in128 (d.cached - r + amt) ∧ d.cached - r + amt ≤ d.limit ∧ h'.length < MAX_HISTORY_ENTRIES

theorem commit_ok {s s' : State} {d : Data} {amt : Int} {rule : Rule} {acct : Nat} {hist : List Entry} {sum : Int}
    (h : commit s d amt rule acct hist sum = .ok s') :
    sum ≤ d.limit ∧ hist.length < MAX_HISTORY_ENTRIES ∧
    s' = { s with
      store := upd2 s.store acct rule.id (some { d with history := hist ++ [⟨amt, s.now⟩], cached := sum }),
      events := s.events ++ [.enforced acct rule.id amt sum] } := by
  unfold commit at h
  split at h
  · cases h
  · split at h
    · cases h
    · injection h with h
      refine ⟨by omega, by omega, h.symm⟩

theorem enforceTail_ok {s s' : State} {d : Data} {amt : Int} {rule : Rule} {acct : Nat} {c : List Entry × Int}
    (h : enforceTail s d amt rule acct c = .ok s') :
    in128 (d.cached - c.2) ∧ in128 (d.cached - c.2 + amt) ∧ d.cached - c.2 + amt ≤ d.limit ∧
    c.1.length < MAX_HISTORY_ENTRIES ∧
    s' = { s with
      store := upd2 s.store acct rule.id
        (some { d with history := c.1 ++ [⟨amt, s.now⟩], cached := d.cached - c.2 + amt }),
      events := s.events ++ [.enforced acct rule.id amt (d.cached - c.2 + amt)] } := by
  unfold enforceTail at h
  obtain ⟨x, h1, h⟩ := bind_ok h
  obtain ⟨h1a, rfl⟩ := chk_ok h1
  obtain ⟨y, h2, h⟩ := bind_ok h
  obtain ⟨h2a, rfl⟩ := chk_ok h2
  obtain ⟨h3, h4, h5⟩ := commit_ok h
  exact ⟨h1a, h2a, h3, h4, h5⟩

theorem enforceTail_of (s : State) (d : Data) (amt : Int) (rule : Rule) (acct : Nat) (c : List Entry × Int)
    (h1 : in128 (d.cached - c.2)) (h2 : in128 (d.cached - c.2 + amt)) (h3 : d.cached - c.2 + amt ≤ d.limit)
    (h4 : c.1.length < MAX_HISTORY_ENTRIES) : ∃ s', enforceTail s d amt rule acct c = .ok s' := by
  unfold enforceTail
  rw [chk_of h1]
  show ∃ s', (chk (d.cached - c.2 + amt) >>= fun sum => commit s d amt rule acct c.1 sum) = .ok s'
  rw [chk_of h2]
  show ∃ s', commit s d amt rule acct c.1 (d.cached - c.2 + amt) = .ok s'
  unfold commit
  rw [if_neg (by omega), if_neg (by omega)]
  exact ⟨_, rfl⟩

theorem enforceCtx_iff (s : State) (d : Data) (rule : Rule) (acct : Nat) (ctx : Ctx) :
    (∃ s', enforceCtx s d rule acct ctx = .ok s') ↔ ∃ amt, ctx = .transfer amt ∧ Accepts s.now d amt := by
  cases ctx with
  | transfer amt =>
    constructor
    · rintro ⟨s', h⟩
      unfold enforceCtx at h
      obtain ⟨c, h1, h2⟩ := bind_ok h
      obtain ⟨a1, a2, a3, a4, _⟩ := enforceTail_ok h2
      exact ⟨amt, rfl, c.1, c.2, h1, a1, a2, a3, a4⟩
    · rintro ⟨amt', he, h', r, h1, a1, a2, a3, a4⟩
      injection he with he; subst he
      unfold enforceCtx
      rw [h1]
      exact enforceTail_of s d amt rule acct (h', r) a1 a2 a3 a4
  | malformed =>
    constructor
    · rintro ⟨s', h⟩; cases h
    · rintro ⟨amt, he, _⟩; cases he
  | otherCall =>
    constructor
    · rintro ⟨s', h⟩; cases h
    · rintro ⟨amt, he, _⟩; cases he
  | createContract =>
    constructor
    · rintro ⟨s', h⟩; cases h
    · rintro ⟨amt, he, _⟩; cases he

theorem canTail_some_iff (d : Data) (amt r : Int) :
    canTail d amt (some r) = .ok true ↔
      in128 (d.cached - r) ∧ in128 (d.cached - r + amt) ∧ d.cached - r + amt ≤ d.limit := by
  unfold canTail
  by_cases h1 : in128 (d.cached - r)
  · simp only [chk_of h1]
    show (chk (d.cached - r + amt) >>= fun sum => pure (decide (sum ≤ d.limit))) = Except.ok true ↔ _
    by_cases h2 : in128 (d.cached - r + amt)
    · rw [chk_of h2]
      show Except.ok (decide (d.cached - r + amt ≤ d.limit)) = Except.ok true ↔ _
      by_cases h3 : d.cached - r + amt ≤ d.limit
      · exact ⟨fun _ => ⟨h1, h2, h3⟩, fun _ => by rw [decide_eq_true h3]⟩
      · constructor
        · intro h; injection h with h; exact absurd (of_decide_eq_true h) h3
        · intro h; exact absurd h.2.2 h3
    · rw [chk_not h2]
      constructor
      · intro h; cases h
      · intro h; exact absurd h.2.1 h2
  · simp only [chk_not h1]
    constructor
    · intro h; cases h
    · intro h; exact absurd h.1 h1

theorem canCtx_iff (now : Nat) (d : Data) (ctx : Ctx) :
    canCtx now d ctx = .ok true ↔ ∃ amt, ctx = .transfer amt ∧ Accepts now d amt := by
  cases ctx with
  | transfer amt =>
    unfold canCtx
    rw [scan_eq_cleanup]
    cases hc : cleanup (now - d.period) d.history 0 with
    | error x =>
      constructor
      · intro h; cases h
      · rintro ⟨amt', he, h', r, h1, _⟩
        injection he with he; subst he
        rw [hc] at h1; cases h1
    | ok c =>
      show canTail d amt (capAns c) = .ok true ↔ _
      unfold capAns
      by_cases hl : MAX_HISTORY_ENTRIES ≤ c.1.length
      · rw [if_pos hl]
        constructor
        · intro h; cases h
        · rintro ⟨amt', he, h', r, h1, _, _, _, a4⟩
          rw [hc] at h1; injection h1 with h1; subst h1
          exact absurd a4 (by simpa using hl)
      · rw [if_neg hl, canTail_some_iff]
        constructor
        · rintro ⟨a1, a2, a3⟩
          exact ⟨amt, rfl, c.1, c.2, by rw [hc], a1, a2, a3, by omega⟩
        · rintro ⟨amt', he, h', r, h1, a1, a2, a3, _⟩
          injection he with he; subst he
          rw [hc] at h1; injection h1 with h1; subst h1
          exact ⟨a1, a2, a3⟩
  | malformed =>
    constructor
    · intro h; cases h
    · rintro ⟨amt, he, _⟩; cases he
  | otherCall =>
    constructor
    · intro h; cases h
    · rintro ⟨amt, he, _⟩; cases he
  | createContract =>
    constructor
    · intro h; cases h
    · rintro ⟨amt, he, _⟩; cases he

/-- exact acceptance condition of `enforce` -/
theorem enforce_iff (s : State) (auth : List Nat) (ctx : Ctx) (sg : List Nat) (rule : Rule) (acct : Nat) :
    (∃ s', enforce s auth ctx sg rule acct = .ok s') ↔
      acct ∈ auth ∧ sg.isEmpty = false ∧ ∃ d, s.store acct rule.id = some d ∧
        ∃ amt, ctx = .transfer amt ∧ Accepts s.now d amt := by
  constructor
  · rintro ⟨s', h⟩
    unfold enforce at h
    obtain ⟨_, h1, h⟩ := bind_ok h
    split at h
    · cases h
    · rename_i hsg
      obtain ⟨d, h2, h⟩ := bind_ok h
      exact ⟨requireAuth_ok h1, by simpa using hsg, d, ofOpt_ok h2, (enforceCtx_iff s d rule acct ctx).mp ⟨s', h⟩⟩
  · rintro ⟨ha, hsg, d, hd, hacc⟩
    obtain ⟨s', h⟩ := (enforceCtx_iff s d rule acct ctx).mpr hacc
    refine ⟨s', ?_⟩
    unfold enforce getData
    rw [requireAuth_of ha, hd]
    show (if sg.isEmpty = true then _ else _) = _
    rw [if_neg (by simp [hsg])]
    exact h

/-- exact condition under which `can_enforce` answers `true` -/
theorem canEnforce_true_iff (s : State) (ctx : Ctx) (sg : List Nat) (rule : Rule) (acct : Nat) :
    canEnforce s ctx sg rule acct = .ok true ↔
      sg.isEmpty = false ∧ ∃ d, s.store acct rule.id = some d ∧
        ∃ amt, ctx = .transfer amt ∧ Accepts s.now d amt := by
  unfold canEnforce
  by_cases hsg : sg.isEmpty = true
  · rw [if_pos hsg]
    constructor
    · intro h; cases h
    · rintro ⟨h, _⟩; rw [hsg] at h; cases h
  · rw [if_neg hsg]
    cases hd : s.store acct rule.id with
    | none =>
      constructor
      · intro h; cases h
      · rintro ⟨_, d, h, _⟩; cases h
    | some d =>
      show canCtx s.now d ctx = .ok true ↔ _
      rw [canCtx_iff]
      constructor
      · intro h; exact ⟨by simpa using hsg, d, rfl, h⟩
      · rintro ⟨_, d', h, h2⟩; injection h with h; subst h; exact h2

/-- full description of a successful `enforce` -/
theorem enforce_ok {s s' : State} {auth : List Nat} {ctx : Ctx} {sg : List Nat} {rule : Rule} {acct : Nat}
    (h : enforce s auth ctx sg rule acct = .ok s') :
    acct ∈ auth ∧ ∃ d amt h' r, s.store acct rule.id = some d ∧ ctx = .transfer amt ∧
      cleanup (s.now - d.period) d.history 0 = .ok (h', r) ∧ in128 (d.cached - r + amt) ∧
      d.cached - r + amt ≤ d.limit ∧ h'.length < MAX_HISTORY_ENTRIES ∧
      s' = { s with
        store := upd2 s.store acct rule.id
          (some { d with history := h' ++ [⟨amt, s.now⟩], cached := d.cached - r + amt }),
        events := s.events ++ [.enforced acct rule.id amt (d.cached - r + amt)] } := by
  unfold enforce at h
  obtain ⟨_, h1, h⟩ := bind_ok h
  split at h
  · cases h
  · obtain ⟨d, h2, h⟩ := bind_ok h
    cases ctx with
    | transfer amt =>
      unfold enforceCtx at h
      obtain ⟨c, h3, h4⟩ := bind_ok h
      obtain ⟨_, a2, a3, a4, a5⟩ := enforceTail_ok h4
      exact ⟨requireAuth_ok h1, d, amt, c.1, c.2, ofOpt_ok h2, rfl, h3, a2, a3, a4, a5⟩
    | malformed => cases h
    | otherCall => cases h
    | createContract => cases h

/-! ### ghost log of authorized transfers, invariants -/

/-- an authorized transfer as the ghost log records it -/
structure Authd where
  amount : Int
  ledger : Nat
  limit : Int        -- the limit in force when it was authorized
  period : Nat       -- the period of the installation it was authorized under
  deriving Repr, DecidableEq

/-- ghost log: for every (account, rule id) the transfers authorized since the current
installation, NEWEST FIRST. Not part of the model's state: it is computed beside it. -/
abbrev Log := Nat → Nat → List Authd

def proj (t : Authd) : Entry := ⟨t.amount, t.ledger⟩

/-- ledger `e.ledger` lies in the window `(L - P, L]`-and-later, i.e. `L - P < e.ledger` over ℤ -/
def inWin (L P : Nat) (e : Entry) : Bool := decide (L < e.ledger + P)

def winSumE (l : List Entry) (L P : Nat) : Int := isum (l.filter (inWin L P))

/-- sum of the logged amounts whose ledger is later than `L - P` -/
def winSum (l : List Authd) (L P : Nat) : Int := winSumE (l.map proj) L P

/-- every logged transfer, together with everything logged before it inside its window,
stayed within the limit in force when it was authorized -/
def GoodR : List Authd → Prop
  | [] => True
  | t :: older => winSum (t :: older) t.ledger t.period ≤ t.limit ∧ GoodR older

def logStep (s : State) (g : Log) (x : List Nat × Op) : Log :=
  match apply s x.1 x.2 with
  | .error _ => g
  | .ok _ =>
    match x.2 with
    | .enforce a r (.transfer amt) _ =>
      match s.store a r.id with
      | some d => upd2 g a r.id (⟨amt, s.now, d.limit, d.period⟩ :: g a r.id)
      | none => g
    | .uninstall a r => upd2 g a r.id []
    | _ => g

def stepG (sg : State × Log) (x : List Nat × Op) : State × Log := (step sg.1 x, logStep sg.1 sg.2 x)

/-- the model's `run` with the ghost log computed alongside -/
def runG (sg : State × Log) (ops : List (List Nat × Op)) : State × Log := ops.foldl stepG sg

theorem runG_fst (ops : List (List Nat × Op)) : ∀ sg, (runG sg ops).1 = run sg.1 ops := by
  induction ops with
  | nil => intro sg; rfl
  | cons x xs ih => intro sg; simp only [runG, run, List.foldl_cons] at *; rw [ih]; rfl

theorem winSumE_append (a b : List Entry) (L P : Nat) : winSumE (a ++ b) L P = winSumE a L P + winSumE b L P := by
  unfold winSumE; rw [List.filter_append, isum_append]

theorem winSumE_all (l : List Entry) (L P : Nat) (h : ∀ e ∈ l, L < e.ledger + P) : winSumE l L P = isum l := by
  unfold winSumE
  induction l with
  | nil => rfl
  | cons x xs ih =>
    have hx : inWin L P x = true := by simp [inWin, h x (by simp)]
    rw [List.filter_cons, if_pos hx, isum_cons, isum_cons, ih (fun e he => h e (by simp [he]))]

theorem winSumE_none (l : List Entry) (L P : Nat) (h : ∀ e ∈ l, e.ledger + P ≤ L) : winSumE l L P = 0 := by
  unfold winSumE
  induction l with
  | nil => rfl
  | cons x xs ih =>
    have hx : ¬ (inWin L P x = true) := by
      have := h x (by simp)
      simp [inWin]; omega
    rw [List.filter_cons, if_neg hx, ih (fun e he => h e (by simp [he]))]

def Sorted (h : List Entry) : Prop := h.Pairwise (fun a b => a.ledger ≤ b.ledger)

/-- invariant of one installation at ledger `now` -/
structure DInv (now : Nat) (d : Data) : Prop where
  cached : d.cached = isum d.history
  sorted : Sorted d.history
  le_now : ∀ e ∈ d.history, e.ledger ≤ now
  pos : ∀ e ∈ d.history, 1 ≤ e.ledger
  bound : d.history.length ≤ MAX_HISTORY_ENTRIES
  limit_pos : 0 < d.limit
  period_pos : 0 < d.period

/-- relation between the stored history of a key and its ghost log `l` (newest first):
the log is the history (reversed) followed by evicted entries, all of which have left the
window for good; the log is ordered, not from the future, and `GoodR` -/
def KRel (now : Nat) : Option Data → List Authd → Prop
  | none, l => l = []
  | some d, l => ∃ old, l.map proj = d.history.reverse ++ old ∧ (∀ e ∈ old, e.ledger + d.period ≤ now) ∧
      GoodR l ∧ l.Pairwise (fun x y => y.ledger ≤ x.ledger) ∧ (∀ t ∈ l, t.ledger ≤ now) ∧
      (∀ t ∈ l, t.period = d.period)

structure GInv (s : State) (g : Log) : Prop where
  now_pos : 1 ≤ s.now
  dinv : ∀ a r d, s.store a r = some d → DInv s.now d
  rel : ∀ a r, KRel s.now (s.store a r) (g a r)

theorem DInv.mono {now now' : Nat} {d : Data} (h : DInv now d) (hn : now ≤ now') : DInv now' d :=
  ⟨h.cached, h.sorted, fun e he => Nat.le_trans (h.le_now e he) hn, h.pos, h.bound, h.limit_pos, h.period_pos⟩

theorem KRel.mono {now now' : Nat} {od : Option Data} {l : List Authd} (h : KRel now od l) (hn : now ≤ now') :
    KRel now' od l := by
  cases od with
  | none => exact h
  | some d =>
    obtain ⟨old, h1, h2, h3, h4, h5, h6⟩ := h
    exact ⟨old, h1, fun e he => Nat.le_trans (h2 e he) hn, h3, h4, fun t ht => Nat.le_trans (h5 t ht) hn, h6⟩

theorem sorted_all_gt {h : List Entry} {c : Nat} (hs : Sorted h) (hh : ∀ e, h.head? = some e → c < e.ledger) :
    ∀ e ∈ h, c < e.ledger := by
  cases h with
  | nil => intro e he; cases he
  | cons x xs =>
    intro e he
    have hx := hh x rfl
    cases he with
    | head => exact hx
    | tail _ he' =>
      have := List.rel_of_pairwise_cons hs he'
      omega

theorem install_ok {s s' : State} {auth : List Nat} {lim : Int} {per : Nat} {rule : Rule} {acct : Nat}
    (h : install s auth lim per rule acct = .ok s') :
    acct ∈ auth ∧ 0 < lim ∧ 0 < per ∧ s.store acct rule.id = none ∧
      s' = { s with store := upd2 s.store acct rule.id (some ⟨lim, per, [], 0⟩) } := by
  unfold install at h
  obtain ⟨_, h1, h⟩ := bind_ok h
  split at h
  · cases h
  · rename_i hc
    split at h
    · cases h
    · rename_i hs
      injection h with h
      refine ⟨requireAuth_ok h1, by omega, by omega, ?_, h.symm⟩
      cases hst : s.store acct rule.id with
      | none => rfl
      | some d => rw [hst] at hs; simp at hs

theorem setLimit_ok {s s' : State} {auth : List Nat} {lim : Int} {rule : Rule} {acct : Nat}
    (h : setSpendingLimit s auth lim rule acct = .ok s') :
    acct ∈ auth ∧ 0 < lim ∧ ∃ d, s.store acct rule.id = some d ∧
      s' = { s with store := upd2 s.store acct rule.id (some { d with limit := lim }) } := by
  unfold setSpendingLimit at h
  obtain ⟨_, h1, h⟩ := bind_ok h
  split at h
  · cases h
  · obtain ⟨d, h2, h⟩ := bind_ok h
    injection h with h
    exact ⟨requireAuth_ok h1, by omega, d, ofOpt_ok h2, h.symm⟩

theorem uninstall_ok {s s' : State} {auth : List Nat} {rule : Rule} {acct : Nat}
    (h : uninstall s auth rule acct = .ok s') :
    acct ∈ auth ∧ s' = { s with store := upd2 s.store acct rule.id none } := by
  unfold uninstall at h
  obtain ⟨_, h1, h⟩ := bind_ok h
  injection h with h
  exact ⟨requireAuth_ok h1, h.symm⟩

/-- the heart of `window_bound`: one accepted `enforce` keeps the invariant of its key and
extends the ghost log by a transfer that respects the limit in force -/
theorem enforce_key {now : Nat} {d : Data} {l : List Authd} {amt : Int} {h' : List Entry} {r : Int}
    (hnow : 1 ≤ now) (hd : DInv now d) (hk : KRel now (some d) l)
    (hc : cleanup (now - d.period) d.history 0 = .ok (h', r))
    (hlim : d.cached - r + amt ≤ d.limit) (hlen : h'.length < MAX_HISTORY_ENTRIES) :
    DInv now { d with history := h' ++ [⟨amt, now⟩], cached := d.cached - r + amt } ∧
    KRel now (some { d with history := h' ++ [⟨amt, now⟩], cached := d.cached - r + amt })
      (⟨amt, now, d.limit, d.period⟩ :: l) := by
  obtain ⟨pre, hp1, hp2, hp3, hp4⟩ := cleanup_spec _ _ _ _ _ hc
  obtain ⟨old, ho1, ho2, ho3, ho4, ho5, ho6⟩ := hk
  have hsort := hd.sorted
  unfold Sorted at hsort
  rw [hp1, List.pairwise_append] at hsort
  obtain ⟨_, hs', _⟩ := hsort
  have hgt : ∀ e ∈ h', now - d.period < e.ledger := sorted_all_gt hs' hp4
  have hmem' : ∀ e ∈ h', e ∈ d.history := fun e he => by rw [hp1]; simp [he]
  have hmemp : ∀ e ∈ pre, e ∈ d.history := fun e he => by rw [hp1]; simp [he]
  have hpre : ∀ e ∈ pre, e.ledger + d.period ≤ now := by
    intro e he
    have h1 := hp3 e he
    have h2 := hd.pos e (hmemp e he)
    omega
  have hcached : d.cached - r = isum h' := by
    have := hd.cached
    rw [hp1, isum_append] at this
    omega
  constructor
  · refine ⟨?_, ?_, ?_, ?_, ?_, hd.limit_pos, hd.period_pos⟩
    · show d.cached - r + amt = isum (h' ++ [⟨amt, now⟩])
      rw [isum_append, isum_cons, isum_nil, hcached]; simp
    · show Sorted (h' ++ [⟨amt, now⟩])
      unfold Sorted
      rw [List.pairwise_append]
      refine ⟨hs', by simp, ?_⟩
      intro a ha b hb
      simp only [List.mem_singleton] at hb
      subst hb
      exact hd.le_now a (hmem' a ha)
    · intro e he
      simp only [List.mem_append, List.mem_singleton] at he
      cases he with
      | inl h => exact hd.le_now e (hmem' e h)
      | inr h => subst h; exact Nat.le_refl _
    · intro e he
      simp only [List.mem_append, List.mem_singleton] at he
      cases he with
      | inl h => exact hd.pos e (hmem' e h)
      | inr h => subst h; exact hnow
    · show (h' ++ [(⟨amt, now⟩ : Entry)]).length ≤ MAX_HISTORY_ENTRIES
      rw [List.length_append]; simp; omega
  · refine ⟨pre.reverse ++ old, ?_, ?_, ⟨?_, ho3⟩, ?_, ?_, ?_⟩
    · show proj (⟨amt, now, d.limit, d.period⟩ : Authd) :: l.map proj = (h' ++ [(⟨amt, now⟩ : Entry)]).reverse ++ (pre.reverse ++ old)
      rw [ho1, hp1]
      simp [proj, List.reverse_append]
    · intro e he
      simp only [List.mem_append, List.mem_reverse] at he
      cases he with
      | inl h => exact hpre e h
      | inr h => exact ho2 e h
    · -- the new transfer with everything still inside its window is within the limit
      show winSumE (proj (⟨amt, now, d.limit, d.period⟩ : Authd) :: l.map proj) now d.period ≤ d.limit
      have e1 : proj (⟨amt, now, d.limit, d.period⟩ : Authd) :: l.map proj
          = [⟨amt, now⟩] ++ (h'.reverse ++ (pre.reverse ++ old)) := by
        rw [ho1, hp1]; simp [proj, List.reverse_append]
      rw [e1, winSumE_append, winSumE_append, winSumE_append]
      have w1 : winSumE [(⟨amt, now⟩ : Entry)] now d.period = amt := by
        rw [winSumE_all _ _ _ (by intro e he; simp only [List.mem_singleton] at he; subst he; have := hd.period_pos; show now < now + d.period; omega)]
        rw [isum_cons, isum_nil]; simp
      have w2 : winSumE h'.reverse now d.period = isum h' := by
        rw [winSumE_all _ _ _ (by intro e he; have := hgt e (List.mem_reverse.mp he); omega), isum_reverse]
      have w3 : winSumE pre.reverse now d.period = 0 :=
        winSumE_none _ _ _ (fun e he => hpre e (List.mem_reverse.mp he))
      have w4 : winSumE old now d.period = 0 := winSumE_none _ _ _ ho2
      rw [w1, w2, w3, w4]
      omega
    · rw [List.pairwise_cons]
      exact ⟨fun t ht => ho5 t ht, ho4⟩
    · intro t ht
      cases ht with
      | head => exact Nat.le_refl _
      | tail _ h => exact ho5 t h
    · intro t ht
      cases ht with
      | head => rfl
      | tail _ h => exact ho6 t h

theorem step_eq_ok {s s' : State} {auth : List Nat} {op : Op} (h : apply s auth op = .ok s') :
    step s (auth, op) = s' := by
  unfold step; dsimp only; rw [h]

theorem step_eq_err {s : State} {auth : List Nat} {op : Op} {e : Err} (h : apply s auth op = .error e) :
    step s (auth, op) = s := by
  unfold step; dsimp only; rw [h]

theorem logStep_err {s : State} {g : Log} {auth : List Nat} {op : Op} {e : Err}
    (h : apply s auth op = .error e) : logStep s g (auth, op) = g := by
  unfold logStep; dsimp only; rw [h]

theorem logStep_uninstall {s s' : State} {g : Log} {auth : List Nat} {a : Nat} {r : Rule}
    (h : apply s auth (.uninstall a r) = .ok s') :
    logStep s g (auth, .uninstall a r) = upd2 g a r.id [] := by
  unfold logStep; dsimp only; rw [h]

theorem logStep_enforce {s s' : State} {g : Log} {auth : List Nat} {a : Nat} {r : Rule} {amt : Int}
    {sg : List Nat} {d : Data} (h : apply s auth (.enforce a r (.transfer amt) sg) = .ok s')
    (hd : s.store a r.id = some d) :
    logStep s g (auth, .enforce a r (.transfer amt) sg)
      = upd2 g a r.id (⟨amt, s.now, d.limit, d.period⟩ :: g a r.id) := by
  unfold logStep; dsimp only; rw [h]; dsimp only; rw [hd]

theorem logStep_other {s s' : State} {g : Log} {auth : List Nat} {op : Op} (h : apply s auth op = .ok s')
    (h1 : ∀ a r, op ≠ .uninstall a r) (h2 : ∀ a r c sg, op ≠ .enforce a r c sg) :
    logStep s g (auth, op) = g := by
  unfold logStep; dsimp only; rw [h]; dsimp only
  cases op with
  | install a r l p => rfl
  | setLimit a r l => rfl
  | uninstall a r => exact absurd rfl (h1 a r)
  | enforce a r c sg => exact absurd rfl (h2 a r c sg)
  | advance n => rfl

theorem init_ginv (now : Nat) (h : 1 ≤ now) : GInv (init now) (fun _ _ => []) :=
  ⟨h, fun a r d hd => (by cases hd), fun a r => rfl⟩

/-- one step of the model with its ghost log keeps the global invariant -/
theorem stepG_inv {s : State} {g : Log} (hi : GInv s g) (x : List Nat × Op) :
    GInv (step s x) (logStep s g x) := by
  obtain ⟨auth, op⟩ := x
  cases hap : apply s auth op with
  | error e => rw [step_eq_err hap, logStep_err hap]; exact hi
  | ok s' =>
    rw [step_eq_ok hap]
    cases op with
    | install a r lim per =>
      rw [logStep_other hap (by intro _ _ h; cases h) (by intro _ _ _ _ h; cases h)]
      obtain ⟨_, hl, hp, hnone, rfl⟩ := install_ok hap
      refine ⟨hi.now_pos, ?_, ?_⟩
      · intro a' r' d' hd'
        dsimp only at hd'
        by_cases hk : a' = a ∧ r' = r.id
        · obtain ⟨rfl, rfl⟩ := hk
          rw [upd2_same] at hd'; injection hd' with hd'; subst hd'
          exact ⟨rfl, List.Pairwise.nil, by simp, by simp, by simp [MAX_HISTORY_ENTRIES], hl, hp⟩
        · rw [upd2_other _ _ _ _ _ _ hk] at hd'; exact hi.dinv a' r' d' hd'
      · intro a' r'
        dsimp only
        by_cases hk : a' = a ∧ r' = r.id
        · obtain ⟨rfl, rfl⟩ := hk
          rw [upd2_same]
          have := hi.rel a' r.id
          rw [hnone] at this
          have hnil : g a' r.id = [] := this
          rw [hnil]
          exact ⟨[], rfl, by simp, trivial, List.Pairwise.nil, by simp, by simp⟩
        · rw [upd2_other _ _ _ _ _ _ hk]; exact hi.rel a' r'
    | setLimit a r lim =>
      rw [logStep_other hap (by intro _ _ h; cases h) (by intro _ _ _ _ h; cases h)]
      obtain ⟨_, hl, d, hd, rfl⟩ := setLimit_ok hap
      refine ⟨hi.now_pos, ?_, ?_⟩
      · intro a' r' d' hd'
        dsimp only at hd'
        by_cases hk : a' = a ∧ r' = r.id
        · obtain ⟨rfl, rfl⟩ := hk
          rw [upd2_same] at hd'; injection hd' with hd'; subst hd'
          have := hi.dinv a' r.id d hd
          exact ⟨this.cached, this.sorted, this.le_now, this.pos, this.bound, hl, this.period_pos⟩
        · rw [upd2_other _ _ _ _ _ _ hk] at hd'; exact hi.dinv a' r' d' hd'
      · intro a' r'
        dsimp only
        by_cases hk : a' = a ∧ r' = r.id
        · obtain ⟨rfl, rfl⟩ := hk
          rw [upd2_same]
          have := hi.rel a' r.id
          rw [hd] at this
          exact this
        · rw [upd2_other _ _ _ _ _ _ hk]; exact hi.rel a' r'
    | uninstall a r =>
      rw [logStep_uninstall hap]
      obtain ⟨_, rfl⟩ := uninstall_ok hap
      refine ⟨hi.now_pos, ?_, ?_⟩
      · intro a' r' d' hd'
        dsimp only at hd'
        by_cases hk : a' = a ∧ r' = r.id
        · obtain ⟨rfl, rfl⟩ := hk
          rw [upd2_same] at hd'; cases hd'
        · rw [upd2_other _ _ _ _ _ _ hk] at hd'; exact hi.dinv a' r' d' hd'
      · intro a' r'
        dsimp only
        by_cases hk : a' = a ∧ r' = r.id
        · obtain ⟨rfl, rfl⟩ := hk
          rw [upd2_same, upd2_same]; rfl
        · rw [upd2_other _ _ _ _ _ _ hk, upd2_other _ _ _ _ _ _ hk]; exact hi.rel a' r'
    | enforce a r c sg =>
      obtain ⟨_, d, amt, h', rr, hd, rfl, hc, _, hlim, hlen, rfl⟩ := enforce_ok hap
      rw [logStep_enforce hap hd]
      have hkey := enforce_key hi.now_pos (hi.dinv a r.id d hd) (by have := hi.rel a r.id; rw [hd] at this; exact this)
        hc hlim hlen
      refine ⟨hi.now_pos, ?_, ?_⟩
      · intro a' r' d' hd'
        dsimp only at hd'
        by_cases hk : a' = a ∧ r' = r.id
        · obtain ⟨rfl, rfl⟩ := hk
          rw [upd2_same] at hd'; injection hd' with hd'; subst hd'
          exact hkey.1
        · rw [upd2_other _ _ _ _ _ _ hk] at hd'; exact hi.dinv a' r' d' hd'
      · intro a' r'
        dsimp only
        by_cases hk : a' = a ∧ r' = r.id
        · obtain ⟨rfl, rfl⟩ := hk
          rw [upd2_same, upd2_same]
          exact hkey.2
        · rw [upd2_other _ _ _ _ _ _ hk, upd2_other _ _ _ _ _ _ hk]; exact hi.rel a' r'
    | advance n =>
      rw [logStep_other hap (by intro _ _ h; cases h) (by intro _ _ _ _ h; cases h)]
      simp only [apply] at hap
      injection hap with hap; subst hap
      refine ⟨?_, ?_, ?_⟩
      · show 1 ≤ s.now + n
        have := hi.now_pos; omega
      · intro a' r' d' hd'
        exact (hi.dinv a' r' d' hd').mono (Nat.le_add_right _ _)
      · intro a' r'
        exact (hi.rel a' r').mono (Nat.le_add_right _ _)

theorem runG_inv (ops : List (List Nat × Op)) : ∀ sg : State × Log, GInv sg.1 sg.2 →
    GInv (runG sg ops).1 (runG sg ops).2 := by
  induction ops with
  | nil => intro sg h; exact h
  | cons x xs ih =>
    intro sg h
    simp only [runG, List.foldl_cons]
    exact ih (stepG sg x) (stepG_inv h x)

theorem goodR_suffix (newer : List Authd) {l : List Authd} (h : GoodR (newer ++ l)) : GoodR l := by
  induction newer with
  | nil => exact h
  | cons x xs ih => exact ih h.2

/-- with non-negative amounts, a stricter filter gives a smaller sum -/
theorem isum_filter_mono (l : List Entry) (p q : Entry → Bool) (hnn : ∀ e ∈ l, 0 ≤ e.amount)
    (hpq : ∀ e ∈ l, p e = true → q e = true) : isum (l.filter p) ≤ isum (l.filter q) := by
  induction l with
  | nil => simp [isum_nil]
  | cons x xs ih =>
    have ih' := ih (fun e he => hnn e (by simp [he])) (fun e he => hpq e (by simp [he]))
    have hx := hnn x (by simp)
    rw [List.filter_cons, List.filter_cons]
    by_cases hp : p x = true
    · rw [if_pos hp, if_pos (hpq x (by simp) hp), isum_cons, isum_cons]; omega
    · rw [if_neg hp]
      by_cases hq : q x = true
      · rw [if_pos hq, isum_cons]; omega
      · rw [if_neg hq]; exact ih'

theorem isum_filter_none (l : List Entry) (p : Entry → Bool) (h : ∀ e ∈ l, p e = false) : isum (l.filter p) = 0 := by
  induction l with
  | nil => rfl
  | cons x xs ih =>
    rw [List.filter_cons, if_neg (by rw [h x (by simp)]; simp), ih (fun e he => h e (by simp [he]))]

end Spend

end OZ.Policies
