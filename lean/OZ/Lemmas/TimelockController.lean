import OZ.Model.TimelockController
import OZ.Lemmas.Timelock
/-
Helper lemmas for the timelock-controller model: exact descriptions of an accepted
`__check_auth` iteration, the frame of `__check_auth`, and what "consumed" means.
-/
namespace OZ.TimelockController
open OZ.Host OZ.Timelock

/-- The property's notion of consumption, for one authorized call `(fn, args)` on the controller
and its descriptor `m`: the operation `(self, fn, args, m.pred, m.salt)` is Ready in `c` and Done
in `c'`, its predecessor is zero or Done, and — if executors are configured in `c` — the named
executor holds the role and authorized the tuple ("execute_op", self, fn, args, pred, salt). -/
def Consumed (c c' : CState) (auth : List AuthTok) (fn : Nat) (args : List Nat) (m : Meta) : Prop :=
  getOperationState c.tl (opOf c.self fn args m).id = .ready ∧
  getOperationState c'.tl (opOf c.self fn args m).id = .done ∧
  (m.pred = Id.zero ∨ getOperationState c'.tl m.pred = .done) ∧
  ((c.roles EXECUTOR).length ≠ 0 →
    ∃ ex, m.executor = some ex ∧ c.hasRole EXECUTOR ex = true ∧
      AuthTok.exec ex c.self fn args m.pred m.salt ∈ auth)

/-- what `__check_auth` may change: operation ledgers (only Ready → Done), the ghost log; nothing else -/
structure Frame (c c' : CState) : Prop where
  self : c'.self = c.self
  roles : c'.roles = c.roles
  admin : c'.admin = c.admin
  pending : c'.pending = c.pending
  maxTtl : c'.maxTtl = c.maxTtl
  now : c'.tl.now = c.tl.now
  minDelay : c'.tl.minDelay = c.tl.minDelay
  calls : c'.tl.calls = c.tl.calls
  one : ∀ id, c.tl.ledger id = 1 → c'.tl.ledger id = 1
  change : ∀ id, c'.tl.ledger id = c.tl.ledger id ∨
    (getOperationState c.tl id = .ready ∧ c'.tl.ledger id = 1)

theorem Frame.refl (c : CState) : Frame c c :=
  ⟨rfl, rfl, rfl, rfl, rfl, rfl, rfl, rfl, fun _ h => h, fun _ => Or.inl rfl⟩

theorem Frame.trans {a b c : CState} (h1 : Frame a b) (h2 : Frame b c) : Frame a c := by
  refine ⟨h2.self.trans h1.self, h2.roles.trans h1.roles, h2.admin.trans h1.admin,
    h2.pending.trans h1.pending, h2.maxTtl.trans h1.maxTtl, h2.now.trans h1.now,
    h2.minDelay.trans h1.minDelay, h2.calls.trans h1.calls, fun id h => h2.one id (h1.one id h), ?_⟩
  intro id
  rcases h2.change id with e2 | ⟨r2, d2⟩
  · rcases h1.change id with e1 | ⟨r1, d1⟩
    · exact Or.inl (e2.trans e1)
    · exact Or.inr ⟨r1, e2.trans d1⟩
  · rcases h1.change id with e1 | ⟨r1, d1⟩
    · right
      refine ⟨?_, d2⟩
      unfold getOperationState getOperationLedger at r2 ⊢
      rw [← e1, ← h1.now]; exact r2
    · exact Or.inr ⟨r1, d2⟩

theorem liftTl_ok {c c' : CState} {r : Except Timelock.Err Timelock.State} (h : liftTl c r = .ok c') :
    ∃ tl', r = .ok tl' ∧ c' = { c with tl := tl' } := by
  unfold liftTl at h
  cases r with
  | error e => cases h
  | ok tl' => injection h with h; exact ⟨tl', rfl, h.symm⟩

theorem execGate_ok {c : CState} {auth : List AuthTok} {fn : Nat} {args : List Nat} {m : Meta}
    (h : execGate c auth fn args m = .ok ()) :
    (c.roles EXECUTOR).length ≠ 0 →
      ∃ ex, m.executor = some ex ∧ c.hasRole EXECUTOR ex = true ∧
        AuthTok.exec ex c.self fn args m.pred m.salt ∈ auth := by
  intro hne
  unfold execGate at h
  rw [if_neg hne] at h
  cases hex : m.executor with
  | none => rw [hex] at h; cases h
  | some ex =>
    rw [hex] at h
    simp only at h
    split at h
    · cases h
    · rename_i hr
      split at h
      · rename_i hin
        exact ⟨ex, rfl, by simpa using hr, hin⟩
      · cases h

theorem checkOne_ok {c c' : CState} {auth : List AuthTok} {ctx : Context} {m : Meta}
    (h : checkOne c auth ctx m = .ok c') :
    ∃ fn args tl', ctx = .contract c.self fn args ∧ execGate c auth fn args m = .ok () ∧
      setExecute c.tl (opOf c.self fn args m) = .ok tl' ∧ c' = { c with tl := tl' } := by
  unfold checkOne at h
  cases ctx with
  | createContract => cases h
  | contract addr fn args =>
    simp only at h
    split at h
    · cases h
    · rename_i haddr
      have haddr' : addr = c.self := by
        by_cases e : addr = c.self
        · exact e
        · exact absurd e haddr
      subst haddr'
      cases hg : execGate c auth fn args m with
      | error e => rw [hg] at h; cases h
      | ok u =>
        rw [hg] at h
        simp only at h
        obtain ⟨tl', hs, hc⟩ := liftTl_ok h
        exact ⟨fn, args, tl', rfl, by cases u; exact hg, hs, hc⟩

/-- one accepted iteration: the frame and the consumption of its operation -/
theorem checkOne_frame {c c' : CState} {auth : List AuthTok} {ctx : Context} {m : Meta}
    (h : checkOne c auth ctx m = .ok c') :
    Frame c c' ∧ ∃ fn args, ctx = .contract c.self fn args ∧ Consumed c c' auth fn args m := by
  obtain ⟨fn, args, tl', hctx, hg, hs, rfl⟩ := checkOne_ok h
  obtain ⟨h2, hn, hp, rfl⟩ := setExecute_ok hs
  have hready : getOperationState c.tl (opOf c.self fn args m).id = .ready := stateOf_ready.mpr ⟨h2, hn⟩
  refine ⟨⟨rfl, rfl, rfl, rfl, rfl, rfl, rfl, rfl, ?_, ?_⟩, fn, args, hctx, hready, ?_, ?_, execGate_ok hg⟩
  · intro id h1
    show updId c.tl.ledger _ DONE_LEDGER id = 1
    by_cases e : id = (opOf c.self fn args m).id
    · rw [e, updId_same]; rfl
    · rw [updId_other _ _ _ _ e]; exact h1
  · intro id
    show updId c.tl.ledger _ DONE_LEDGER id = c.tl.ledger id ∨ _
    by_cases e : id = (opOf c.self fn args m).id
    · right; subst e
      exact ⟨hready, by show updId c.tl.ledger _ DONE_LEDGER _ = 1; rw [updId_same]; rfl⟩
    · left; rw [updId_other _ _ _ _ e]
  · show stateOf (updId c.tl.ledger _ DONE_LEDGER (opOf c.self fn args m).id) c.tl.now = .done
    rw [updId_same]; exact stateOf_done.mpr rfl
  · rcases hp with hz | h1
    · exact Or.inl hz
    · right
      show stateOf (updId c.tl.ledger _ DONE_LEDGER (opOf c.self fn args m).pred) c.tl.now = .done
      apply stateOf_done.mpr
      by_cases e : (opOf c.self fn args m).pred = (opOf c.self fn args m).id
      · rw [e, updId_same]; rfl
      · rw [updId_other _ _ _ _ e]; exact h1

/-- consumption seen from an earlier state / a later state of the same `__check_auth` run -/
theorem Consumed.extend {a b c d : CState} {auth : List AuthTok} {fn : Nat} {args : List Nat} {m : Meta}
    (hab : Frame a b) (hcd : Frame c d) (h : Consumed b c auth fn args m) : Consumed a d auth fn args m := by
  obtain ⟨hr, hd, hp, hx⟩ := h
  have hself := hab.self
  refine ⟨?_, ?_, ?_, ?_⟩
  · -- Ready in b ⇒ Ready in a: the ledger value is ≥ 2, so it was not touched
    rw [hself] at hr
    unfold getOperationState getOperationLedger at hr ⊢
    obtain ⟨h2, hn⟩ := stateOf_ready.mp hr
    rcases hab.change (opOf a.self fn args m).id with e | ⟨_, e1⟩
    · rw [← e, ← hab.now]; exact hr
    · omega
  · rw [hself] at hd
    unfold getOperationState getOperationLedger at hd ⊢
    exact stateOf_done.mpr (hcd.one _ (stateOf_done.mp hd))
  · rcases hp with hz | h1
    · exact Or.inl hz
    · right
      unfold getOperationState getOperationLedger at h1 ⊢
      exact stateOf_done.mpr (hcd.one _ (stateOf_done.mp h1))
  · intro hne
    rw [hab.roles] at hx
    obtain ⟨ex, h1, h2, h3⟩ := hx hne
    refine ⟨ex, h1, ?_, ?_⟩
    · unfold CState.hasRole at h2 ⊢; rw [hab.roles] at h2; exact h2
    · rw [hself] at h3; exact h3

/-- the loop of `__check_auth`: every pair is a call on the controller whose operation is consumed -/
theorem checkPairs_ok {c c' : CState} {auth : List AuthTok} {pairs : List (Context × Meta)}
    (h : checkPairs c auth pairs = .ok c') :
    Frame c c' ∧ ∀ p ∈ pairs, ∃ fn args, p.1 = .contract c.self fn args ∧ Consumed c c' auth fn args p.2 := by
  induction pairs generalizing c with
  | nil =>
    injection h with h; subst h
    exact ⟨Frame.refl c, fun p hp => by cases hp⟩
  | cons hd rest ih =>
    obtain ⟨ctx, m⟩ := hd
    unfold checkPairs at h
    cases h1 : checkOne c auth ctx m with
    | error e => rw [h1] at h; cases h
    | ok c1 =>
      rw [h1] at h
      simp only at h
      obtain ⟨f1, fn, args, hctx, hcons⟩ := checkOne_frame h1
      obtain ⟨f2, hrest⟩ := ih h
      refine ⟨f1.trans f2, ?_⟩
      intro p hp
      cases hp with
      | head => exact ⟨fn, args, hctx, hcons.extend (Frame.refl c) f2⟩
      | tail _ hp' =>
        obtain ⟨fn', args', hc', hcons'⟩ := hrest p hp'
        exact ⟨fn', args', by rw [hc', f1.self], hcons'.extend f1 (Frame.refl c')⟩

/-- `__check_auth` keeps the timelock invariant -/
theorem checkPairs_inv {c c' : CState} {auth : List AuthTok} {pairs : List (Context × Meta)}
    (hi : Inv c.tl) (h : checkPairs c auth pairs = .ok c') : Inv c'.tl := by
  induction pairs generalizing c with
  | nil => injection h with h; subst h; exact hi
  | cons hd rest ih =>
    obtain ⟨ctx, m⟩ := hd
    unfold checkPairs at h
    cases h1 : checkOne c auth ctx m with
    | error e => rw [h1] at h; cases h
    | ok c1 =>
      rw [h1] at h
      simp only at h
      obtain ⟨fn, args, tl', _, _, hs, rfl⟩ := checkOne_ok h1
      exact ih (setExecute_inv hi hs) h

theorem checkAuth_ok {c c' : CState} {auth : List AuthTok} {metas : List Meta} {ctxs : List Context}
    (h : checkAuth c auth metas ctxs = .ok c') :
    metas.length = ctxs.length ∧ checkPairs c auth (ctxs.zip metas) = .ok c' := by
  unfold checkAuth at h
  split at h
  · cases h
  · rename_i hl
    exact ⟨by omega, h⟩

/-- `who.require_auth()` inside an invocation `(fn, args)` of the controller -/
theorem requireAuth_ok {c c' : CState} {auth : List AuthTok} {sig : Option (List Meta)} {who fn : Nat}
    {args : List Nat} (h : requireAuth checkAuth c auth sig who fn args = .ok c') :
    (who = c.self ∧ ∃ metas, sig = some metas ∧ checkAuth c auth metas [.contract c.self fn args] = .ok c') ∨
    (who ≠ c.self ∧ AuthTok.call who ∈ auth ∧ c' = c) := by
  unfold requireAuth at h
  split at h
  · rename_i hw
    left
    cases sig with
    | none => cases h
    | some metas => exact ⟨hw, metas, rfl, h⟩
  · rename_i hw
    right
    split at h
    · rename_i hin; injection h with h; exact ⟨hw, hin, h.symm⟩
    · cases h

theorem requireAuthPlain_ok {c : CState} {auth : List AuthTok} {who : Nat}
    (h : requireAuthPlain c auth who = .ok ()) : who ≠ c.self ∧ AuthTok.call who ∈ auth := by
  unfold requireAuthPlain at h
  split at h
  · cases h
  · rename_i hw
    split at h
    · rename_i hin; exact ⟨hw, hin⟩
    · cases h

/-- the controller's own `require_auth` with a single context: exactly one descriptor, consumed -/
theorem self_auth_consumes {c c1 : CState} {auth : List AuthTok} {metas : List Meta} {fn : Nat}
    {args : List Nat} (h : checkAuth c auth metas [.contract c.self fn args] = .ok c1) :
    Frame c c1 ∧ ∃ m, metas = [m] ∧ Consumed c c1 auth fn args m := by
  obtain ⟨hl, hp⟩ := checkAuth_ok h
  match metas, hl with
  | [m], _ =>
    obtain ⟨fr, hall⟩ := checkPairs_ok hp
    obtain ⟨fn', args', hc, hcons⟩ := hall (.contract c.self fn args, m) (by simp)
    simp only [Context.contract.injEq, true_and] at hc
    obtain ⟨rfl, rfl⟩ := hc
    exact ⟨fr, m, rfl, hcons⟩

/-- consumption survives an effect that does not touch the operation ledgers or the clock -/
theorem Consumed.congr {c c1 c' : CState} {auth : List AuthTok} {fn : Nat} {args : List Nat} {m : Meta}
    (h : Consumed c c1 auth fn args m) (hl : c'.tl.ledger = c1.tl.ledger) (hn : c'.tl.now = c1.tl.now) :
    Consumed c c' auth fn args m := by
  obtain ⟨hr, hd, hp, hx⟩ := h
  refine ⟨hr, ?_, ?_, hx⟩
  · unfold getOperationState getOperationLedger at hd ⊢; rw [hl, hn]; exact hd
  · rcases hp with hz | h1
    · exact Or.inl hz
    · right; unfold getOperationState getOperationLedger at h1 ⊢; rw [hl, hn]; exact h1

/-- a Ready operation of a reachable timelock state was scheduled, with a sufficient delay that has
elapsed, and nothing about it was accepted since -/
theorem ready_was_scheduled {s : Timelock.State} (hi : Inv s) {id : Id}
    (h : getOperationState s id = .ready) :
    ∃ newer older l d m, s.log = newer ++ Ev.sched id l d m :: older ∧ (∀ e ∈ newer, e.id ≠ id) ∧
      m ≤ d ∧ elapsed l d s.now := by
  obtain ⟨h2, hn⟩ := stateOf_ready.mp h
  obtain ⟨l, d, m, hg, hv, hmd, _, _⟩ := (hi.coh id).ledger_ge_two h2
  obtain ⟨newer, older, hlog, hnew⟩ := ghost_pending_split hg
  refine ⟨newer, older, l, d, m, hlog, hnew, hmd, ?_⟩
  unfold getOperationLedger at hn
  rw [hv] at hn
  exact (satAdd_le_iff_elapsed hi.nowHi).mp hn

end OZ.TimelockController
