import OZ.Model.TimelockController
import OZ.Lemmas.Timelock
import OZ.Lemmas.AccessOps
/-
Helper lemmas for the timelock-controller model: exact descriptions of an accepted
`__check_auth` iteration, the frame of `__check_auth`, and what "consumed" means.
-/
namespace OZ.TimelockController
open OZ.Host OZ.Timelock

/-- The property's notion of consumption, for one authorized call `(fn, args)` on the controller
and its descriptor `m`: the operation `(self, fn, args, m.pred, m.salt)` is Ready in `c` and Done
in `c'`, its predecessor is zero or Done, and — if executors are configured in `c` — the named
executor holds the role and authorized the tuple ("execute_op", self, fn, args, pred, salt). -/
def Consumed (c c' : CState) (auth : List AuthTok) (fn : Nat) (args : List Nat) (m : Meta) : Prop :=
  getOperationState c.tl (opOf c.self fn args m).id = .ready ∧
  getOperationState c'.tl (opOf c.self fn args m).id = .done ∧
  (m.pred = Id.zero ∨ getOperationState c'.tl m.pred = .done) ∧
  (c.executorCount ≠ 0 →
    ∃ ex, m.executor = some ex ∧ c.hasRole EXECUTOR ex = true ∧
      AuthTok.exec ex c.self fn args m.pred m.salt ∈ auth)

/-- what `__check_auth` may change: operation ledgers (only Ready → Done), the ghost log; nothing else -/
structure Frame (c c' : CState) : Prop where
  self : c'.self = c.self
  ac : c'.ac = c.ac
  cfg : c'.cfg = c.cfg
  now : c'.tl.now = c.tl.now
  minDelay : c'.tl.minDelay = c.tl.minDelay
  calls : c'.tl.calls = c.tl.calls
  one : ∀ id, c.tl.ledger id = 1 → c'.tl.ledger id = 1
  change : ∀ id, c'.tl.ledger id = c.tl.ledger id ∨
    (getOperationState c.tl id = .ready ∧ c'.tl.ledger id = 1)

theorem Frame.refl (c : CState) : Frame c c :=
  ⟨rfl, rfl, rfl, rfl, rfl, rfl, fun _ h => h, fun _ => Or.inl rfl⟩

theorem Frame.trans {a b c : CState} (h1 : Frame a b) (h2 : Frame b c) : Frame a c := by
  refine ⟨h2.self.trans h1.self, h2.ac.trans h1.ac, h2.cfg.trans h1.cfg, h2.now.trans h1.now,
    h2.minDelay.trans h1.minDelay, h2.calls.trans h1.calls, fun id h => h2.one id (h1.one id h), ?_⟩
  intro id
  rcases h2.change id with e2 | ⟨r2, d2⟩
  · rcases h1.change id with e1 | ⟨r1, d1⟩
    · exact Or.inl (e2.trans e1)
    · exact Or.inr ⟨r1, e2.trans d1⟩
  · rcases h1.change id with e1 | ⟨r1, d1⟩
    · right
      refine ⟨?_, d2⟩
      unfold getOperationState getOperationLedger at r2 ⊢
      rw [← e1, ← h1.now]; exact r2
    · exact Or.inr ⟨r1, d2⟩

theorem liftTl_ok {c c' : CState} {r : Except Timelock.Err Timelock.State} (h : liftTl c r = .ok c') :
    ∃ tl', r = .ok tl' ∧ c' = { c with tl := tl' } := by
  unfold liftTl at h
  cases r with
  | error e => cases h
  | ok tl' => injection h with h; exact ⟨tl', rfl, h.symm⟩

theorem execGate_ok {c : CState} {auth : List AuthTok} {fn : Nat} {args : List Nat} {m : Meta}
    (h : execGate c auth fn args m = .ok ()) :
    c.executorCount ≠ 0 →
      ∃ ex, m.executor = some ex ∧ c.hasRole EXECUTOR ex = true ∧
        AuthTok.exec ex c.self fn args m.pred m.salt ∈ auth := by
  intro hne
  unfold execGate at h
  rw [if_neg hne] at h
  cases hex : m.executor with
  | none => rw [hex] at h; cases h
  | some ex =>
    rw [hex] at h
    simp only at h
    split at h
    · cases h
    · rename_i hr
      split at h
      · rename_i hin
        exact ⟨ex, rfl, by simpa using hr, hin⟩
      · cases h

theorem checkOne_ok {c c' : CState} {auth : List AuthTok} {ctx : Context} {m : Meta}
    (h : checkOne c auth ctx m = .ok c') :
    ∃ fn args tl', ctx = .contract c.self fn args ∧ execGate c auth fn args m = .ok () ∧
      setExecute c.tl (opOf c.self fn args m) = .ok tl' ∧ c' = { c with tl := tl' } := by
  unfold checkOne at h
  cases ctx with
  | createContract => cases h
  | contract addr fn args =>
    simp only at h
    split at h
    · cases h
    · rename_i haddr
      have haddr' : addr = c.self := by
        by_cases e : addr = c.self
        · exact e
        · exact absurd e haddr
      subst haddr'
      cases hg : execGate c auth fn args m with
      | error e => rw [hg] at h; cases h
      | ok u =>
        rw [hg] at h
        simp only at h
        obtain ⟨tl', hs, hc⟩ := liftTl_ok h
        exact ⟨fn, args, tl', rfl, by cases u; exact hg, hs, hc⟩

/-- one accepted iteration: the frame and the consumption of its operation -/
theorem checkOne_frame {c c' : CState} {auth : List AuthTok} {ctx : Context} {m : Meta}
    (h : checkOne c auth ctx m = .ok c') :
    Frame c c' ∧ ∃ fn args, ctx = .contract c.self fn args ∧ Consumed c c' auth fn args m := by
  obtain ⟨fn, args, tl', hctx, hg, hs, rfl⟩ := checkOne_ok h
  obtain ⟨h2, hn, hp, rfl⟩ := setExecute_ok hs
  have hready : getOperationState c.tl (opOf c.self fn args m).id = .ready := stateOf_ready.mpr ⟨h2, hn⟩
  refine ⟨⟨rfl, rfl, rfl, rfl, rfl, rfl, ?_, ?_⟩, fn, args, hctx, hready, ?_, ?_, execGate_ok hg⟩
  · intro id h1
    show updId c.tl.ledger _ DONE_LEDGER id = 1
    by_cases e : id = (opOf c.self fn args m).id
    · rw [e, updId_same]; rfl
    · rw [updId_other _ _ _ _ e]; exact h1
  · intro id
    show updId c.tl.ledger _ DONE_LEDGER id = c.tl.ledger id ∨ _
    by_cases e : id = (opOf c.self fn args m).id
    · right; subst e
      exact ⟨hready, by show updId c.tl.ledger _ DONE_LEDGER _ = 1; rw [updId_same]; rfl⟩
    · left; rw [updId_other _ _ _ _ e]
  · show stateOf (updId c.tl.ledger _ DONE_LEDGER (opOf c.self fn args m).id) c.tl.now = .done
    rw [updId_same]; exact stateOf_done.mpr rfl
  · rcases hp with hz | h1
    · exact Or.inl hz
    · right
      show stateOf (updId c.tl.ledger _ DONE_LEDGER (opOf c.self fn args m).pred) c.tl.now = .done
      apply stateOf_done.mpr
      by_cases e : (opOf c.self fn args m).pred = (opOf c.self fn args m).id
      · rw [e, updId_same]; rfl
      · rw [updId_other _ _ _ _ e]; exact h1

/-- consumption seen from an earlier state / a later state of the same `__check_auth` run -/
theorem Consumed.extend {a b c d : CState} {auth : List AuthTok} {fn : Nat} {args : List Nat} {m : Meta}
    (hab : Frame a b) (hcd : Frame c d) (h : Consumed b c auth fn args m) : Consumed a d auth fn args m := by
  obtain ⟨hr, hd, hp, hx⟩ := h
  have hself := hab.self
  refine ⟨?_, ?_, ?_, ?_⟩
  · -- Ready in b ⇒ Ready in a: the ledger value is ≥ 2, so it was not touched
    rw [hself] at hr
    unfold getOperationState getOperationLedger at hr ⊢
    obtain ⟨h2, hn⟩ := stateOf_ready.mp hr
    rcases hab.change (opOf a.self fn args m).id with e | ⟨_, e1⟩
    · rw [← e, ← hab.now]; exact hr
    · omega
  · rw [hself] at hd
    unfold getOperationState getOperationLedger at hd ⊢
    exact stateOf_done.mpr (hcd.one _ (stateOf_done.mp hd))
  · rcases hp with hz | h1
    · exact Or.inl hz
    · right
      unfold getOperationState getOperationLedger at h1 ⊢
      exact stateOf_done.mpr (hcd.one _ (stateOf_done.mp h1))
  · intro hne
    have hcnt : b.executorCount = a.executorCount := by unfold CState.executorCount; rw [hab.ac]
    rw [hcnt] at hx
    obtain ⟨ex, h1, h2, h3⟩ := hx hne
    refine ⟨ex, h1, ?_, ?_⟩
    · unfold CState.hasRole at h2 ⊢; rw [hab.ac] at h2; exact h2
    · rw [hself] at h3; exact h3

/-- the loop of `__check_auth`: every pair is a call on the controller whose operation is consumed -/
theorem checkPairs_ok {c c' : CState} {auth : List AuthTok} {pairs : List (Context × Meta)}
    (h : checkPairs c auth pairs = .ok c') :
    Frame c c' ∧ ∀ p ∈ pairs, ∃ fn args, p.1 = .contract c.self fn args ∧ Consumed c c' auth fn args p.2 := by
  induction pairs generalizing c with
  | nil =>
    injection h with h; subst h
    exact ⟨Frame.refl c, fun p hp => by cases hp⟩
  | cons hd rest ih =>
    obtain ⟨ctx, m⟩ := hd
    unfold checkPairs at h
    cases h1 : checkOne c auth ctx m with
    | error e => rw [h1] at h; cases h
    | ok c1 =>
      rw [h1] at h
      simp only at h
      obtain ⟨f1, fn, args, hctx, hcons⟩ := checkOne_frame h1
      obtain ⟨f2, hrest⟩ := ih h
      refine ⟨f1.trans f2, ?_⟩
      intro p hp
      cases hp with
      | head => exact ⟨fn, args, hctx, hcons.extend (Frame.refl c) f2⟩
      | tail _ hp' =>
        obtain ⟨fn', args', hc', hcons'⟩ := hrest p hp'
        exact ⟨fn', args', by rw [hc', f1.self], hcons'.extend f1 (Frame.refl c')⟩

/-- `__check_auth` keeps the timelock invariant -/
theorem checkPairs_inv {c c' : CState} {auth : List AuthTok} {pairs : List (Context × Meta)}
    (hi : Inv c.tl) (h : checkPairs c auth pairs = .ok c') : Inv c'.tl := by
  induction pairs generalizing c with
  | nil => injection h with h; subst h; exact hi
  | cons hd rest ih =>
    obtain ⟨ctx, m⟩ := hd
    unfold checkPairs at h
    cases h1 : checkOne c auth ctx m with
    | error e => rw [h1] at h; cases h
    | ok c1 =>
      rw [h1] at h
      simp only at h
      obtain ⟨fn, args, tl', _, _, hs, rfl⟩ := checkOne_ok h1
      exact ih (setExecute_inv hi hs) h

theorem checkAuth_ok {c c' : CState} {auth : List AuthTok} {metas : List Meta} {ctxs : List Context}
    (h : checkAuth c auth metas ctxs = .ok c') :
    metas.length = ctxs.length ∧ checkPairs c auth (ctxs.zip metas) = .ok c' := by
  unfold checkAuth at h
  split at h
  · cases h
  · rename_i hl
    exact ⟨by omega, h⟩

/-- `who.require_auth()` inside an invocation `(fn, args)` of the controller -/
theorem requireAuth_ok {c c' : CState} {auth : List AuthTok} {sig : Option (List Meta)} {who fn : Nat}
    {args : List Nat} (h : requireAuth checkAuth c auth sig who fn args = .ok c') :
    (who = c.self ∧ ∃ metas, sig = some metas ∧ checkAuth c auth metas [.contract c.self fn args] = .ok c') ∨
    (who ≠ c.self ∧ AuthTok.call who ∈ auth ∧ c' = c) := by
  unfold requireAuth at h
  split at h
  · rename_i hw
    left
    cases sig with
    | none => cases h
    | some metas => exact ⟨hw, metas, rfl, h⟩
  · rename_i hw
    right
    split at h
    · rename_i hin; injection h with h; exact ⟨hw, hin, h.symm⟩
    · cases h

theorem requireAuthPlain_ok {c : CState} {auth : List AuthTok} {who : Nat}
    (h : requireAuthPlain c auth who = .ok ()) : who ≠ c.self ∧ AuthTok.call who ∈ auth := by
  unfold requireAuthPlain at h
  split at h
  · cases h
  · rename_i hw
    split at h
    · rename_i hin; exact ⟨hw, hin⟩
    · cases h

/-- the controller's own `require_auth` with a single context: exactly one descriptor, consumed -/
theorem self_auth_consumes {c c1 : CState} {auth : List AuthTok} {metas : List Meta} {fn : Nat}
    {args : List Nat} (h : checkAuth c auth metas [.contract c.self fn args] = .ok c1) :
    Frame c c1 ∧ ∃ m, metas = [m] ∧ Consumed c c1 auth fn args m := by
  obtain ⟨hl, hp⟩ := checkAuth_ok h
  match metas, hl with
  | [m], _ =>
    obtain ⟨fr, hall⟩ := checkPairs_ok hp
    obtain ⟨fn', args', hc, hcons⟩ := hall (.contract c.self fn args, m) (by simp)
    simp only [Context.contract.injEq, true_and] at hc
    obtain ⟨rfl, rfl⟩ := hc
    exact ⟨fr, m, rfl, hcons⟩

/-- consumption survives an effect that does not touch the operation ledgers or the clock -/
theorem Consumed.congr {c c1 c' : CState} {auth : List AuthTok} {fn : Nat} {args : List Nat} {m : Meta}
    (h : Consumed c c1 auth fn args m) (hl : c'.tl.ledger = c1.tl.ledger) (hn : c'.tl.now = c1.tl.now) :
    Consumed c c' auth fn args m := by
  obtain ⟨hr, hd, hp, hx⟩ := h
  refine ⟨hr, ?_, ?_, hx⟩
  · unfold getOperationState getOperationLedger at hd ⊢; rw [hl, hn]; exact hd
  · rcases hp with hz | h1
    · exact Or.inl hz
    · right; unfold getOperationState getOperationLedger at h1 ⊢; rw [hl, hn]; exact h1

/-- a Ready operation of a reachable timelock state was scheduled, with a sufficient delay that has
elapsed, and nothing about it was accepted since -/
theorem ready_was_scheduled {s : Timelock.State} (hi : Inv s) {id : Id}
    (h : getOperationState s id = .ready) :
    ∃ newer older l d m, s.log = newer ++ Ev.sched id l d m :: older ∧ (∀ e ∈ newer, e.id ≠ id) ∧
      m ≤ d ∧ elapsed l d s.now := by
  obtain ⟨h2, hn⟩ := stateOf_ready.mp h
  obtain ⟨l, d, m, hg, hv, hmd, _, _⟩ := (hi.coh id).ledger_ge_two h2
  obtain ⟨newer, older, hlog, hnew⟩ := ghost_pending_split hg
  refine ⟨newer, older, l, d, m, hlog, hnew, hmd, ?_⟩
  unfold getOperationLedger at hn
  rw [hv] at hn
  exact (satAdd_le_iff_elapsed hi.nowHi).mp hn

/-! ### the enlarged surface: access control on top of C06's model -/

theorem withAc_ok {c c' : CState} {r : Except OZ.Access.Err AC} (h : withAc c r = .ok c') :
    ∃ a, r = .ok a ∧ c' = { c with ac := a } := by
  unfold withAc at h
  cases r with
  | error e => cases h
  | ok a => injection h with h; exact ⟨a, rfl, h.symm⟩

theorem withAdm_ok {c c' : CState} {r : Except OZ.RoleTransfer.Err RT} (h : withAdm c r = .ok c') :
    ∃ t, r = .ok t ∧ c' = { c with ac := { c.ac with adm := t } } := by
  unfold withAdm at h
  cases r with
  | error e => cases h
  | ok t => injection h with h; exact ⟨t, rfl, h.symm⟩

/-- `who.require_auth()`: either the controller itself (exactly one descriptor, its operation
consumed) or an ordinary account that signed the call (nothing changes) -/
theorem auth_step {c c1 : CState} {auth : List AuthTok} {sig : Option (List Meta)} {who fn : Nat}
    {args : List Nat} (h : requireAuth checkAuth c auth sig who fn args = .ok c1) :
    Frame c c1 ∧
    ((who = c.self ∧ ∃ m, sig = some [m] ∧ Consumed c c1 auth fn args m) ∨
     (who ≠ c.self ∧ AuthTok.call who ∈ auth ∧ c1 = c)) := by
  rcases requireAuth_ok h with ⟨hw, metas, hs, hc⟩ | ⟨hne, hin, rfl⟩
  · obtain ⟨fr, m, hm, hcons⟩ := self_auth_consumes hc
    exact ⟨fr, Or.inl ⟨hw, m, by rw [hs, hm], hcons⟩⟩
  · exact ⟨Frame.refl _, Or.inr ⟨hne, hin, rfl⟩⟩

theorem admin_step {c c1 : CState} {auth : List AuthTok} {sig : Option (List Meta)} {fn : Nat}
    {args : List Nat} (h : enforceAdminAuth checkAuth c auth sig fn args = .ok c1) :
    ∃ a, c.admin = some a ∧ requireAuth checkAuth c auth sig a fn args = .ok c1 := by
  unfold enforceAdminAuth at h
  cases ha : c.admin with
  | none => rw [ha] at h; cases h
  | some a => rw [ha] at h; exact ⟨a, rfl, h⟩

theorem mem_plainAuth {c : CState} {auth : List AuthTok} {p : Nat} :
    p ∈ plainAuth c auth ↔ p ≠ c.self ∧ AuthTok.call p ∈ auth := by
  unfold plainAuth
  rw [List.mem_filterMap]
  constructor
  · rintro ⟨t, ht, hp⟩
    cases t with
    | call a =>
      simp only at hp
      split at hp
      · cases hp
      · rename_i hne; injection hp with hp; subst hp; exact ⟨hne, ht⟩
    | exec a tg f ar pr sa => simp at hp
  · rintro ⟨hne, hin⟩
    exact ⟨.call p, hin, by simp [hne]⟩

/-- what `__check_auth` can have done before the body of an entry point runs -/
def CheckRel (c : CState) (auth : List AuthTok) (c1 : CState) : Prop :=
  c1 = c ∨ ∃ metas ctxs, checkAuth c auth metas ctxs = .ok c1

theorem CheckRel.frame {c c1 : CState} {auth : List AuthTok} (h : CheckRel c auth c1) : Frame c c1 := by
  rcases h with rfl | ⟨metas, ctxs, hc⟩
  · exact Frame.refl _
  · exact (checkPairs_ok (checkAuth_ok hc).2).1

theorem CheckRel.inv {c c1 : CState} {auth : List AuthTok} (h : CheckRel c auth c1) (hi : Inv c.tl) :
    Inv c1.tl := by
  rcases h with rfl | ⟨metas, ctxs, hc⟩
  · exact hi
  · exact checkPairs_inv hi (checkAuth_ok hc).2

theorem requireAuth_rel {c c1 : CState} {auth : List AuthTok} {sig : Option (List Meta)} {who fn : Nat}
    {args : List Nat} (h : requireAuth checkAuth c auth sig who fn args = .ok c1) : CheckRel c auth c1 := by
  rcases requireAuth_ok h with ⟨_, metas, _, hc⟩ | ⟨_, _, rfl⟩
  · exact Or.inr ⟨metas, _, hc⟩
  · exact Or.inl rfl

theorem enforceAdminAuth_rel {c c1 : CState} {auth : List AuthTok} {sig : Option (List Meta)} {fn : Nat}
    {args : List Nat} (h : enforceAdminAuth checkAuth c auth sig fn args = .ok c1) : CheckRel c auth c1 := by
  obtain ⟨a, _, h1⟩ := admin_step h
  exact requireAuth_rel h1

/-- the timelock call an entry point boils down to -/
def Entry.tlOp : Entry → Option Timelock.Op
  | .scheduleOp op d _ => some (.schedule op d)
  | .cancelOp id _ => some (.cancel id)
  | .executeOp op _ ok => some (.execute op ok)
  | .advance n => some (.advance n)
  | _ => none

/-- how the access-control part of the state can move in one invocation -/
def AcRel (a a' : AC) : Prop :=
  a' = a ∨ (∃ acc r k, OZ.Access.grantRoleNoAuth a acc r k = .ok a') ∨
  (∃ acc r k, OZ.Access.revokeRoleNoAuth a acc r k = .ok a') ∨
  (∃ r ar, a' = OZ.Access.setRoleAdminNoAuth a r ar) ∨
  (a'.accounts = a.accounts ∧ a'.hasRole = a.hasRole ∧ a'.count = a.count ∧
    a'.existing = a.existing ∧ a'.roleAdmin = a.roleAdmin)

theorem AcRel.inv {a a' : AC} (h : AcRel a a') (hi : OZ.Access.Inv a) : OZ.Access.Inv a' := by
  rcases h with rfl | ⟨acc, r, k, h⟩ | ⟨acc, r, k, h⟩ | ⟨r, ar, rfl⟩ | ⟨h1, h2, h3, h4, _⟩
  · exact hi
  · exact (OZ.Access.grantRoleNoAuth_effect hi h).1
  · exact (OZ.Access.revokeRoleNoAuth_effect hi h).1
  · exact hi.congr rfl rfl (fun _ => rfl) rfl
  · exact hi.congr h1 h2 (fun r => by unfold OZ.Access.cnt; rw [h3]) h4

/-- Every accepted invocation is: possibly a run of `__check_auth` (`c → c1`), then at most one
timelock call or a `set_min_delay` on `c1`, and one move of the access-control state. -/
theorem applyE_decomp {c c' : CState} {auth : List AuthTok} {sig : Option (List Meta)} {x : Entry}
    (h : applyE c auth sig x = .ok c') :
    ∃ c1, CheckRel c auth c1 ∧ c'.self = c.self ∧ AcRel c1.ac c'.ac ∧
      (match x.tlOp with
       | some y => c1 = c ∧ Timelock.apply c.tl y = .ok c'.tl
       | none => c'.tl = c1.tl ∨ ∃ d, x = .updateDelay d ∧ c'.tl = setMinDelay c1.tl d) := by
  cases x with
  | scheduleOp op d p =>
    simp only [applyE, applyW, scheduleOp] at h
    split at h
    · cases h
    · cases h1 : requireAuthPlain c auth p with
      | error e => rw [h1] at h; cases h
      | ok u =>
        rw [h1] at h; simp only at h
        obtain ⟨tl', hs, rfl⟩ := liftTl_ok h
        exact ⟨c, Or.inl rfl, rfl, Or.inl rfl, rfl, hs⟩
  | cancelOp id k =>
    simp only [applyE, applyW, cancelOp] at h
    split at h
    · cases h
    · cases h1 : requireAuthPlain c auth k with
      | error e => rw [h1] at h; cases h
      | ok u =>
        rw [h1] at h; simp only at h
        obtain ⟨tl', hs, rfl⟩ := liftTl_ok h
        exact ⟨c, Or.inl rfl, rfl, Or.inl rfl, rfl, hs⟩
  | executeOp op ex ok =>
    simp only [applyE, applyW, executeOp] at h
    cases h1 : executorGate c auth ex with
    | error e => rw [h1] at h; cases h
    | ok u =>
      rw [h1] at h; simp only at h
      obtain ⟨tl', hs, rfl⟩ := liftTl_ok h
      exact ⟨c, Or.inl rfl, rfl, Or.inl rfl, rfl, hs⟩
  | advance n =>
    simp only [applyE, applyW, advanceC] at h
    cases h1 : advance c.tl n with
    | error e => rw [h1] at h; cases h
    | ok tl' =>
      rw [h1] at h; injection h with h; subst h
      exact ⟨c, Or.inl rfl, rfl, Or.inr (Or.inr (Or.inr (Or.inr ⟨rfl, rfl, rfl, rfl, rfl⟩))), rfl, h1⟩
  | updateDelay d =>
    simp only [applyE, applyW, updateDelayW] at h
    cases h1 : enforceAdminAuth checkAuth c auth sig FN_UPDATE_DELAY [vU32 d] with
    | error e => rw [h1] at h; cases h
    | ok c1 =>
      rw [h1] at h; injection h with h; subst h
      exact ⟨c1, enforceAdminAuth_rel h1, (enforceAdminAuth_rel h1).frame.self, Or.inl rfl, Or.inr ⟨d, rfl, rfl⟩⟩
  | grantRole a r k =>
    simp only [applyE, applyW, grantRoleW] at h
    cases h1 : requireAuth checkAuth c auth sig k FN_GRANT_ROLE [vAddr a, vSym r, vAddr k] with
    | error e => rw [h1] at h; cases h
    | ok c1 =>
      rw [h1] at h; simp only [guardedRoleChange] at h
      cases h2 : OZ.Access.ensureIfAdminOrAdminRole c1.ac r k with
      | error e => rw [h2] at h; cases h
      | ok u =>
        rw [h2] at h; simp only at h
        obtain ⟨a', ha, rfl⟩ := withAc_ok h
        exact ⟨c1, requireAuth_rel h1, (requireAuth_rel h1).frame.self, Or.inr (Or.inl ⟨a, r, k, ha⟩), Or.inl rfl⟩
  | revokeRole a r k =>
    simp only [applyE, applyW, revokeRoleW] at h
    cases h1 : requireAuth checkAuth c auth sig k FN_REVOKE_ROLE [vAddr a, vSym r, vAddr k] with
    | error e => rw [h1] at h; cases h
    | ok c1 =>
      rw [h1] at h; simp only [guardedRoleChange] at h
      cases h2 : OZ.Access.ensureIfAdminOrAdminRole c1.ac r k with
      | error e => rw [h2] at h; cases h
      | ok u =>
        rw [h2] at h; simp only at h
        obtain ⟨a', ha, rfl⟩ := withAc_ok h
        exact ⟨c1, requireAuth_rel h1, (requireAuth_rel h1).frame.self, Or.inr (Or.inr (Or.inl ⟨a, r, k, ha⟩)), Or.inl rfl⟩
  | renounceRole r k =>
    simp only [applyE, applyW, renounceRoleW] at h
    cases h1 : requireAuth checkAuth c auth sig k FN_RENOUNCE_ROLE [vSym r, vAddr k] with
    | error e => rw [h1] at h; cases h
    | ok c1 =>
      rw [h1] at h; simp only at h
      obtain ⟨a', ha, rfl⟩ := withAc_ok h
      exact ⟨c1, requireAuth_rel h1, (requireAuth_rel h1).frame.self, Or.inr (Or.inr (Or.inl ⟨k, r, k, ha⟩)), Or.inl rfl⟩
  | setRoleAdmin r ar =>
    simp only [applyE, applyW, setRoleAdminW] at h
    cases h1 : enforceAdminAuth checkAuth c auth sig FN_SET_ROLE_ADMIN [vSym r, vSym ar] with
    | error e => rw [h1] at h; cases h
    | ok c1 =>
      rw [h1] at h; injection h with h; subst h
      exact ⟨c1, enforceAdminAuth_rel h1, (enforceAdminAuth_rel h1).frame.self, Or.inr (Or.inr (Or.inr (Or.inl ⟨r, ar, rfl⟩))), Or.inl rfl⟩
  | transferAdmin a lu =>
    simp only [applyE, applyW, transferAdminW] at h
    cases h1 : enforceAdminAuth checkAuth c auth sig FN_TRANSFER_ADMIN [vAddr a, vU32 lu] with
    | error e => rw [h1] at h; cases h
    | ok c1 =>
      rw [h1] at h; simp only at h
      obtain ⟨t, _, rfl⟩ := withAdm_ok h
      exact ⟨c1, enforceAdminAuth_rel h1, (enforceAdminAuth_rel h1).frame.self,
        Or.inr (Or.inr (Or.inr (Or.inr ⟨rfl, rfl, rfl, rfl, rfl⟩))), Or.inl rfl⟩
  | acceptAdmin =>
    simp only [applyE, applyW, acceptAdmin] at h
    obtain ⟨t, _, rfl⟩ := withAdm_ok h
    exact ⟨c, Or.inl rfl, rfl, Or.inr (Or.inr (Or.inr (Or.inr ⟨rfl, rfl, rfl, rfl, rfl⟩))), Or.inl rfl⟩
  | renounceAdmin =>
    simp only [applyE, applyW, renounceAdminW] at h
    cases h1 : enforceAdminAuth checkAuth c auth sig FN_RENOUNCE_ADMIN [] with
    | error e => rw [h1] at h; cases h
    | ok c1 =>
      rw [h1] at h; simp only [dropAdmin] at h
      cases h2 : OZ.RoleTransfer.refuseIfPending c1.ac.adm with
      | error e => rw [h2] at h; cases h
      | ok u =>
        rw [h2] at h; injection h with h; subst h
        exact ⟨c1, enforceAdminAuth_rel h1, (enforceAdminAuth_rel h1).frame.self,
          Or.inr (Or.inr (Or.inr (Or.inr ⟨rfl, rfl, rfl, rfl, rfl⟩))), Or.inl rfl⟩
  | checkAuth metas ctxs =>
    exact ⟨c', Or.inr ⟨metas, ctxs, h⟩, (checkPairs_ok (checkAuth_ok h).2).1.self, Or.inl rfl, Or.inl rfl⟩

/-- the governance-relevant part of the state is unchanged: minimum delay, role membership, role
admins, admin, pending admin -/
def SameGov (c c' : CState) : Prop :=
  c'.tl.minDelay = c.tl.minDelay ∧ c'.ac.hasRole = c.ac.hasRole ∧ c'.ac.roleAdmin = c.ac.roleAdmin ∧
  c'.ac.adm.holder = c.ac.adm.holder ∧ c'.ac.adm.pending = c.ac.adm.pending

theorem Frame.sameGov {c c' : CState} (f : Frame c c') : SameGov c c' :=
  ⟨f.minDelay, by rw [f.ac], by rw [f.ac], by rw [f.ac], by rw [f.ac]⟩

/-- a timelock call other than `set_min_delay` leaves the minimum delay alone -/
theorem apply_minDelay_same {s s' : Timelock.State} {y : Timelock.Op} (h : Timelock.apply s y = .ok s')
    (hy : ∀ d, y ≠ .setMinDelay d) : s'.minDelay = s.minDelay := by
  cases y with
  | schedule op d => obtain ⟨_, _, _, _, rfl⟩ := schedule_ok h; rfl
  | setExecute op => obtain ⟨_, _, _, rfl⟩ := setExecute_ok h; rfl
  | execute op ok =>
    obtain ⟨s1, h1, _, rfl⟩ := execute_ok h
    obtain ⟨_, _, _, rfl⟩ := setExecute_ok h1; rfl
  | cancel id => obtain ⟨_, rfl⟩ := cancel_ok h; rfl
  | setMinDelay d => exact absurd rfl (hy d)
  | advance n => obtain ⟨_, rfl⟩ := advance_ok h; rfl

end OZ.TimelockController