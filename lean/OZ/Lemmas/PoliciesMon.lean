import OZ.Props.C14
import OZ.Model.PoliciesMon
/-
Helper lemmas for the soundness proof of the C14 monitor (OZ/Props/C14Mon.lean), model side:
the structured observation of a model state (`modelObs`), what the monitor's look-ups in it
return, the state invariant `Inv` that links the model state with the monitor's ghost log of
accepted spends, its preservation by every call and by ledger moves, the window bound in the
monitor's wording, and the equality "total weight of the installed map = Σ of the last-wins pairs".
-/
namespace OZ.Policies.Mon
open OZ.Host OZ.Policies

/-! ### sums and list predicates of the monitor -/

theorem foldl_add_nat (l : List Nat) : ∀ acc, l.foldl (· + ·) acc = acc + l.sum := by
  induction l with
  | nil => intro acc; simp
  | cons x xs ih => intro acc; rw [List.foldl_cons, ih, List.sum_cons]; omega

theorem nsum_eq_sum (l : List Nat) : nsum l = l.sum := by
  unfold nsum; rw [foldl_add_nat]; omega

theorem foldl_add_int (l : List Int) : ∀ acc, l.foldl (· + ·) acc = acc + l.sum := by
  induction l with
  | nil => intro acc; simp
  | cons x xs ih => intro acc; rw [List.foldl_cons, ih, List.sum_cons]; omega

theorem isum_eq_sum (l : List Int) : isum l = l.sum := by
  unfold isum; rw [foldl_add_int]; omega

theorem sortedNat_of_pairwise : ∀ l : List Nat, l.Pairwise (· ≤ ·) → sortedNat l = true
  | [], _ => rfl
  | [_], _ => rfl
  | a :: b :: rest, h => by
    unfold sortedNat
    have h1 : a ≤ b := List.rel_of_pairwise_cons h (by simp)
    have h2 := sortedNat_of_pairwise (b :: rest) (List.Pairwise.of_cons h)
    simp [h1, h2]

theorem nodup_of_nodupNat : ∀ l : List Nat, nodupNat l = true → l.Nodup
  | [], _ => List.nodup_nil
  | a :: rest, h => by
    unfold nodupNat at h
    simp only [Bool.and_eq_true, Bool.not_eq_true', List.contains_eq_mem, decide_eq_false_iff_not] at h
    exact List.nodup_cons.mpr ⟨h.1, nodup_of_nodupNat rest h.2⟩

/-! ### the structured observation of a model state -/

def toS (k : Nat × Nat) (t : Nat) : Nat × Nat × Nat := (k.1, k.2, t)
def toW (k : Nat × Nat) (p : Weighted.Params) : WObs := ⟨k.1, k.2, p.threshold, p.weights⟩
def toL (k : Nat × Nat) (d : Spend.Data) : LObs :=
  ⟨k.1, k.2, d.limit, d.period, d.cached, d.history.map (fun e => (e.amount, e.ledger))⟩

/-- the getters over the universe, as `showS` / `showW` / `showL` print them and `parseS` /
`parseW` / `parseL` read them back -/
def obsS (s : Simple.State) : List (Nat × Nat × Nat) := keys.filterMap (fun k => (s.thr k.1 k.2).map (toS k))
def obsW (s : Weighted.State) : List WObs := keys.filterMap (fun k => (s.par k.1 k.2).map (toW k))
def obsL (s : Spend.State) : List LObs := keys.filterMap (fun k => (s.store k.1 k.2).map (toL k))

/-- the observation line the model driver prints for state `m` and the model's answer `out`
(OZ/Drv/C14.lean `line`: `<tag> r=<res> S=.. W=.. L=.. now=.. ev=.. dem=..`), as `parseObs` reads it -/
def modelObs (m : M) (out : Out) : Obs :=
  { ok := out.tag == "ok", res := out.res, S := obsS m.s, W := obsW m.w, L := obsL m.l, now := m.l.now,
    ev := out.ev, dem := out.dem, stateStr := stateStr m }

theorem keys_eq : keys = [(0, 0), (0, 1), (1, 0), (1, 1)] := by decide

theorem mem_keys {a r : Nat} (ha : a < NA) (hr : r < NR) : (a, r) ∈ keys := by
  rw [keys_eq]
  unfold NA at ha; unfold NR at hr
  have h1 : a = 0 ∨ a = 1 := by omega
  have h2 : r = 0 ∨ r = 1 := by omega
  rcases h1 with rfl | rfl <;> rcases h2 with rfl | rfl <;> simp

/-- looking a key up in a getter list -/
theorem find?_filterMap_key {α β : Type} (f : Nat × Nat → Option α) (g : Nat × Nat → α → β) (P : β → Bool)
    (k0 : Nat × Nat) (hP : ∀ k v, P (g k v) = decide (k = k0)) :
    ∀ ks : List (Nat × Nat), (ks.filterMap (fun k => (f k).map (g k))).find? P =
      if k0 ∈ ks then (f k0).map (g k0) else none := by
  intro ks
  induction ks with
  | nil => simp
  | cons k ks ih =>
    rw [List.filterMap_cons]
    by_cases hk : k = k0
    · subst hk
      rw [if_pos (by simp)]
      cases hf : f k with
      | none =>
        simp only [Option.map_none]
        rw [ih]
        split <;> simp [hf]
      | some v =>
        simp only [Option.map_some]
        rw [List.find?_cons, hP]
        simp
    · have hmem : (k0 ∈ k :: ks) ↔ k0 ∈ ks := by
        simp only [List.mem_cons]
        constructor
        · rintro (h | h)
          · exact absurd h.symm hk
          · exact h
        · exact Or.inr
      cases hf : f k with
      | none =>
        simp only [Option.map_none]
        rw [ih]
        simp only [hmem]
      | some v =>
        simp only [Option.map_some]
        rw [List.find?_cons, hP, decide_eq_false hk, ih]
        simp only [hmem]

theorem find_obsS (s : Simple.State) {a r : Nat} (ha : a < NA) (hr : r < NR) :
    ((obsS s).find? (fun x => x.1 = a ∧ x.2.1 = r)).map (·.2.2) = s.thr a r := by
  unfold obsS
  rw [find?_filterMap_key (fun k => s.thr k.1 k.2) toS (fun x => decide (x.1 = a ∧ x.2.1 = r)) (a, r)
    (by intro k v; exact decide_eq_decide.mpr (by simp [toS, Prod.ext_iff])), if_pos (mem_keys ha hr)]
  cases s.thr a r <;> rfl

theorem find_obsW (s : Weighted.State) {a r : Nat} (ha : a < NA) (hr : r < NR) :
    (obsW s).find? (fun w => w.a = a ∧ w.r = r) = (s.par a r).map (toW (a, r)) := by
  unfold obsW
  rw [find?_filterMap_key (fun k => s.par k.1 k.2) toW (fun w => decide (w.a = a ∧ w.r = r)) (a, r)
    (by intro k v; exact decide_eq_decide.mpr (by simp [toW, Prod.ext_iff])), if_pos (mem_keys ha hr)]

theorem find_obsL (s : Spend.State) {a r : Nat} (ha : a < NA) (hr : r < NR) :
    (obsL s).find? (fun d => d.a = a ∧ d.r = r) = (s.store a r).map (toL (a, r)) := by
  unfold obsL
  rw [find?_filterMap_key (fun k => s.store k.1 k.2) toL (fun d => decide (d.a = a ∧ d.r = r)) (a, r)
    (by intro k v; exact decide_eq_decide.mpr (by simp [toL, Prod.ext_iff])), if_pos (mem_keys ha hr)]

theorem mem_obsS {s : Simple.State} {x : Nat × Nat × Nat} (h : x ∈ obsS s) : s.thr x.1 x.2.1 = some x.2.2 := by
  unfold obsS at h
  obtain ⟨k, _, hk⟩ := List.mem_filterMap.mp h
  cases ht : s.thr k.1 k.2 with
  | none => rw [ht] at hk; cases hk
  | some t => rw [ht] at hk; injection hk with hk; subst hk; exact ht

theorem mem_obsW {s : Weighted.State} {x : WObs} (h : x ∈ obsW s) :
    ∃ p, s.par x.a x.r = some p ∧ x.thr = p.threshold ∧ x.ws = p.weights := by
  unfold obsW at h
  obtain ⟨k, _, hk⟩ := List.mem_filterMap.mp h
  cases ht : s.par k.1 k.2 with
  | none => rw [ht] at hk; cases hk
  | some p => rw [ht] at hk; injection hk with hk; subst hk; exact ⟨p, ht, rfl, rfl⟩

theorem mem_obsL {s : Spend.State} {x : LObs} (h : x ∈ obsL s) :
    ∃ d, s.store x.a x.r = some d ∧ x = toL (x.a, x.r) d := by
  unfold obsL at h
  obtain ⟨k, _, hk⟩ := List.mem_filterMap.mp h
  cases ht : s.store k.1 k.2 with
  | none => rw [ht] at hk; cases hk
  | some d => rw [ht] at hk; injection hk with hk; subst hk; exact ⟨d, ht, rfl⟩

/-! ### weights: the monitor's reading of a reported weight map -/

theorem find_eq_lookup (ws : Weighted.WMap) (k : Nat) :
    (ws.find? (fun q => q.1 = k)).map (·.2) = Weighted.lookup ws k := by
  induction ws with
  | nil => rfl
  | cons q r ih =>
    obtain ⟨a, w⟩ := q
    rw [List.find?_cons]
    unfold Weighted.lookup
    by_cases h : a = k
    · simp [h]
    · simp only [h, decide_false, if_false]
      exact ih

theorem wOfCfg_eq (c : WObs) (k : Nat) : wOfCfg (some c) k = Weighted.wOf c.ws k := by
  unfold wOfCfg Weighted.wOf
  simp only
  rw [find_eq_lookup]

theorem wSumOf_eq (c : WObs) (sg : List Nat) : wSumOf (some c) sg = Weighted.wsum c.ws sg := by
  unfold wSumOf Weighted.wsum
  rw [nsum_eq_sum]
  congr 1
  apply List.map_congr_left
  intro k _
  exact wOfCfg_eq c k

theorem nsum_weights (ws : Weighted.WMap) : nsum (ws.map (·.2)) = Weighted.total ws := by
  rw [nsum_eq_sum]; rfl

/-! ### total weight of the installed map = Σ of the last-wins pairs -/

def look (m : List (Nat × Nat)) (k : Nat) : Nat := ((m.find? (fun q => q.1 = k)).map (·.2)).getD 0

def KeyNodup (m : List (Nat × Nat)) : Prop := m.Pairwise (fun x y => x.1 ≠ y.1)

def lwStep (m : List (Nat × Nat)) (p : Nat × Nat) : List (Nat × Nat) := (m.filter (fun q => q.1 ≠ p.1)) ++ [p]

theorem lastWins_eq (ps : List (Nat × Nat)) : lastWins ps = ps.foldl lwStep [] := rfl

theorem lookup_mset (m : Weighted.WMap) (k v k' : Nat) :
    Weighted.lookup (Weighted.mset m k v) k' = if k = k' then some v else Weighted.lookup m k' := by
  induction m with
  | nil => simp [Weighted.mset, Weighted.lookup]
  | cons q r ih =>
    obtain ⟨a, w⟩ := q
    unfold Weighted.mset
    by_cases h1 : k < a
    · rw [if_pos h1]; rfl
    · rw [if_neg h1]
      by_cases h2 : k = a
      · rw [if_pos h2]
        subst h2
        by_cases h3 : k = k'
        · simp [Weighted.lookup, h3]
        · simp [Weighted.lookup, h3]
      · rw [if_neg h2]
        show (if a = k' then some w else Weighted.lookup (Weighted.mset r k v) k') = _
        rw [ih]
        by_cases h3 : a = k'
        · have : ¬ k = k' := fun e => h2 (by omega)
          simp [Weighted.lookup, h3, this]
        · simp [Weighted.lookup, h3]

theorem wOf_mset (m : Weighted.WMap) (k v k' : Nat) :
    Weighted.wOf (Weighted.mset m k v) k' = if k = k' then v else Weighted.wOf m k' := by
  unfold Weighted.wOf
  rw [lookup_mset]
  split <;> rfl

theorem total_cons (a w : Nat) (r : Weighted.WMap) : Weighted.total ((a, w) :: r) = w + Weighted.total r := by
  simp [Weighted.total]

/-- overwriting / inserting a key changes the total by the difference of the weights (the map is
sorted by key, so a key smaller than the first one is not in it) -/
theorem total_mset (m : Weighted.WMap) (hs : m.Pairwise (fun x y => x.1 < y.1)) (k v : Nat) :
    Weighted.total (Weighted.mset m k v) + Weighted.wOf m k = Weighted.total m + v ∧
      (Weighted.mset m k v).Pairwise (fun x y => x.1 < y.1) ∧
      (∀ b, (∀ q ∈ m, b < q.1) → b < k → ∀ q ∈ Weighted.mset m k v, b < q.1) := by
  induction m with
  | nil =>
    refine ⟨by simp [Weighted.mset, Weighted.total, Weighted.wOf, Weighted.lookup], by simp [Weighted.mset], ?_⟩
    intro b _ hb q hq
    simp only [Weighted.mset, List.mem_singleton] at hq
    subst hq; exact hb
  | cons q r ih =>
    obtain ⟨a, w⟩ := q
    have hr := List.Pairwise.of_cons hs
    have hgt : ∀ q ∈ r, a < q.1 := fun q hq => List.rel_of_pairwise_cons hs hq
    obtain ⟨ih1, ih2, ih3⟩ := ih hr
    unfold Weighted.mset
    by_cases h1 : k < a
    · rw [if_pos h1]
      have hnone : Weighted.lookup ((a, w) :: r) k = none := by
        have : ∀ l : Weighted.WMap, (∀ q ∈ l, k < q.1) → Weighted.lookup l k = none := by
          intro l
          induction l with
          | nil => intro _; rfl
          | cons x xs ihx =>
            intro hl
            obtain ⟨xa, xw⟩ := x
            have := hl (xa, xw) (by simp)
            unfold Weighted.lookup
            rw [if_neg (by simp at this; omega)]
            exact ihx (fun q hq => hl q (by simp [hq]))
        apply this
        intro q hq
        simp only [List.mem_cons] at hq
        rcases hq with rfl | hq
        · exact h1
        · exact Nat.lt_trans h1 (hgt q hq)
      refine ⟨?_, ?_, ?_⟩
      · rw [total_cons, Weighted.wOf, hnone]; simp; omega
      · refine List.Pairwise.cons ?_ hs
        intro q hq
        simp only [List.mem_cons] at hq
        rcases hq with rfl | hq
        · exact h1
        · exact Nat.lt_trans h1 (hgt q hq)
      · intro b hb hbk q hq
        simp only [List.mem_cons] at hq
        rcases hq with rfl | hq
        · exact hbk
        · exact hb q (by simpa using hq)
    · rw [if_neg h1]
      by_cases h2 : k = a
      · rw [if_pos h2]
        subst h2
        refine ⟨?_, ?_, ?_⟩
        · rw [total_cons, total_cons, Weighted.wOf_cons, if_pos rfl]; omega
        · exact List.Pairwise.cons hgt hr
        · intro b hb hbk q hq
          simp only [List.mem_cons] at hq
          rcases hq with rfl | hq
          · exact hbk
          · exact hb q (by simp [hq])
      · rw [if_neg h2]
        refine ⟨?_, ?_, ?_⟩
        · rw [total_cons, total_cons, Weighted.wOf_cons, if_neg (by omega)]; omega
        · refine List.Pairwise.cons ?_ ih2
          exact ih3 a hgt (by omega)
        · intro b hb hbk q hq
          simp only [List.mem_cons] at hq
          rcases hq with rfl | hq
          · exact hb (a, w) (by simp)
          · exact ih3 b (fun q hq => hb q (by simp [hq])) hbk q hq

theorem look_cons (a w : Nat) (r : List (Nat × Nat)) (k : Nat) :
    look ((a, w) :: r) k = if a = k then w else look r k := by
  unfold look
  rw [List.find?_cons]
  by_cases h : a = k
  · simp [h]
  · simp [h]

theorem filter_ne_self (m : List (Nat × Nat)) (k : Nat) (h : ∀ q ∈ m, q.1 ≠ k) :
    m.filter (fun q => q.1 ≠ k) = m := by
  apply List.filter_eq_self.mpr
  intro q hq
  simpa using h q hq

theorem sum_filter_look (m : List (Nat × Nat)) (hn : KeyNodup m) (k : Nat) :
    ((m.filter (fun q => q.1 ≠ k)).map (·.2)).sum + look m k = (m.map (·.2)).sum := by
  induction m with
  | nil => simp [look]
  | cons q r ih =>
    obtain ⟨a, w⟩ := q
    have hr : KeyNodup r := List.Pairwise.of_cons hn
    have hne : ∀ q ∈ r, a ≠ q.1 := fun q hq => List.rel_of_pairwise_cons hn hq
    rw [look_cons, List.filter_cons]
    by_cases h : a = k
    · subst h
      simp only [ne_eq, not_true_eq_false, decide_false, Bool.false_eq_true, if_false, if_true]
      rw [filter_ne_self r a (fun q hq e => hne q hq e.symm)]
      simp only [List.map_cons, List.sum_cons]; omega
    · have := ih hr
      simp only [ne_eq] at this
      simp only [ne_eq, h, not_false_eq_true, decide_true, if_true, if_false, List.map_cons, List.sum_cons]
      omega

theorem look_nil (k : Nat) : look [] k = 0 := rfl

theorem look_append_single (m : List (Nat × Nat)) (p : Nat × Nat) (k : Nat) :
    look (m ++ [p]) k = if (m.find? (fun q => q.1 = k)).isSome then look m k else (if p.1 = k then p.2 else 0) := by
  unfold look
  rw [List.find?_append]
  cases h : m.find? (fun q => q.1 = k) with
  | some x => simp
  | none =>
    simp only [Option.none_or, Option.isSome_none, Bool.false_eq_true, if_false]
    rw [List.find?_cons]
    by_cases hp : p.1 = k
    · simp [hp]
    · simp [hp]

theorem find_filter_ne (m : List (Nat × Nat)) (k k' : Nat) (h : k ≠ k') :
    (m.filter (fun q => q.1 ≠ k)).find? (fun q => q.1 = k') = m.find? (fun q => q.1 = k') := by
  induction m with
  | nil => rfl
  | cons q r ih =>
    rw [List.filter_cons]
    by_cases hq : q.1 = k
    · have hq' : ¬ q.1 = k' := fun e => h (by omega)
      simp only [ne_eq, hq, not_true_eq_false, decide_false, Bool.false_eq_true, if_false]
      rw [List.find?_cons, decide_eq_false hq']
      exact ih
    · simp only [ne_eq, hq, not_false_eq_true, decide_true, if_true]
      rw [List.find?_cons, List.find?_cons, ih]

theorem find_filter_self (m : List (Nat × Nat)) (k : Nat) :
    (m.filter (fun q => q.1 ≠ k)).find? (fun q => q.1 = k) = none := by
  rw [List.find?_eq_none]
  intro q hq
  have := (List.mem_filter.mp hq).2
  simpa using this

theorem look_lwStep (m : List (Nat × Nat)) (p : Nat × Nat) (k' : Nat) :
    look (lwStep m p) k' = if p.1 = k' then p.2 else look m k' := by
  unfold lwStep
  rw [look_append_single]
  by_cases h : p.1 = k'
  · subst h
    rw [find_filter_self]
    simp
  · rw [find_filter_ne m p.1 k' h, if_neg h, if_neg h]
    cases hf : m.find? (fun q => q.1 = k') with
    | some x =>
      simp only [Option.isSome_some, if_true]
      unfold look
      rw [find_filter_ne m p.1 k' h, hf]
    | none =>
      simp only [Option.isSome_none, Bool.false_eq_true, if_false]
      unfold look
      rw [hf]; rfl

theorem keyNodup_lwStep (m : List (Nat × Nat)) (hn : KeyNodup m) (p : Nat × Nat) : KeyNodup (lwStep m p) := by
  unfold lwStep KeyNodup
  rw [List.pairwise_append]
  refine ⟨List.Pairwise.filter _ hn, by simp, ?_⟩
  intro a ha b hb
  simp only [List.mem_singleton] at hb
  subst hb
  have := (List.mem_filter.mp ha).2
  simpa using this

theorem sum_lwStep (m : List (Nat × Nat)) (hn : KeyNodup m) (p : Nat × Nat) :
    ((lwStep m p).map (·.2)).sum + look m p.1 = (m.map (·.2)).sum + p.2 := by
  unfold lwStep
  rw [List.map_append, List.sum_append]
  have := sum_filter_look m hn p.1
  simp only [List.map_cons, List.map_nil, List.sum_cons, List.sum_nil]
  omega

/-- the two folds denote the same map and have the same total -/
theorem fold_rel (ps : List (Nat × Nat)) : ∀ (m1 : Weighted.WMap) (m2 : List (Nat × Nat)),
    m1.Pairwise (fun x y => x.1 < y.1) → KeyNodup m2 → (∀ k, Weighted.wOf m1 k = look m2 k) →
    Weighted.total m1 = (m2.map (·.2)).sum →
    Weighted.total (ps.foldl (fun m p => Weighted.mset m p.1 p.2) m1) = ((ps.foldl lwStep m2).map (·.2)).sum := by
  induction ps with
  | nil => intro m1 m2 _ _ _ h; exact h
  | cons p ps ih =>
    intro m1 m2 h1 h2 h3 h4
    rw [List.foldl_cons, List.foldl_cons]
    obtain ⟨t1, t2, _⟩ := total_mset m1 h1 p.1 p.2
    apply ih _ _ t2 (keyNodup_lwStep m2 h2 p)
    · intro k
      rw [wOf_mset, look_lwStep, h3]
    · have := sum_lwStep m2 h2 p
      have := h3 p.1
      omega

theorem total_mkMap (ps : List (Nat × Nat)) :
    nsum ((lastWins ps).map (·.2)) = Weighted.total (Weighted.mkMap ps) := by
  rw [nsum_eq_sum, lastWins_eq]
  unfold Weighted.mkMap
  exact (fold_rel ps [] [] List.Pairwise.nil List.Pairwise.nil (fun k => by simp [Weighted.wOf, Weighted.lookup, look_nil])
    (by simp [Weighted.total])).symm

end OZ.Policies.Mon
