import OZ.Lemmas.TimelockControllerMonOwn
import OZ.Lemmas.TimelockControllerMonCalls
import OZ.Lemmas.TimelockControllerMonCheckAuth
/-
Soundness of the C09 monitor, assembly: every call line the model accepts (`accepted_callSound`),
a rejected call, a definition line, the first line of a sequence, and the invariant.
-/
namespace OZ.TimelockController.Mon
open OZ.Host OZ.Timelock OZ.TimelockController

/-- every call line the model driver resolves and the model accepts passes the monitor's verdict,
and the monitor's ghost log follows the model's log -/
theorem accepted_callSound (m : Mon) (x : MS) (hi : MInv x) (ha : Agree m x) (cl : CallLine) (e : Entry)
    (auth : List AuthTok) (hr : resolveCall x cl = some (e, auth)) (c' : CState)
    (hx : applyE x.c auth (resolveSig x.defs cl.sig) e = .ok c') : CallSound m x cl c' := by
  unfold resolveCall at hr
  cases hc : cl.call with
  | sched k d p =>
    rw [hc] at hr
    simp only at hr
    cases hk : x.defs[k]? with
    | none => rw [hk] at hr; cases hr
    | some op =>
      rw [hk] at hr
      simp only [Option.map_some, Option.some.injEq, Prod.mk.injEq] at hr
      obtain ⟨rfl, rfl⟩ := hr
      exact sched_sound m x hi ha cl k d p hc op hk c' hx
  | cancel r p =>
    rw [hc] at hr
    simp only at hr
    cases hk : refKey x.defs r with
    | none => rw [hk] at hr; cases hr
    | some id0 =>
      rw [hk] at hr
      simp only [Option.map_some, Option.some.injEq, Prod.mk.injEq] at hr
      obtain ⟨rfl, rfl⟩ := hr
      exact cancel_sound m x hi ha cl r p hc id0 hk c' hx
  | exec k ex okn =>
    rw [hc] at hr
    simp only at hr
    cases hk : x.defs[k]? with
    | none => rw [hk] at hr; cases hr
    | some op =>
      rw [hk] at hr
      simp only [Option.map_some, Option.some.injEq, Prod.mk.injEq] at hr
      obtain ⟨rfl, rfl⟩ := hr
      exact exec_sound m x hi ha cl k ex okn hc op hk _ c' hx
  | update d =>
    rw [hc] at hr
    simp only [Option.some.injEq, Prod.mk.injEq] at hr
    obtain ⟨rfl, rfl⟩ := hr
    exact update_sound m x hi ha cl d hc c' hx
  | grant a r k =>
    rw [hc] at hr
    simp only [Option.some.injEq, Prod.mk.injEq] at hr
    obtain ⟨rfl, rfl⟩ := hr
    exact grant_sound m x hi ha cl a r k hc c' hx
  | revoke a r k =>
    rw [hc] at hr
    simp only [Option.some.injEq, Prod.mk.injEq] at hr
    obtain ⟨rfl, rfl⟩ := hr
    exact revoke_sound m x hi ha cl a r k hc c' hx
  | renrole r k =>
    rw [hc] at hr
    simp only [Option.some.injEq, Prod.mk.injEq] at hr
    obtain ⟨rfl, rfl⟩ := hr
    exact renrole_sound m x hi ha cl r k hc c' hx
  | setradm r ar =>
    rw [hc] at hr
    simp only [Option.some.injEq, Prod.mk.injEq] at hr
    obtain ⟨rfl, rfl⟩ := hr
    exact setradm_sound m x hi ha cl r ar hc c' hx
  | transfer a lu =>
    rw [hc] at hr
    simp only [Option.some.injEq, Prod.mk.injEq] at hr
    obtain ⟨rfl, rfl⟩ := hr
    exact transfer_sound m x hi ha cl a lu hc c' hx
  | renounce =>
    rw [hc] at hr
    simp only [Option.some.injEq, Prod.mk.injEq] at hr
    obtain ⟨rfl, rfl⟩ := hr
    exact renounce_sound m x hi ha cl hc c' hx
  | accept =>
    rw [hc] at hr
    simp only [Option.some.injEq, Prod.mk.injEq] at hr
    obtain ⟨rfl, rfl⟩ := hr
    exact accept_sound m x hi ha cl hc c' hx
  | check metas ctxs =>
    rw [hc] at hr
    simp only [Option.some.injEq, Prod.mk.injEq] at hr
    obtain ⟨rfl, rfl⟩ := hr
    exact check_sound m x hi ha cl metas ctxs hc c' hx
  | advance n =>
    rw [hc] at hr
    simp only [Option.some.injEq, Prod.mk.injEq] at hr
    obtain ⟨rfl, rfl⟩ := hr
    exact advance_sound m x hi ha cl n hc c' hx
  | other kind =>
    rw [hc] at hr
    cases hr

/-- on the first line of a sequence (nothing defined yet) the ghost step does not depend on the
previously observed admin: no key can be found -/
theorem ghostStep_nodefs (m : Mon) (h : m.defs = []) (cl : CallLine) (now : Nat) (pa pa' : Option Nat) :
    ghostStep m cl now pa = ghostStep m cl now pa' := by
  have hkey : ∀ f args md, keyOf m.defs f args md = none := by
    intro f args md
    unfold keyOf findDef
    rw [h]
    cases opKey f args (refKey [] md.p) md.s <;> rfl
  have hk : consumedKeys m cl = [] := by
    unfold consumedKeys
    cases cl.call with
    | check metas ctxs =>
      simp only
      unfold checkKeys
      rw [List.filterMap_eq_nil_iff]
      intro j _
      unfold checkKey
      split
      · exact hkey _ _ _
      · rfl
    | _ =>
      simp only
      unfold sigKeys
      split
      · rw [hkey]; rfl
      · rfl
  unfold ghostStep
  cases hc : cl.call with
  | sched k d p => rfl
  | cancel r p => rfl
  | exec k ex ok => rfl
  | _ =>
    simp only
    rw [hk]
    show (if _ then m else m) = (if _ then m else m)
    simp

/-- the timelock invariant (C08) and the storage invariant (C06) through every entry point -/
theorem applyE_minv {x : MS} (hi : MInv x) {auth : List AuthTok} {sig : Option (List Meta)} {e : Entry}
    {c' : CState} (h : applyE x.c auth sig e = .ok c')
    (hk : ∀ id, Timelock.ghost c'.tl.log id ≠ .unset → id ∈ x.defs.map Operation.id) : MInv ⟨c', x.defs⟩ := by
  obtain ⟨c1, hrel, hself, hac, hd⟩ := applyE_decomp h
  have hi1 := hrel.inv hi.tl
  have ha1 : OZ.Access.Inv c1.ac := by rw [hrel.frame.ac]; exact hi.ac
  refine ⟨?_, hac.inv ha1, by show c'.self = 0; rw [hself]; exact hi.self, hk⟩
  show Inv c'.tl
  cases hy : e.tlOp with
  | some y =>
    rw [hy] at hd
    obtain ⟨rfl, hs⟩ := hd
    exact apply_inv hi.tl hs
  | none =>
    rw [hy] at hd
    rcases hd with e1 | ⟨d, _, e1⟩
    · rw [e1]; exact hi1
    · rw [e1]; exact ⟨hi1.nowLo, hi1.nowHi, hi1.coh, hi1.cnt⟩

/-- an accepted call line through `checkCall` -/
theorem accepted_sound (m : Mon) (x : MS) (hi : MInv x) (ha : Agree m x) (cl : CallLine) (e : Entry)
    (auth : List AuthTok) (hr : resolveCall x cl = some (e, auth)) (c' : CState)
    (hx : applyE x.c auth (resolveSig x.defs cl.sig) e = .ok c') :
    (checkCall m cl (modelObs c' x.defs true none)).2 = none ∧
    Agree (checkCall m cl (modelObs c' x.defs true none)).1 ⟨c', x.defs⟩ ∧ MInv ⟨c', x.defs⟩ := by
  have cs := accepted_callSound m x hi ha cl e auth hr c' hx
  have hi' := applyE_minv hi hx cs.known
  unfold checkCall
  cases hp : m.prev with
  | none =>
    simp only
    have hd0 : m.defs = [] := by rw [ha.defs]; exact (ha.first hp).1
    obtain ⟨a, b⟩ := fin_sound cl none m ⟨c', x.defs⟩ true none rfl hi'.tl
      (by show (ghostStep m cl _ none).defs = x.defs; rw [ghostStep_defs]; exact ha.defs)
      (by
        intro id
        show (ghostStep m cl c'.tl.now none).get (some id) = _
        rw [ghostStep_nodefs m hd0 cl _ none x.c.admin]
        exact cs.ghost id)
    exact ⟨a, b, hi'⟩
  | some p =>
    simp only
    obtain ⟨ok0, eq0, rfl⟩ := ha.prev p hp
    obtain ⟨a, b⟩ := fin_sound cl (modelObs x.c x.defs ok0 eq0).admin m ⟨c', x.defs⟩ true _ (cs.verdict ok0 eq0) hi'.tl
      (by show (ghostStep m cl _ _).defs = x.defs; rw [ghostStep_defs]; exact ha.defs)
      (by intro id; exact cs.ghost id)
    exact ⟨a, b, hi'⟩

/-- a call line the model rejects: nothing observable changed -/
theorem rejected_sound (m : Mon) (x : MS) (hi : MInv x) (ha : Agree m x) (cl : CallLine) :
    (checkCall m cl (modelObs x.c x.defs false none)).2 = none ∧
    Agree (checkCall m cl (modelObs x.c x.defs false none)).1 x := by
  unfold checkCall
  cases hp : m.prev with
  | none =>
    simp only
    exact fin_sound cl none m x false none rfl hi.tl ha.defs ha.ghost
  | some p =>
    simp only
    obtain ⟨ok0, eq0, rfl⟩ := ha.prev p hp
    refine fin_sound cl _ m x false _ ?_ hi.tl ha.defs ha.ghost
    unfold verdictCall verdictOk
    have hidle : idle cl.call (modelObs x.c x.defs ok0 eq0) (modelObs x.c x.defs false none) = none := by
      unfold idle
      cases cl.call with
      | advance n =>
        exact idleCheck_none x.defs ok0 false eq0 none rfl rfl rfl rfl rfl rfl (Nat.le_refl _) n
      | _ => rfl
    rw [hidle, undone_none x.defs ok0 false eq0 none (fun _ h => h)]
    rw [if_pos (by simp [modelObs]), rollback_none]
    rfl

/-- a definition line -/
theorem def_sound (m : Mon) (x : MS) (hi : MInv x) (ha : Agree m x) (t f : Nat) (args : List Nat)
    (p : Ref) (s : Nat) (pid : Id) (hp : refKey x.defs p = some pid) :
    (checkDef m t f args p s (modelDef x ⟨t, f, args, pid, s⟩).2).2 = none ∧
    Agree (checkDef m t f args p s (modelDef x ⟨t, f, args, pid, s⟩).2).1 (modelDef x ⟨t, f, args, pid, s⟩).1 ∧
    MInv (modelDef x ⟨t, f, args, pid, s⟩).1 := by
  unfold checkDef
  rw [ha.defs, hp]
  simp only
  obtain ⟨a, b⟩ := finDef_sound { m with defs := x.defs ++ [⟨t, f, args, pid, s⟩] }
    ⟨x.c, x.defs ++ [(⟨t, f, args, pid, s⟩ : Operation)]⟩ true (some (sameTuples x.defs ⟨t, f, args, pid, s⟩))
    (firstSome (initBad m (modelDef x ⟨t, f, args, pid, s⟩).2) (verdictDef m ⟨t, f, args, pid, s⟩ (modelDef x ⟨t, f, args, pid, s⟩).2))
    (by
      have hib : initBad m (modelDef x ⟨t, f, args, pid, s⟩).2 = none := by
        unfold initBad
        rw [if_neg]
        rintro ⟨hn, hany⟩
        have hpn : m.prev = none := by cases hm : m.prev <;> simp_all
        have hr := (ha.first hpn).2
        simp only [modelDef, modelObs, modelRadm, List.any_map, List.any_eq_true] at hany
        obtain ⟨r, _, hr'⟩ := hany
        simp [hr r] at hr'
      rw [hib]
      unfold verdictDef
      rw [if_neg (by rw [ha.defs]; simp [modelDef, modelObs])]
      rfl)
    hi.tl rfl (fun id => by rw [get_defs]; exact ha.ghost id)
  refine ⟨a, b, ⟨hi.tl, hi.ac, hi.self, ?_⟩⟩
  intro id hne
  show id ∈ (x.defs ++ [_]).map Operation.id
  rw [List.map_append]
  exact List.mem_append_left _ (hi.known id hne)

end OZ.TimelockController.Mon
