import OZ.Model.RegBinder
import OZ.Lemmas.RegChunk
import OZ.Lemmas.RegList
/-
The token binder's buckets represent a duplicate-free flat list (C20).
-/
namespace OZ.RegBinder
open OZ.Reg

theorem bsize : BSize BUCKET_SIZE := Or.inl rfl

/-- the storage represents the flat list `l` -/
structure Rep (s : State) (l : List Nat) : Prop where
  nodup : l.Nodup
  count : s.count = l.length
  buckets : s.buckets = chunk BUCKET_SIZE l
  le : l.length ≤ MAX_TOKENS

def Inv (s : State) : Prop := ∃ l, Rep s l

theorem rep_init : Rep init [] := by
  refine ⟨by simp, rfl, ?_, by simp⟩
  funext b; simp [init, chunk]

theorem inv_init : Inv init := ⟨[], rep_init⟩

/-! ### getters -/

theorem rep_linkedTokens {s : State} {l : List Nat} (h : Rep s l) : linkedTokens s = l := by
  unfold linkedTokens bucketRange
  rw [h.count, h.buckets]
  split
  · rename_i h0; exact (List.length_eq_zero_iff.1 h0).symm
  · exact flatMap_chunk BUCKET_SIZE bsize l

theorem rep_isTokenBound {s : State} {l : List Nat} (h : Rep s l) (t : Nat) :
    isTokenBound s t = true ↔ t ∈ l := by
  unfold isTokenBound bucketRange
  rw [h.count, h.buckets]
  split
  · rename_i h0
    rw [List.length_eq_zero_iff.1 h0]; simp
  · rw [List.any_eq_true, ← mem_chunk_iff BUCKET_SIZE bsize l t]
    constructor
    · rintro ⟨b, hb, hc⟩; exact ⟨b, hb, by simpa using hc⟩
    · rintro ⟨b, hb, hc⟩; exact ⟨b, hb, by simpa using hc⟩

theorem rep_getTokenByIndex {s : State} {l : List Nat} (h : Rep s l) (i : Nat) :
    getTokenByIndex s i = l[i]? := by
  unfold getTokenByIndex
  rw [h.count, h.buckets]
  split
  · rename_i hi; exact ((getElem?_none_iff l i).2 hi).symm
  · exact getElem?_chunk_div BUCKET_SIZE bsize l i

/-- a hit of the scan is a position of `t` in the flat list -/
theorem scan_some {s : State} {l : List Nat} (h : Rep s l) (t : Nat) (bs : List Nat) (i : Nat)
    (hs : scan s t bs = some i) : l[i]? = some t := by
  induction bs with
  | nil => cases hs
  | cons b bs ih =>
    unfold scan at hs
    split at hs
    · rename_i hc
      injection hs with hs; subst hs
      rw [h.buckets] at hc ⊢
      have hm : t ∈ chunk BUCKET_SIZE l b := by simpa using hc
      have hlt : (chunk BUCKET_SIZE l b).idxOf t < (chunk BUCKET_SIZE l b).length := List.idxOf_lt_length_iff.2 hm
      have hget : (chunk BUCKET_SIZE l b)[(chunk BUCKET_SIZE l b).idxOf t]? = some t := by
        rw [List.getElem?_eq_getElem hlt, List.getElem_idxOf hlt]
      rw [getElem?_chunk] at hget
      have hB : (chunk BUCKET_SIZE l b).idxOf t < BUCKET_SIZE := by
        rw [length_chunk] at hlt; omega
      rw [if_pos hB] at hget
      rw [Nat.mul_comm]; exact hget
    · exact ih hs

theorem scan_none {s : State} {l : List Nat} (h : Rep s l) (t : Nat) (bs : List Nat) :
    scan s t bs = none ↔ ∀ b, b ∈ bs → t ∉ chunk BUCKET_SIZE l b := by
  induction bs with
  | nil => simp [scan]
  | cons b bs ih =>
    unfold scan
    split
    · rename_i hc
      rw [h.buckets] at hc
      constructor
      · intro h'; cases h'
      · intro h'; exact absurd (by simpa using hc) (h' b (List.mem_cons_self ..))
    · rename_i hc
      rw [h.buckets] at hc
      rw [ih]
      constructor
      · intro h' b' hb'
        cases hb' with
        | head => simpa using hc
        | tail _ hb' => exact h' b' hb'
      · intro h' b' hb'; exact h' b' (List.mem_cons_of_mem _ hb')

theorem rep_getTokenIndex_some {s : State} {l : List Nat} (h : Rep s l) (t i : Nat)
    (hs : getTokenIndex s t = some i) : l[i]? = some t := by
  unfold getTokenIndex at hs
  split at hs
  · cases hs
  · exact scan_some h t _ i hs

theorem rep_getTokenIndex_none {s : State} {l : List Nat} (h : Rep s l) (t : Nat) :
    getTokenIndex s t = none ↔ t ∉ l := by
  unfold getTokenIndex bucketRange
  split
  · rename_i h0
    rw [h.count] at h0
    rw [List.length_eq_zero_iff.1 h0]; simp
  · rw [scan_none h, h.count, ← mem_chunk_iff BUCKET_SIZE bsize l t]
    constructor
    · rintro h' ⟨b, hb, hc⟩; exact h' b hb hc
    · intro h' b hb hc; exact h' ⟨b, hb, hc⟩

/-! ### bind -/

theorem rep_push {s : State} {l : List Nat} (h : Rep s l) {t : Nat} (hn : t ∉ l)
    (hl : l.length < MAX_TOKENS) : Rep (push s t) (l ++ [t]) := by
  refine ⟨?_, ?_, ?_, ?_⟩
  · rw [List.nodup_append]; refine ⟨h.nodup, by simp, ?_⟩
    intro a ha b hb; simp at hb; subst hb; intro hab; subst hab; exact hn ha
  · simp [push, h.count]
  · funext b
    show updD s.buckets (s.count / BUCKET_SIZE) (s.buckets (s.count / BUCKET_SIZE) ++ [t]) b = _
    rw [chunk_append BUCKET_SIZE bsize, h.count, h.buckets]
    unfold updD; split <;> simp_all
  · simp; omega

theorem bindToken_ok_iff {s : State} {l : List Nat} (h : Rep s l) (s' : State) (t : Nat) :
    bindToken s t = .ok s' ↔ (t ∉ l ∧ l.length < MAX_TOKENS) ∧ s' = push s t := by
  unfold bindToken
  by_cases hb : t ∈ l
  · rw [if_pos ((rep_isTokenBound h t).2 hb)]
    constructor
    · intro h'; cases h'
    · rintro ⟨⟨h', _⟩, _⟩; exact absurd hb h'
  · rw [if_neg (fun h' => hb ((rep_isTokenBound h t).1 h')), h.count]
    by_cases hl : l.length ≥ MAX_TOKENS
    · rw [if_pos hl]; constructor
      · intro h'; cases h'
      · rintro ⟨⟨_, h'⟩, _⟩; omega
    · rw [if_neg hl]; constructor
      · intro h'; injection h' with h'; exact ⟨⟨hb, by omega⟩, h'.symm⟩
      · rintro ⟨_, rfl⟩; rfl

/-- the filling loop: accepted iff no token of the batch was bound before the call -/
theorem pushAll_ok_iff (bound : List Nat) (s s' : State) (ts : List Nat) :
    pushAll bound s ts = .ok s' ↔ (∀ t, t ∈ ts → t ∉ bound) ∧ s' = ts.foldl push s := by
  induction ts generalizing s with
  | nil => simp [pushAll]; exact eq_comm
  | cons t ts ih =>
    unfold pushAll
    by_cases hb : t ∈ bound
    · rw [if_pos (by simpa using hb)]
      constructor
      · intro h; cases h
      · rintro ⟨h, _⟩; exact absurd hb (h t (List.mem_cons_self ..))
    · rw [if_neg (by simpa using hb), ih]
      simp only [List.foldl_cons, List.mem_cons]
      constructor
      · rintro ⟨h1, h2⟩
        exact ⟨fun x hx => hx.elim (fun e => e ▸ hb) (h1 x), h2⟩
      · rintro ⟨h1, h2⟩
        exact ⟨fun x hx => h1 x (Or.inr hx), h2⟩

theorem rep_foldl_push {s : State} {l : List Nat} (h : Rep s l) (ts : List Nat) (hnd : ts.Nodup)
    (hdis : ∀ t, t ∈ ts → t ∉ l) (hl : l.length + ts.length ≤ MAX_TOKENS) :
    Rep (ts.foldl push s) (l ++ ts) := by
  induction ts generalizing s l with
  | nil => simpa using h
  | cons t ts ih =>
    rw [List.nodup_cons] at hnd
    simp only [List.foldl_cons]
    have h1 : Rep (push s t) (l ++ [t]) :=
      rep_push h (hdis t (List.mem_cons_self ..)) (by simp at hl; omega)
    have := ih h1 hnd.2 (by
      intro x hx hm
      rw [List.mem_append] at hm
      cases hm with
      | inl hm => exact hdis x (List.mem_cons_of_mem _ hx) hm
      | inr hm => simp at hm; subst hm; exact hnd.1 hx) (by simp at hl ⊢; omega)
    simpa using this

theorem bindTokens_ok_iff {s : State} {l : List Nat} (h : Rep s l) (s' : State) (ts : List Nat) :
    bindTokens s ts = .ok s' ↔
      (ts.length ≤ BUCKET_SIZE * 2 ∧ l.length + ts.length ≤ MAX_TOKENS ∧ ts.Nodup ∧ ∀ t, t ∈ ts → t ∉ l) ∧
        s' = ts.foldl push s := by
  unfold bindTokens
  rw [rep_linkedTokens h, h.count]
  by_cases h1 : ts.length > BUCKET_SIZE * 2
  · rw [if_pos h1]; constructor
    · intro h'; cases h'
    · rintro ⟨⟨h', _⟩, _⟩; omega
  rw [if_neg h1]
  by_cases h2 : l.length + ts.length > MAX_TOKENS
  · rw [if_pos h2]; constructor
    · intro h'; cases h'
    · rintro ⟨⟨_, h', _⟩, _⟩; omega
  rw [if_neg h2]
  by_cases h3 : ts.Nodup
  · rw [if_neg (by simpa using h3), pushAll_ok_iff]
    constructor
    · rintro ⟨h4, h5⟩; exact ⟨⟨by omega, by omega, h3, h4⟩, h5⟩
    · rintro ⟨⟨_, _, _, h4⟩, h5⟩; exact ⟨h4, h5⟩
  · rw [if_pos (by simpa using h3)]; constructor
    · intro h'; cases h'
    · rintro ⟨⟨_, _, h', _⟩, _⟩; exact absurd h' h3

/-! ### unbind -/

theorem rep_popLast {s : State} {l : List Nat} (hb : s.buckets = chunk BUCKET_SIZE l) (hl : l ≠ []) :
    (popLast s (l.length - 1)).buckets = chunk BUCKET_SIZE l.dropLast := by
  funext b
  show updD s.buckets ((l.length - 1) / BUCKET_SIZE) _ b = _
  rw [chunk_dropLast BUCKET_SIZE bsize l hl, hb]
  unfold updD; split <;> simp_all

/-- `unbind_token` with a known index: never hits its `expect`s, and performs swap-and-pop -/
theorem rep_unbindAt {s : State} {l : List Nat} (h : Rep s l) (idx : Nat) (hidx : idx < l.length) :
    ∃ s', unbindAt s idx = .ok s' ∧ s'.buckets = chunk BUCKET_SIZE (swapPop l idx) ∧
      s'.count = l.length - 1 := by
  have hne : l ≠ [] := by intro h0; rw [h0] at hidx; simp at hidx
  unfold unbindAt
  rw [h.count]
  by_cases hlast : idx ≠ l.length - 1
  · rw [if_pos hlast, rep_getTokenByIndex h]
    have hget : l[l.length - 1]? = some (l[l.length - 1]'(by omega)) := List.getElem?_eq_getElem (by omega)
    rw [hget]
    refine ⟨_, rfl, ?_, rfl⟩
    have hsw : swapPop l idx = (l.set idx (l[l.length - 1]'(by omega))).dropLast := by
      unfold swapPop; rw [if_pos hlast, hget]
    rw [hsw]
    have hset : (overwrite s idx (l[l.length - 1]'(by omega))).buckets =
        chunk BUCKET_SIZE (l.set idx (l[l.length - 1]'(by omega))) := by
      funext b
      show updD s.buckets (idx / BUCKET_SIZE) _ b = _
      rw [chunk_set BUCKET_SIZE bsize, h.buckets]
      unfold updD; split <;> simp_all
    have hne' : l.set idx (l[l.length - 1]'(by omega)) ≠ [] := by
      intro h0
      have := congrArg List.length h0
      rw [List.length_set, List.length_nil] at this
      exact hne (List.length_eq_zero_iff.1 this)
    have := rep_popLast hset hne'
    simpa using this
  · rw [if_neg hlast]
    refine ⟨_, rfl, ?_, rfl⟩
    have hsw : swapPop l idx = l.dropLast := by unfold swapPop; rw [if_neg hlast]
    rw [hsw]; exact rep_popLast h.buckets hne

theorem unbindToken_ok_iff {s : State} {l : List Nat} (h : Rep s l) (t : Nat) :
    (t ∈ l → ∃ s' idx, unbindToken s t = .ok s' ∧ l[idx]? = some t ∧ Rep s' (swapPop l idx)) ∧
    (t ∉ l → ∃ e, unbindToken s t = .error e) := by
  unfold unbindToken
  constructor
  · intro ht
    cases hi : getTokenIndex s t with
    | none => exact absurd ht ((rep_getTokenIndex_none h t).1 hi)
    | some idx =>
      have hget := rep_getTokenIndex_some h t idx hi
      have hidx : idx < l.length := by rw [List.getElem?_eq_some_iff] at hget; exact hget.1
      obtain ⟨s', hs', hb, hc⟩ := rep_unbindAt h idx hidx
      refine ⟨s', idx, hs', hget, ?_⟩
      exact ⟨nodup_swapPop l h.nodup idx hidx, by rw [hc, length_swapPop], hb,
        by rw [length_swapPop]; exact Nat.le_trans (Nat.sub_le _ _) h.le⟩
  · intro ht
    rw [(rep_getTokenIndex_none h t).2 ht]
    exact ⟨_, rfl⟩

/-! ### histories -/

theorem inv_next {s : State} (hI : Inv s) (o : Op) : Inv (next s o) := by
  obtain ⟨l, h⟩ := hI
  unfold next
  cases hs : step s o with
  | error e => exact ⟨l, h⟩
  | ok s' =>
    cases o with
    | bind t =>
      obtain ⟨⟨hn, hl⟩, rfl⟩ := (bindToken_ok_iff h s' t).1 hs
      exact ⟨_, rep_push h hn hl⟩
    | bindMany ts =>
      obtain ⟨⟨_, hl, hnd, hdis⟩, rfl⟩ := (bindTokens_ok_iff h s' ts).1 hs
      exact ⟨_, rep_foldl_push h ts hnd hdis hl⟩
    | unbind t =>
      by_cases ht : t ∈ l
      · obtain ⟨s'', idx, hs'', _, hr⟩ := (unbindToken_ok_iff h t).1 ht
        have : s' = s'' := by
          have h1 : unbindToken s t = .ok s' := hs
          rw [h1] at hs''; injection hs''
        exact ⟨_, this ▸ hr⟩
      · obtain ⟨e, he⟩ := (unbindToken_ok_iff h t).2 ht
        have h1 : unbindToken s t = .ok s' := hs
        rw [h1] at he; cases he

theorem inv_run {s : State} (hI : Inv s) (ops : List Op) : Inv (run s ops) := by
  induction ops generalizing s with
  | nil => exact hI
  | cons o os ih => exact ih (inv_next hI o)

def Reachable (s : State) : Prop := ∃ ops, s = run init ops

theorem reachable_inv {s : State} (h : Reachable s) : Inv s := by
  obtain ⟨ops, rfl⟩ := h
  exact inv_run inv_init ops

/-- the represented set -/
def bound (s : State) (t : Nat) : Prop := isTokenBound s t = true

theorem mem_foldl_push {s : State} {l : List Nat} (h : Rep s l) (ts : List Nat) (hnd : ts.Nodup)
    (hdis : ∀ t, t ∈ ts → t ∉ l) (hl : l.length + ts.length ≤ MAX_TOKENS) (x : Nat) :
    bound (ts.foldl push s) x ↔ (bound s x ∨ x ∈ ts) := by
  unfold bound
  rw [rep_isTokenBound (rep_foldl_push h ts hnd hdis hl), rep_isTokenBound h, List.mem_append]

end OZ.RegBinder
