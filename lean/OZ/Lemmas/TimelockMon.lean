import OZ.Lemmas.Timelock
import OZ.Model.TimelockMon
/-
Helper definitions and lemmas for the soundness proof of the C08 monitor (OZ/Props/C08Mon.lean).

First the MODEL side of the driver OZ/Drv/C08.lean on parsed lines (`MS`, `modelObs`, `modelStep`):
the structured content of exactly what `stepLine` / `showState` print. Then facts about the
monitor's pieces (OZ/Model/TimelockMon.lean), each stated with plain arguments.
-/
namespace OZ.Timelock.Mon
open OZ.Host OZ.Timelock

/-! ### the model driver on parsed lines (mirror of `OZ.Drv.C08.stepLine`) -/

/-- the model driver's state (`OZ.Drv.C08.M`) -/
structure MS where
  s : State
  defs : List Operation

def initMS (start : Nat) : MS := ⟨init start, []⟩

def b2s (b : Bool) : String := if b then "1" else "0"

def codeOf : OpState → String
  | .unset => "U" | .waiting => "W" | .ready => "R" | .done => "D"

/-- `showId`: state letter, `get_operation_ledger`, the four predicates -/
def idObs (s : State) (id : Id) : IdObs :=
  { code := codeOf (getOperationState s id), ledger := getOperationLedger s id,
    flags := b2s (operationExists s id) ++ b2s (isOperationPending s id) ++
             b2s (isOperationReady s id) ++ b2s (isOperationDone s id) }

def callObsOf (cs : List Call) : CallObs :=
  match cs with
  | [] => ⟨0, none, none⟩
  | (_, f, a) :: _ => ⟨cs.length, some f, some (a.headD 0)⟩

/-- `showCalls`: the calls of target `t`: how many, function and first argument of the last -/
def callObs (s : State) (t : Nat) : CallObs := callObsOf (s.calls.filter (fun c => c.1 = t))

def modelCalls (s : State) : List CallObs := [callObs s 0, callObs s 1]

def modelSt (x : MS) : List IdObs := (idUniverse x.defs).map (idObs x.s)

/-- `showState` (with the `ok`/`err` tag and the `eq=` field of a definition line) -/
def modelObs (x : MS) (ok : Bool) (eq : Option (List Nat)) : Obs :=
  { ok := ok, eq := eq, now := x.s.now, min := x.s.minDelay, st := modelSt x, calls := modelCalls x.s }

/-- `parseOp`: the model call a call line denotes (`none`: the driver prints `bad-op`) -/
def resolveCall (defs : List Operation) : CallLine → Option Op
  | .min d => d.map Op.setMinDelay
  | .sched k d => (defs[k]?).map (fun op => Op.schedule op d)
  | .setexec k => (defs[k]?).map Op.setExecute
  | .exec k ok => (defs[k]?).map (fun op => Op.execute op (ok = 1))
  | .cancel r => (refKey defs r).map Op.cancel
  | .advance n => some (.advance n)
  | .other _ _ => none

def outside (s : State) : Op → Bool
  | .advance n => decide (s.now + n > HORIZON)
  | _ => false

def modelCall (x : MS) (op : Op) : MS × Obs :=
  if outside x.s op then (x, modelObs x false none)
  else
    match apply x.s op with
    | .ok s' => (⟨s', x.defs⟩, modelObs ⟨s', x.defs⟩ true none)
    | .error _ => (x, modelObs x false none)

def modelDef (x : MS) (op : Operation) : MS × Obs :=
  (⟨x.s, x.defs ++ [op]⟩, modelObs ⟨x.s, x.defs ++ [op]⟩ true (some (sameTuples x.defs op)))

/-- one line through the model driver: new state and the observation it prints
(`none`: it prints `bad-op`, there is no observation) -/
def modelStep (x : MS) : Line → Option (MS × Obs)
  | .badDef => none
  | .defn t f args p s => (refKey x.defs p).map (fun pid => modelDef x ⟨t, f, args, pid, s⟩)
  | .call c => (resolveCall x.defs c).map (modelCall x)

/-- the monitor's reading of the model's ghost log -/
def toG : Ghost → G
  | .unset => .unset
  | .pending l d _ => .pending l d
  | .done => .done

/-- monitor state and model-driver state describe the same point of a history -/
structure Agree (m : Mon) (x : MS) : Prop where
  defs : m.defs = x.defs
  ghost : ∀ id, m.get (some id) = toG (ghost x.s.log id)
  now : prevNow m = x.s.now
  min : prevMin m = x.s.minDelay
  calls : prevCalls m = modelCalls x.s
  st : ∀ p, m.prev = some p → p.st = modelSt x

/-! ### ghost lookup -/

theorem get_set (m : Mon) (k k' : Key) (g : G) :
    (m.set k g).get k' = if k = k' then g else m.get k' := by
  unfold Mon.get Mon.set
  by_cases h : k = k'
  · simp [h]
  · simp [h]

theorem get_prev (m : Mon) (p : Option Obs) (k : Key) : ({ m with prev := p } : Mon).get k = m.get k := rfl

theorem get_defs (m : Mon) (d : List Operation) (k : Key) : ({ m with defs := d } : Mon).get k = m.get k := rfl

/-! ### the reported triple of an id is what the ghost log prescribes -/

def mkObs (st : OpState) (v : Nat) : IdObs :=
  { code := codeOf st, ledger := v,
    flags := b2s (st != .unset) ++ b2s (st == .waiting || st == .ready) ++ b2s (st == .ready) ++ b2s (st == .done) }

theorem idObs_eq (s : State) (id : Id) : idObs s id = mkObs (stateOf (s.ledger id) s.now) (s.ledger id) := rfl

theorem satU32_eq (a b : Nat) : satU32 a b = satAdd a b := rfl

theorem expected_pending (l d now : Nat) :
    expected (.pending l d) now =
      if l + d ≤ now ∨ (l + d > 4294967295 ∧ now = 4294967295) then ⟨"R", satU32 l d, "1110"⟩
      else ⟨"W", satU32 l d, "1100"⟩ := rfl

theorem expected_toG {s : State} (hi : Inv s) (id : Id) :
    expected (toG (Timelock.ghost s.log id)) s.now = idObs s id := by
  have hc := hi.coh id
  rw [idObs_eq]
  cases hg : Timelock.ghost s.log id with
  | unset =>
    rw [hg] at hc
    have h0 : s.ledger id = 0 := hc
    rw [stateOf_unset.mpr h0, h0]; rfl
  | done =>
    rw [hg] at hc
    have h1 : s.ledger id = 1 := hc
    rw [stateOf_done.mpr h1, h1]; rfl
  | pending l d mn =>
    rw [hg] at hc
    obtain ⟨hv, _, hl2, _⟩ := hc
    have hge : 2 ≤ s.ledger id := by rw [hv]; exact satAdd_ge_two hl2
    show expected (.pending l d) s.now = _
    rw [expected_pending]
    by_cases he : elapsed l d s.now
    · have he' : l + d ≤ s.now ∨ (l + d > 4294967295 ∧ s.now = 4294967295) := he
      rw [if_pos he']
      have hs : stateOf (s.ledger id) s.now = .ready :=
        stateOf_ready.mpr ⟨hge, by rw [hv]; exact (satAdd_le_iff_elapsed hi.nowHi).mpr he⟩
      rw [hs, hv, satU32_eq]; rfl
    · have he' : ¬ (l + d ≤ s.now ∨ (l + d > 4294967295 ∧ s.now = 4294967295)) := he
      rw [if_neg he']
      have hs : stateOf (s.ledger id) s.now = .waiting := by
        apply stateOf_waiting.mpr ⟨hge, ?_⟩
        rw [hv]
        have : ¬ satAdd l d ≤ s.now := fun h => he ((satAdd_le_iff_elapsed hi.nowHi).mp h)
        omega
      rw [hs, hv, satU32_eq]; rfl

/-! ### the state check over the whole universe -/

theorem zip_filter_nil (m : Mon) (now : Nat) (f : Id → IdObs) (l : List Id)
    (h : ∀ id, expected (m.get (some id)) now = f id) :
    ((l.map some).zip (l.map f)).filter (isBad m now) = [] := by
  induction l with
  | nil => rfl
  | cons a t ih =>
    simp only [List.map_cons, List.zip_cons_cons]
    rw [List.filter_cons, if_neg (by simp [isBad, h]), ih]

theorem checkStates_quiet (m : Mon) (o : Obs) (f : Id → IdObs)
    (h : ∀ id, expected (m.get (some id)) o.now = f id) (hst : o.st = (idUniverse m.defs).map f) :
    checkStates m o = none := by
  unfold checkStates universeKeys
  rw [hst, if_neg (by simp), zip_filter_nil m o.now f _ h]

/-! ### an idle gap -/

theorem idObs_advance (s : State) (n : Nat) (id : Id) :
    idObs { s with now := s.now + n } id = idObs s id ∨
      ((idObs s id).code = "W" ∧ (idObs { s with now := s.now + n } id).code = "R" ∧
        (idObs s id).ledger = (idObs { s with now := s.now + n } id).ledger ∧
        (idObs { s with now := s.now + n } id).ledger ≤ s.now + n) := by
  rw [idObs_eq, idObs_eq]
  show mkObs (stateOf (s.ledger id) (s.now + n)) (s.ledger id) = _ ∨ _
  by_cases h0 : s.ledger id = 0
  · left; rw [stateOf_unset.mpr h0, stateOf_unset.mpr h0]
  · by_cases h1 : s.ledger id = 1
    · left; rw [stateOf_done.mpr h1, stateOf_done.mpr h1]
    · by_cases hw : s.now < s.ledger id
      · have hb := stateOf_waiting.mpr ⟨show 2 ≤ s.ledger id by omega, hw⟩
        by_cases hw' : s.now + n < s.ledger id
        · left; rw [hb, stateOf_waiting.mpr ⟨show 2 ≤ s.ledger id by omega, hw'⟩]
        · right
          rw [hb, stateOf_ready.mpr ⟨show 2 ≤ s.ledger id by omega, show s.ledger id ≤ s.now + n by omega⟩]
          exact ⟨rfl, rfl, rfl, by show s.ledger id ≤ s.now + n; omega⟩
      · left
        rw [stateOf_ready.mpr ⟨show 2 ≤ s.ledger id by omega, show s.ledger id ≤ s.now by omega⟩,
          stateOf_ready.mpr ⟨show 2 ≤ s.ledger id by omega, show s.ledger id ≤ s.now + n by omega⟩]

theorem lost_nil_of_prev_none (m : Mon) (n : Nat) (o : Obs) (h : m.prev = none) : lost m n o = [] := by
  unfold lost prevSt
  rw [h]; rfl

theorem lost_nil (m : Mon) (n : Nat) (o : Obs) (l : List Id) (f g : Id → IdObs)
    (hp : prevSt m = l.map f) (ho : o.st = l.map g)
    (h : ∀ id, g id = f id ∨ ((f id).code = "W" ∧ (g id).code = "R" ∧ (f id).ledger = (g id).ledger ∧
      (g id).ledger ≤ o.now)) : lost m n o = [] := by
  unfold lost
  rw [List.filterMap_eq_nil_iff]
  intro i _
  unfold lostAt
  rw [hp, ho]
  simp only [List.getElem?_map]
  cases l[i]? with
  | none => rfl
  | some id =>
    simp only [Option.map_some]
    rcases h id with e | ⟨e1, e2, e3, e4⟩
    · rw [if_pos e.symm]
    · by_cases hab : f id = g id
      · rw [if_pos hab]
      · rw [if_neg hab, if_pos ⟨e1, e2, e3, e4⟩]

/-! ### the targets' counters -/

theorem callObs_push_same (s : State) (c : Call) (t : Nat) (h : c.1 = t) :
    callObs { s with calls := c :: s.calls } t = ⟨(callObs s t).cnt + 1, some c.2.1, some (c.2.2.headD 0)⟩ := by
  unfold callObs
  show callObsOf ((c :: s.calls).filter (fun c => c.1 = t)) = _
  rw [List.filter_cons, if_pos (by simpa using h)]
  obtain ⟨t', f, a⟩ := c
  cases hcs : s.calls.filter (fun c => decide (c.1 = t)) with
  | nil => rfl
  | cons x xs => obtain ⟨_, _, _⟩ := x; rfl

theorem callObs_push_other (s : State) (c : Call) (t : Nat) (h : c.1 ≠ t) :
    callObs { s with calls := c :: s.calls } t = callObs s t := by
  unfold callObs
  show callObsOf ((c :: s.calls).filter (fun c => c.1 = t)) = _
  rw [List.filter_cons, if_neg (by simpa using h)]

theorem expectedCalls_model (s : State) (t fn : Nat) (args : List Nat) :
    (modelCalls { s with calls := (t, fn, args) :: s.calls }).map some =
      expectedCalls (modelCalls s) t fn (args.headD 0) := by
  have hr : List.range 2 = [0, 1] := rfl
  unfold expectedCalls modelCalls
  rw [hr]
  simp only [List.map_cons, List.map_nil]
  congr 1
  · by_cases h : 0 = t
    · rw [if_pos h, callObs_push_same s _ 0 h.symm]; rfl
    · rw [if_neg h, callObs_push_other s _ 0 (fun e => h e.symm)]; rfl
  · congr 1
    by_cases h : 1 = t
    · rw [if_pos h, callObs_push_same s _ 1 h.symm]; rfl
    · rw [if_neg h, callObs_push_other s _ 1 (fun e => h e.symm)]; rfl

/-! ### `fin`: remember the observation, run the state check -/

theorem prevNow_some (m : Mon) (p : Obs) (h : m.prev = some p) : prevNow m = p.now := by
  unfold prevNow; rw [h]
theorem prevMin_some (m : Mon) (p : Obs) (h : m.prev = some p) : prevMin m = p.min := by
  unfold prevMin; rw [h]
theorem prevCalls_some (m : Mon) (p : Obs) (h : m.prev = some p) : prevCalls m = p.calls := by
  unfold prevCalls; rw [h]
theorem prevSt_some (m : Mon) (p : Obs) (h : m.prev = some p) : prevSt m = p.st := by
  unfold prevSt; rw [h]

/-- if the verdict on the call is silent, the monitor's ghost log reads like the model's log and
the model state satisfies the invariant, then the state check over the whole universe is silent
too, and the new monitor state agrees with the model state -/
theorem fin_sound (m' : Mon) (x' : MS) (ok : Bool) (eq : Option (List Nat)) (f : Option String)
    (hf : f = none) (hi' : Inv x'.s) (hd : m'.defs = x'.defs)
    (hg : ∀ id, m'.get (some id) = toG (Timelock.ghost x'.s.log id)) :
    (fin (modelObs x' ok eq) m' f).2 = none ∧ Agree (fin (modelObs x' ok eq) m' f).1 x' := by
  subst hf
  constructor
  · show checkStates { m' with prev := some (modelObs x' ok eq) } (modelObs x' ok eq) = none
    apply checkStates_quiet _ _ (idObs x'.s)
    · intro id
      rw [get_prev, hg]
      exact expected_toG hi' id
    · show modelSt x' = _
      unfold modelSt
      rw [← hd]
  · exact ⟨hd, fun id => by rw [← hg id]; rfl, rfl, rfl, rfl,
      fun p hp => by injection hp with hp; subst hp; rfl⟩

/-! ### a rejected call -/

theorem changed_false (m : Mon) (x : MS) (ha : Agree m x) (eq : Option (List Nat)) :
    changed m (modelObs x false eq) = false := by
  unfold changed
  cases hp : m.prev with
  | none => rfl
  | some p =>
    have h1 : p.st = modelSt x := ha.st p hp
    have h2 : p.min = x.s.minDelay := by rw [← prevMin_some m p hp]; exact ha.min
    have h3 : p.calls = modelCalls x.s := by rw [← prevCalls_some m p hp]; exact ha.calls
    have h4 : p.now = x.s.now := by rw [← prevNow_some m p hp]; exact ha.now
    simp [modelObs, h1, h2, h3, h4]

theorem rejected_sound (m : Mon) (x : MS) (hi : Inv x.s) (ha : Agree m x) :
    (fin (modelObs x false none) m (verdictRejected m (modelObs x false none))).2 = none ∧
    Agree (fin (modelObs x false none) m (verdictRejected m (modelObs x false none))).1 x := by
  apply fin_sound m x false none _ _ hi ha.defs ha.ghost
  unfold verdictRejected
  rw [changed_false m x ha]
  rfl

/-! ### a definition line -/

theorem def_sound (m : Mon) (x : MS) (hi : Inv x.s) (ha : Agree m x) (t f : Nat) (args : List Nat)
    (p : Ref) (s : Nat) (pid : Id) (hp : refKey x.defs p = some pid) :
    (checkDef m t f args p s (modelDef x ⟨t, f, args, pid, s⟩).2).2 = none ∧
    Agree (checkDef m t f args p s (modelDef x ⟨t, f, args, pid, s⟩).2).1 (modelDef x ⟨t, f, args, pid, s⟩).1 := by
  unfold checkDef
  rw [ha.defs, hp]
  show (fin (modelObs ⟨x.s, x.defs ++ [⟨t, f, args, pid, s⟩]⟩ true _) _ _).2 = none ∧
    Agree (fin (modelObs ⟨x.s, x.defs ++ [⟨t, f, args, pid, s⟩]⟩ true _) _ _).1 ⟨x.s, x.defs ++ [⟨t, f, args, pid, s⟩]⟩
  refine fin_sound _ ⟨x.s, x.defs ++ [(⟨t, f, args, pid, s⟩ : Operation)]⟩ true _ _ ?_ hi ?_ ?_
  · unfold verdictDef
    rw [if_neg (by rw [ha.defs]; simp [modelDef, modelObs])]
  · rfl
  · intro id; rw [get_defs]; exact ha.ghost id

/-! ### accepted calls -/

theorem Coh.of_zero {g : Ghost} {v now : Nat} (h : Coh g v now) (hv : v = 0) : g = .unset := by
  cases g with
  | unset => rfl
  | done => simp [Coh] at h; omega
  | pending l d m =>
    obtain ⟨a, _, c, _⟩ := h
    have := satAdd_ge_two (b := d) c
    omega

theorem stable_none (m : Mon) (kind : String) (o : Obs) (h1 : o.now = prevNow m) (h2 : o.min = prevMin m) :
    stable m kind o = none := by
  unfold stable
  rw [if_neg (fun h => h h1), if_neg (fun h => h.2 h2)]

theorem callsSame_none (m : Mon) (kind : String) (o : Obs) (h : o.calls = prevCalls m) :
    callsSame m kind o = none := by
  unfold callsSame
  rw [if_neg (fun h' => h' h)]

theorem min_sound (m : Mon) (x : MS) (hi : Inv x.s) (ha : Agree m x) (d : Nat) :
    (checkAccepted m (.min (some d)) (modelObs ⟨setMinDelay x.s d, x.defs⟩ true none)).2 = none ∧
    Agree (checkAccepted m (.min (some d)) (modelObs ⟨setMinDelay x.s d, x.defs⟩ true none)).1
      ⟨setMinDelay x.s d, x.defs⟩ := by
  have hi' : Inv (setMinDelay x.s d) := apply_inv hi (x := .setMinDelay d) rfl
  refine fin_sound m ⟨setMinDelay x.s d, x.defs⟩ true none _ ?_ hi' ha.defs ha.ghost
  unfold verdictMin
  rw [if_neg (fun h => h rfl)]
  unfold stable
  rw [if_neg (fun h => h ha.now.symm), if_neg (fun h => h.1 rfl)]
  exact callsSame_none m _ _ ha.calls.symm

theorem sched_sound (m : Mon) (x : MS) (hi : Inv x.s) (ha : Agree m x) (k d : Nat) (opn : Operation)
    (hk : x.defs[k]? = some opn) (s' : State) (hx : schedule x.s opn d = .ok s') :
    (checkAccepted m (.sched k d) (modelObs ⟨s', x.defs⟩ true none)).2 = none ∧
    Agree (checkAccepted m (.sched k d) (modelObs ⟨s', x.defs⟩ true none)).1 ⟨s', x.defs⟩ := by
  have hi' : Inv s' := apply_inv hi (x := .schedule opn d) hx
  obtain ⟨mn, hm, hmd, h0, rfl⟩ := schedule_ok hx
  have hkey : keyOf m k = some opn.id := by unfold keyOf; rw [ha.defs, hk]; rfl
  have hget : m.get (some opn.id) = .unset := by
    rw [ha.ghost, Coh.of_zero (hi.coh opn.id) h0]; rfl
  show (fin _ (m.set (keyOf m k) _) _).2 = none ∧ Agree (fin _ (m.set (keyOf m k) _) _).1 _
  rw [hkey]
  refine fin_sound _ ⟨_, x.defs⟩ true none _ ?_ hi' ha.defs ?_
  · have : schedCond m (some opn.id) d = none := by
      unfold schedCond
      rw [hget, ha.min, hm]
      simp only []
      rw [if_neg (by omega)]
    rw [this]
    show firstSome (stable m "sched" _) (callsSame m "sched" _) = none
    rw [stable_none m _ _ ha.now.symm ha.min.symm]
    exact callsSame_none m _ _ ha.calls.symm
  · intro id
    rw [get_set]
    show _ = toG (Timelock.ghost (Ev.sched opn.id x.s.now d mn :: x.s.log) id)
    by_cases hid : opn.id = id
    · subst hid
      rw [if_pos rfl, ghost_sched_same, ha.now]; rfl
    · rw [if_neg (by simpa using hid), ghost_other _ _ _ (by simpa [Ev.id] using hid)]
      exact ha.ghost id

theorem cancel_sound (m : Mon) (x : MS) (hi : Inv x.s) (ha : Agree m x) (r : Ref) (id0 : Id)
    (hr : refKey x.defs r = some id0) (s' : State) (hx : cancel x.s id0 = .ok s') :
    (checkAccepted m (.cancel r) (modelObs ⟨s', x.defs⟩ true none)).2 = none ∧
    Agree (checkAccepted m (.cancel r) (modelObs ⟨s', x.defs⟩ true none)).1 ⟨s', x.defs⟩ := by
  have hi' : Inv s' := apply_inv hi (x := .cancel id0) hx
  obtain ⟨h2, rfl⟩ := cancel_ok hx
  obtain ⟨l, d, mn, hg, _⟩ := (hi.coh id0).ledger_ge_two h2
  have hget : m.get (some id0) = .pending l d := by rw [ha.ghost, hg]; rfl
  show (fin _ (m.set (refKey m.defs r) _) _).2 = none ∧ Agree (fin _ (m.set (refKey m.defs r) _) _).1 _
  rw [ha.defs, hr]
  refine fin_sound _ ⟨_, x.defs⟩ true none _ ?_ hi' ha.defs ?_
  · have : cancelCond m (some id0) = none := by
      unfold cancelCond
      rw [hget]
    rw [this]
    show firstSome (stable m "cancel" _) (callsSame m "cancel" _) = none
    rw [stable_none m _ _ ha.now.symm ha.min.symm]
    exact callsSame_none m _ _ ha.calls.symm
  · intro id
    rw [get_set]
    show _ = toG (Timelock.ghost (Ev.cancel id0 x.s.now :: x.s.log) id)
    by_cases hid : id0 = id
    · subst hid
      rw [if_pos rfl, ghost_cancel_same]; rfl
    · rw [if_neg (by simpa using hid), ghost_other _ _ _ (by simpa [Ev.id] using hid)]
      exact ha.ghost id

/-- the property's conditions for an execution hold in the monitor's wording whenever the model
accepts `set_execute_operation` -/
theorem execCond_none (m : Mon) (x : MS) (hi : Inv x.s) (ha : Agree m x) (opn : Operation) (s1 : State)
    (h1 : setExecute x.s opn = .ok s1) :
    execCond m (some opn.id) (some opn.pred) x.s.now = none := by
  obtain ⟨h2, hn, hp, _⟩ := setExecute_ok h1
  obtain ⟨l, d, mn, hg, hv, _, _, _⟩ := (hi.coh opn.id).ledger_ge_two h2
  have hget : m.get (some opn.id) = .pending l d := by rw [ha.ghost, hg]; rfl
  have hel : l + d ≤ x.s.now ∨ (l + d > 4294967295 ∧ x.s.now = 4294967295) := by
    rw [hv] at hn; exact (satAdd_le_iff_elapsed hi.nowHi).mp hn
  unfold execCond
  rw [hget]
  simp only []
  rw [if_neg (fun h => h hel)]
  rcases hp with hz | hd
  · rw [if_neg (fun h => h.1 (by rw [hz]))]
  · have : m.get (some opn.pred) = .done := by
      rw [ha.ghost, (hi.coh opn.pred).of_one hi.nowHi hd]; rfl
    rw [if_neg (fun h => h.2 this)]

theorem ghost_after_exec (m : Mon) (x : MS) (ha : Agree m x) (opn : Operation) (id : Id) :
    (m.set (some opn.id) .done).get (some id) = toG (Timelock.ghost (Ev.exec opn.id x.s.now :: x.s.log) id) := by
  rw [get_set]
  by_cases hid : opn.id = id
  · subst hid
    rw [if_pos rfl, ghost_exec_same]; rfl
  · rw [if_neg (by simpa using hid), ghost_other _ _ _ (by simpa [Ev.id] using hid)]
    exact ha.ghost id

theorem setexec_sound (m : Mon) (x : MS) (hi : Inv x.s) (ha : Agree m x) (k : Nat) (opn : Operation)
    (hk : x.defs[k]? = some opn) (s' : State) (hx : setExecute x.s opn = .ok s') :
    (checkAccepted m (.setexec k) (modelObs ⟨s', x.defs⟩ true none)).2 = none ∧
    Agree (checkAccepted m (.setexec k) (modelObs ⟨s', x.defs⟩ true none)).1 ⟨s', x.defs⟩ := by
  have hi' : Inv s' := apply_inv hi (x := .setExecute opn) hx
  have hcond := execCond_none m x hi ha opn s' hx
  obtain ⟨_, _, _, rfl⟩ := setExecute_ok hx
  have hkey : keyOf m k = some opn.id := by unfold keyOf; rw [ha.defs, hk]; rfl
  have hpred : predOf m k = some opn.pred := by unfold predOf; rw [ha.defs, hk]; rfl
  show (fin _ (m.set (keyOf m k) _) (firstSome (execCond m (keyOf m k) (predOf m k) _) _)).2 = none ∧
    Agree (fin _ (m.set (keyOf m k) _) (firstSome (execCond m (keyOf m k) (predOf m k) _) _)).1 _
  rw [hkey, hpred]
  refine fin_sound _ ⟨_, x.defs⟩ true none _ ?_ hi' ha.defs (ghost_after_exec m x ha opn)
  show firstSome (execCond m (some opn.id) (some opn.pred) x.s.now) _ = none
  rw [hcond]
  show firstSome (stable m "setexec" _) (callsSame m "setexec" _) = none
  rw [stable_none m _ _ ha.now.symm ha.min.symm]
  exact callsSame_none m _ _ ha.calls.symm

theorem tupleOf_some (defs : List Operation) (k : Nat) (opn : Operation) (hk : defs[k]? = some opn) :
    tupleOf defs k = (opn.target, opn.fn, opn.args.headD 0) := by
  unfold tupleOf; rw [hk]

theorem exec_sound (m : Mon) (x : MS) (hi : Inv x.s) (ha : Agree m x) (k callok : Nat) (ok : Bool)
    (opn : Operation) (hk : x.defs[k]? = some opn) (s' : State) (hx : execute x.s opn ok = .ok s') :
    (checkAccepted m (.exec k callok) (modelObs ⟨s', x.defs⟩ true none)).2 = none ∧
    Agree (checkAccepted m (.exec k callok) (modelObs ⟨s', x.defs⟩ true none)).1 ⟨s', x.defs⟩ := by
  have hi' : Inv s' := apply_inv hi (x := .execute opn ok) hx
  obtain ⟨s1, h1, _, rfl⟩ := execute_ok hx
  have hcond := execCond_none m x hi ha opn s1 h1
  obtain ⟨_, _, _, rfl⟩ := setExecute_ok h1
  have hkey : keyOf m k = some opn.id := by unfold keyOf; rw [ha.defs, hk]; rfl
  have hpred : predOf m k = some opn.pred := by unfold predOf; rw [ha.defs, hk]; rfl
  show (fin _ (m.set (keyOf m k) _) (firstSome (execCond m (keyOf m k) (predOf m k) _) _)).2 = none ∧
    Agree (fin _ (m.set (keyOf m k) _) (firstSome (execCond m (keyOf m k) (predOf m k) _) _)).1 _
  rw [hkey, hpred]
  refine fin_sound _ ⟨_, x.defs⟩ true none _ ?_ hi' ha.defs (ghost_after_exec m x ha opn)
  show firstSome (execCond m (some opn.id) (some opn.pred) x.s.now) _ = none
  rw [hcond]
  show firstSome (stable m "exec" _) (execCalls m k _) = none
  rw [stable_none m _ _ ha.now.symm ha.min.symm]
  show execCalls m k _ = none
  unfold execCalls
  rw [ha.defs, tupleOf_some _ _ _ hk, ha.calls]
  rw [if_neg (fun h => h (expectedCalls_model _ opn.target opn.fn opn.args))]

theorem advance_sound (m : Mon) (x : MS) (hi : Inv x.s) (ha : Agree m x) (n : Nat) (s' : State)
    (hx : advance x.s n = .ok s') :
    (checkAccepted m (.advance n) (modelObs ⟨s', x.defs⟩ true none)).2 = none ∧
    Agree (checkAccepted m (.advance n) (modelObs ⟨s', x.defs⟩ true none)).1 ⟨s', x.defs⟩ := by
  have hi' : Inv s' := apply_inv hi (x := .advance n) hx
  obtain ⟨_, rfl⟩ := advance_ok hx
  refine fin_sound m ⟨_, x.defs⟩ true none _ ?_ hi' ha.defs ha.ghost
  unfold verdictAdvance
  rw [if_neg (fun h => h (by rw [ha.now]; rfl)), if_neg (fun h => h ha.min.symm)]
  have hl : lost m n (modelObs ⟨{ x.s with now := x.s.now + n }, x.defs⟩ true none) = [] := by
    cases hp : m.prev with
    | none => exact lost_nil_of_prev_none m n _ hp
    | some p =>
      apply lost_nil m n _ (idUniverse x.defs) (idObs x.s) (idObs { x.s with now := x.s.now + n })
      · rw [prevSt_some m p hp, ha.st p hp]; rfl
      · rfl
      · intro id; exact idObs_advance x.s n id
  rw [hl]
  exact callsSame_none m _ _ ha.calls.symm

/-- every call the model accepts passes the monitor -/
theorem accepted_sound (m : Mon) (x : MS) (hi : Inv x.s) (ha : Agree m x) (c : CallLine) (op : Op)
    (hr : resolveCall x.defs c = some op) (s' : State) (hx : apply x.s op = .ok s') :
    (checkAccepted m c (modelObs ⟨s', x.defs⟩ true none)).2 = none ∧
    Agree (checkAccepted m c (modelObs ⟨s', x.defs⟩ true none)).1 ⟨s', x.defs⟩ := by
  cases c with
  | min d =>
    cases d with
    | none => simp [resolveCall] at hr
    | some d =>
      simp only [resolveCall, Option.map_some, Option.some.injEq] at hr
      subst hr
      have : s' = setMinDelay x.s d := by simp only [apply] at hx; injection hx with hx; exact hx.symm
      subst this
      exact min_sound m x hi ha d
  | sched k d =>
    cases hk : x.defs[k]? with
    | none => simp [resolveCall, hk] at hr
    | some opn =>
      simp only [resolveCall, hk, Option.map_some, Option.some.injEq] at hr
      subst hr
      exact sched_sound m x hi ha k d opn hk s' hx
  | cancel r =>
    cases hk : refKey x.defs r with
    | none => simp [resolveCall, hk] at hr
    | some id0 =>
      simp only [resolveCall, hk, Option.map_some, Option.some.injEq] at hr
      subst hr
      exact cancel_sound m x hi ha r id0 hk s' hx
  | advance n =>
    simp only [resolveCall, Option.some.injEq] at hr
    subst hr
    exact advance_sound m x hi ha n s' hx
  | exec k callok =>
    cases hk : x.defs[k]? with
    | none => simp [resolveCall, hk] at hr
    | some opn =>
      simp only [resolveCall, hk, Option.map_some, Option.some.injEq] at hr
      subst hr
      exact exec_sound m x hi ha k callok _ opn hk s' hx
  | setexec k =>
    cases hk : x.defs[k]? with
    | none => simp [resolveCall, hk] at hr
    | some opn =>
      simp only [resolveCall, hk, Option.map_some, Option.some.injEq] at hr
      subst hr
      exact setexec_sound m x hi ha k opn hk s' hx
  | other kind k => simp [resolveCall] at hr

/-! ### `checkCore` inside the regime -/

theorem checkCore_call (m : Mon) (c : CallLine) (o : Obs) (h2 : 2 ≤ o.now) :
    checkCore m (.call c) o =
      if ¬ o.ok then fin o m (verdictRejected m o) else checkAccepted m c o := by
  unfold checkCore
  rw [if_neg (by omega)]

theorem checkCore_defn (m : Mon) (t f : Nat) (args : List Nat) (p : Ref) (s : Nat) (o : Obs) (h2 : 2 ≤ o.now) :
    checkCore m (.defn t f args p s) o = checkDef m t f args p s o := by
  unfold checkCore
  rw [if_neg (by omega)]

end OZ.Timelock.Mon
