import OZ.Lemmas.PoliciesMon
/-
C14 monitor soundness, the invariant: what links a reachable model state with the monitor's
ghost log of accepted spends (`Inv`), for EVERY start ledger (also ledger 0, where the
saturating cutoff evicts an entry of ledger 0 at once: such entries are `Gone` for good and the
monitor's window sum does not count them), its preservation by every call and every ledger
move, and the window bound in the monitor's own wording (`chkWindow … = none`).
-/
namespace OZ.Policies.Mon
open OZ.Host OZ.Policies

/-! ### the ghost log, per key -/

def proj (e : Spent) : Spend.Entry := ⟨e.amount, e.ledger⟩

/-- the spends of one key in the monitor's log (newest first), as history entries -/
def logOf (log : List Spent) (a r : Nat) : List Spend.Entry := (log.filter (fun e => e.a = a ∧ e.r = r)).map proj

theorem logOf_nil (a r : Nat) : logOf [] a r = [] := rfl

theorem logOf_cons_same (e : Spent) (log : List Spent) : logOf (e :: log) e.a e.r = proj e :: logOf log e.a e.r := by
  unfold logOf
  rw [List.filter_cons, if_pos (by simp)]
  rfl

theorem logOf_cons_other (e : Spent) (log : List Spent) (a r : Nat) (h : ¬ (a = e.a ∧ r = e.r)) :
    logOf (e :: log) a r = logOf log a r := by
  unfold logOf
  rw [List.filter_cons, if_neg (by simp only [decide_eq_true_eq]; intro hh; exact h ⟨hh.1.symm, hh.2.symm⟩)]

theorem logOf_forget_same (log : List Spent) (a r : Nat) :
    logOf (log.filter (fun e => ¬ (e.a = a ∧ e.r = r))) a r = [] := by
  unfold logOf
  rw [List.filter_filter]
  have : (log.filter (fun e => (decide (e.a = a ∧ e.r = r)) && (decide ¬ (e.a = a ∧ e.r = r)))) = [] := by
    rw [List.filter_eq_nil_iff]
    intro e _
    by_cases h : e.a = a ∧ e.r = r <;> simp [h]
  rw [this]; rfl

theorem logOf_forget_other (log : List Spent) (a r a' r' : Nat) (h : ¬ (a' = a ∧ r' = r)) :
    logOf (log.filter (fun e => ¬ (e.a = a ∧ e.r = r))) a' r' = logOf log a' r' := by
  unfold logOf
  rw [List.filter_filter]
  congr 1
  apply List.filter_congr
  intro e _
  by_cases h1 : e.a = a' ∧ e.r = r'
  · have : ¬ (e.a = a ∧ e.r = r) := fun hh => h ⟨h1.1.symm.trans hh.1, h1.2.symm.trans hh.2⟩
    rw [decide_eq_true h1, decide_eq_true this]; rfl
  · rw [decide_eq_false h1]; rfl

/-! ### the window sum in the monitor's wording -/

/-- ledger ≥ 1 and later than `L − P` -/
def inWin1 (L P : Nat) (e : Spend.Entry) : Bool := decide (1 ≤ e.ledger ∧ L < e.ledger + P)

def winE (l : List Spend.Entry) (L P : Nat) : Int := Spend.isum (l.filter (inWin1 L P))

theorem winE_append (a b : List Spend.Entry) (L P : Nat) : winE (a ++ b) L P = winE a L P + winE b L P := by
  unfold winE; rw [List.filter_append, Spend.isum_append]

theorem winE_all (l : List Spend.Entry) (L P : Nat) (h : ∀ e ∈ l, 1 ≤ e.ledger ∧ L < e.ledger + P) :
    winE l L P = Spend.isum l := by
  unfold winE
  rw [List.filter_eq_self.mpr]
  intro e he
  simpa [inWin1] using h e he

theorem winE_none (l : List Spend.Entry) (L P : Nat) (h : ∀ e ∈ l, e.ledger + P ≤ L ∨ e.ledger = 0) :
    winE l L P = 0 := by
  unfold winE
  rw [List.filter_eq_nil_iff.mpr]
  · rfl
  · intro e he
    have := h e he
    simp only [inWin1, decide_eq_true_eq]
    omega

theorem windowSum_eq (log : List Spent) (e : Spent) :
    windowSum log e = winE (logOf log e.a e.r) e.ledger e.period := by
  unfold windowSum winE logOf Spend.isum
  rw [isum_eq_sum]
  induction log with
  | nil => rfl
  | cons x xs ih =>
    rw [List.filter_cons, List.filter_cons]
    by_cases hk : x.a = e.a ∧ x.r = e.r
    · by_cases hw : 1 ≤ x.ledger ∧ e.ledger < x.ledger + e.period
      · rw [if_pos (by simp [hk, hw]), if_pos (by simp [hk])]
        simp only [List.map_cons, List.filter_cons]
        rw [if_pos (by simp [inWin1, proj, hw])]
        simp only [List.map_cons, List.sum_cons, ih]
        rfl
      · rw [if_neg (by simp only [decide_eq_true_eq]; intro hh; exact hw hh.2.2), if_pos (by simp [hk])]
        simp only [List.map_cons, List.filter_cons]
        rw [if_neg (by intro hh; exact hw (of_decide_eq_true hh))]
        exact ih
    · rw [if_neg (by simp only [decide_eq_true_eq]; intro hh; exact hk ⟨hh.1, hh.2.1⟩),
        if_neg (by simp only [decide_eq_true_eq]; exact hk)]
      exact ih

/-! ### invariant of one installation and of its ghost log -/

/-- invariant of one installation at ledger `now` (any start ledger) -/
structure DOK (now : Nat) (d : Spend.Data) : Prop where
  cached : d.cached = Spend.isum d.history
  sorted : Spend.Sorted d.history
  le_now : ∀ e ∈ d.history, e.ledger ≤ now
  bound : d.history.length ≤ Spend.MAX_HISTORY_ENTRIES
  limit_pos : 0 < d.limit
  period_pos : 0 < d.period

/-- an evicted entry never counts again: it left the window, or it was made at ledger 0 -/
def Gone (now P : Nat) (e : Spend.Entry) : Prop := e.ledger + P ≤ now ∨ e.ledger = 0

/-- stored data of a key and its ghost log `l` (newest first): the log is the history
(reversed) followed by evicted entries -/
def KOK (now : Nat) : Option Spend.Data → List Spend.Entry → Prop
  | none, l => l = []
  | some d, l => DOK now d ∧ ∃ old, l = d.history.reverse ++ old ∧ ∀ e ∈ old, Gone now d.period e

theorem DOK.mono {now now' : Nat} {d : Spend.Data} (h : DOK now d) (hn : now ≤ now') : DOK now' d :=
  ⟨h.cached, h.sorted, fun e he => Nat.le_trans (h.le_now e he) hn, h.bound, h.limit_pos, h.period_pos⟩

theorem KOK.mono {now now' : Nat} {od : Option Spend.Data} {l : List Spend.Entry} (h : KOK now od l)
    (hn : now ≤ now') : KOK now' od l := by
  cases od with
  | none => exact h
  | some d =>
    obtain ⟨h0, old, h1, h2⟩ := h
    refine ⟨h0.mono hn, old, h1, ?_⟩
    intro e he
    rcases h2 e he with h | h
    · exact .inl (Nat.le_trans h hn)
    · exact .inr h

/-- one accepted `enforce` on a key: the invariant is kept with the new spend logged, and the
logged amounts of ledger ≥ 1 inside the window of the new spend are within the limit in force -/
theorem enforce_kok {now : Nat} {d : Spend.Data} {l : List Spend.Entry} {amt : Int} {h' : List Spend.Entry} {r : Int}
    (hk : KOK now (some d) l)
    (hc : Spend.cleanup (now - d.period) d.history 0 = .ok (h', r))
    (hlim : d.cached - r + amt ≤ d.limit) (hlen : h'.length < Spend.MAX_HISTORY_ENTRIES) :
    KOK now (some { d with history := h' ++ [⟨amt, now⟩], cached := d.cached - r + amt }) (⟨amt, now⟩ :: l) ∧
    (1 ≤ now → winE (⟨amt, now⟩ :: l) now d.period ≤ d.limit) := by
  obtain ⟨pre, hp1, hp2, hp3, hp4⟩ := Spend.cleanup_spec _ _ _ _ _ hc
  obtain ⟨hd, old, ho1, ho2⟩ := hk
  have hsort := hd.sorted
  unfold Spend.Sorted at hsort
  rw [hp1, List.pairwise_append] at hsort
  obtain ⟨_, hs', _⟩ := hsort
  have hgt : ∀ e ∈ h', now - d.period < e.ledger := Spend.sorted_all_gt hs' hp4
  have hmem' : ∀ e ∈ h', e ∈ d.history := fun e he => by rw [hp1]; simp [he]
  have hpre : ∀ e ∈ pre, Gone now d.period e := by
    intro e he
    have h1 := hp3 e he
    unfold Gone
    omega
  have hcached : d.cached - r = Spend.isum h' := by
    have := hd.cached
    rw [hp1, Spend.isum_append] at this
    omega
  have hl : (⟨amt, now⟩ : Spend.Entry) :: l = [⟨amt, now⟩] ++ (h'.reverse ++ (pre.reverse ++ old)) := by
    rw [ho1, hp1]; simp [List.reverse_append]
  refine ⟨⟨⟨?_, ?_, ?_, ?_, hd.limit_pos, hd.period_pos⟩, pre.reverse ++ old, ?_, ?_⟩, ?_⟩
  · show d.cached - r + amt = Spend.isum (h' ++ [⟨amt, now⟩])
    rw [Spend.isum_append, Spend.isum_cons, Spend.isum_nil, hcached]; simp
  · show Spend.Sorted (h' ++ [⟨amt, now⟩])
    unfold Spend.Sorted
    rw [List.pairwise_append]
    refine ⟨hs', by simp, ?_⟩
    intro a ha b hb
    simp only [List.mem_singleton] at hb
    subst hb
    exact hd.le_now a (hmem' a ha)
  · intro e he
    simp only [List.mem_append, List.mem_singleton] at he
    cases he with
    | inl h => exact hd.le_now e (hmem' e h)
    | inr h => subst h; exact Nat.le_refl _
  · show (h' ++ [(⟨amt, now⟩ : Spend.Entry)]).length ≤ Spend.MAX_HISTORY_ENTRIES
    rw [List.length_append]; simp; omega
  · show (⟨amt, now⟩ : Spend.Entry) :: l = (h' ++ [(⟨amt, now⟩ : Spend.Entry)]).reverse ++ (pre.reverse ++ old)
    rw [hl]; simp [List.reverse_append]
  · intro e he
    simp only [List.mem_append, List.mem_reverse] at he
    cases he with
    | inl h => exact hpre e h
    | inr h => exact ho2 e h
  · intro hnow
    rw [hl, winE_append, winE_append, winE_append]
    have hper := hd.period_pos
    have w1 : winE [(⟨amt, now⟩ : Spend.Entry)] now d.period = amt := by
      rw [winE_all _ _ _ (by
        intro e he; simp only [List.mem_singleton] at he; subst he
        exact ⟨hnow, by show now < now + d.period; omega⟩)]
      rw [Spend.isum_cons, Spend.isum_nil]; simp
    have w2 : winE h'.reverse now d.period = Spend.isum h' := by
      rw [winE_all _ _ _ (by intro e he; have := hgt e (List.mem_reverse.mp he); omega), Spend.isum_reverse]
    have w3 : winE pre.reverse now d.period = 0 :=
      winE_none _ _ _ (fun e he => hpre e (List.mem_reverse.mp he))
    have w4 : winE old now d.period = 0 := winE_none _ _ _ ho2
    rw [w1, w2, w3, w4]
    omega

/-! ### the spending policy with the monitor's log -/

def SInv (l : Spend.State) (log : List Spent) : Prop := ∀ a r, KOK l.now (l.store a r) (logOf log a r)

theorem sinv_install {l l' : Spend.State} {log : List Spent} {auth : List Nat} {lim : Int} {per : Nat}
    {rule : Rule} {acct : Nat} (hi : SInv l log) (h : Spend.install l auth lim per rule acct = .ok l') :
    SInv l' log ∧ l'.now = l.now := by
  obtain ⟨_, hl, hp, hnone, rfl⟩ := Spend.install_ok h
  refine ⟨?_, rfl⟩
  intro a r
  show KOK l.now (upd2 l.store acct rule.id _ a r) _
  by_cases hk : a = acct ∧ r = rule.id
  · obtain ⟨rfl, rfl⟩ := hk
    rw [upd2_same]
    have := hi a rule.id
    rw [hnone] at this
    have hnil : logOf log a rule.id = [] := this
    rw [hnil]
    exact ⟨⟨rfl, List.Pairwise.nil, by simp, by simp [Spend.MAX_HISTORY_ENTRIES], hl, hp⟩, [], rfl, by simp⟩
  · rw [upd2_other _ _ _ _ _ _ hk]; exact hi a r

theorem sinv_setLimit {l l' : Spend.State} {log : List Spent} {auth : List Nat} {lim : Int}
    {rule : Rule} {acct : Nat} (hi : SInv l log) (h : Spend.setSpendingLimit l auth lim rule acct = .ok l') :
    SInv l' log ∧ l'.now = l.now := by
  obtain ⟨_, hl, d, hd, rfl⟩ := Spend.setLimit_ok h
  refine ⟨?_, rfl⟩
  intro a r
  show KOK l.now (upd2 l.store acct rule.id _ a r) _
  by_cases hk : a = acct ∧ r = rule.id
  · obtain ⟨rfl, rfl⟩ := hk
    rw [upd2_same]
    have := hi a rule.id
    rw [hd] at this
    obtain ⟨h0, old, h1, h2⟩ := this
    exact ⟨⟨h0.cached, h0.sorted, h0.le_now, h0.bound, hl, h0.period_pos⟩, old, h1, h2⟩
  · rw [upd2_other _ _ _ _ _ _ hk]; exact hi a r

theorem sinv_uninstall {l l' : Spend.State} {log : List Spent} {auth : List Nat}
    {rule : Rule} {acct : Nat} (hi : SInv l log) (h : Spend.uninstall l auth rule acct = .ok l') :
    SInv l' (log.filter (fun e => ¬ (e.a = acct ∧ e.r = rule.id))) ∧ l'.now = l.now := by
  obtain ⟨_, rfl⟩ := Spend.uninstall_ok h
  refine ⟨?_, rfl⟩
  intro a r
  show KOK l.now (upd2 l.store acct rule.id _ a r) _
  by_cases hk : a = acct ∧ r = rule.id
  · obtain ⟨rfl, rfl⟩ := hk
    rw [upd2_same, logOf_forget_same]
    rfl
  · rw [upd2_other _ _ _ _ _ _ hk, logOf_forget_other _ _ _ _ _ hk]; exact hi a r

theorem sinv_enforce {l l' : Spend.State} {log : List Spent} {auth : List Nat} {ctx : Ctx} {sg : List Nat}
    {rule : Rule} {acct : Nat} (hi : SInv l log) (h : Spend.enforce l auth ctx sg rule acct = .ok l') :
    ∃ d amt, l.store acct rule.id = some d ∧ ctx = .transfer amt ∧ l'.now = l.now ∧
      SInv l' (⟨acct, rule.id, amt, l.now, d.limit, d.period⟩ :: log) ∧
      (1 ≤ l.now → winE (logOf (⟨acct, rule.id, amt, l.now, d.limit, d.period⟩ :: log) acct rule.id) l.now d.period
        ≤ d.limit) := by
  obtain ⟨_, d, amt, h', rr, hd, rfl, hc, _, hlim, hlen, rfl⟩ := Spend.enforce_ok h
  have hkey := enforce_kok (by have := hi acct rule.id; rw [hd] at this; exact this) hc hlim hlen
  refine ⟨d, amt, hd, rfl, rfl, ?_, ?_⟩
  · intro a r
    show KOK l.now (upd2 l.store acct rule.id _ a r) _
    by_cases hk : a = acct ∧ r = rule.id
    · obtain ⟨rfl, rfl⟩ := hk
      rw [upd2_same]
      have := logOf_cons_same ⟨a, rule.id, amt, l.now, d.limit, d.period⟩ log
      rw [this]
      exact hkey.1
    · rw [upd2_other _ _ _ _ _ _ hk, logOf_cons_other _ _ _ _ hk]; exact hi a r
  · intro hnow
    have := logOf_cons_same ⟨acct, rule.id, amt, l.now, d.limit, d.period⟩ log
    rw [this]
    exact hkey.2 hnow

theorem sinv_advance {l : Spend.State} {log : List Spent} (hi : SInv l log) (k : Nat) :
    SInv { l with now := l.now + k } log :=
  fun a r => (hi a r).mono (Nat.le_add_right _ _)

/-! ### the whole model state -/

/-- what every reachable model state satisfies together with the monitor's ghost log -/
structure Inv (m : M) (log : List Spent) : Prop where
  simple : ∀ a r t, m.s.thr a r = some t → 1 ≤ t
  weighted : Weighted.Inv m.w
  spend : SInv m.l log

theorem init_inv (start : Nat) : Inv (M.init start) [] :=
  ⟨fun a r t h => (by cases h), Weighted.init_inv, fun a r => rfl⟩

theorem advance_inv {m : M} {log : List Spent} (hi : Inv m log) (k : Nat) : Inv (advance m k) log :=
  ⟨hi.simple, hi.weighted, sinv_advance hi.spend k⟩

/-- well-formed call line: the key lies in the observed universe, and the three readings of the
context word agree (`t:<amt>` / `x:<amt>` announce a transfer of `<amt>`, nothing else does) -/
structure Valid (p : POp) : Prop where
  a_lt : p.a < NA
  r_lt : p.r < NR
  transfer_iff : p.isTransfer = true ↔ ∃ amt, p.ctx = .transfer amt
  amount_eq : ∀ amt, p.ctx = .transfer amt → p.amount = amt

theorem liftS_ok {m m' : M} {r : Except Err Simple.State} (h : liftS m r = .ok m') :
    ∃ s', r = .ok s' ∧ m' = { m with s := s' } := by
  unfold liftS at h
  split at h
  · injection h with h; exact ⟨_, rfl, h.symm⟩
  · cases h

theorem liftW_ok {m m' : M} {r : Except Err Weighted.State} (h : liftW m r = .ok m') :
    ∃ s', r = .ok s' ∧ m' = { m with w := s' } := by
  unfold liftW at h
  split at h
  · injection h with h; exact ⟨_, rfl, h.symm⟩
  · cases h

theorem liftL_ok {m m' : M} {r : Except Err Spend.State} (h : liftL m r = .ok m') :
    ∃ s', r = .ok s' ∧ m' = { m with l := s' } := by
  unfold liftL at h
  split at h
  · injection h with h; exact ⟨_, rfl, h.symm⟩
  · cases h

/-- **only with the account's own authorization** -/
theorem applyM_auth {m m' : M} {p : POp} (hc : p.kind.isCan = false) (h : applyM m p = .ok m') : p.a ∈ p.auth := by
  apply Classical.byContradiction
  intro hn
  unfold applyM at h
  cases hk : p.kind <;> rw [hk] at h hc <;> simp only [Kind.isCan] at hc <;> try cases hc
  · obtain ⟨_, h, _⟩ := liftS_ok h
    have := Simple.simple_needs_account_auth m.s p.auth (.install p.a (rule p) p.thr) hn
    simp only [Simple.apply] at this
    rw [h] at this; cases this
  · obtain ⟨_, h, _⟩ := liftS_ok h
    have := Simple.simple_needs_account_auth m.s p.auth (.setThreshold p.a (rule p) p.thr) hn
    simp only [Simple.apply] at this
    rw [h] at this; cases this
  · obtain ⟨_, h, _⟩ := liftS_ok h
    have := Simple.simple_needs_account_auth m.s p.auth (.uninstall p.a (rule p)) hn
    simp only [Simple.apply] at this
    rw [h] at this; cases this
  · obtain ⟨_, h, _⟩ := liftS_ok h
    have := Simple.simple_needs_account_auth m.s p.auth (.enforce p.a (rule p) p.ctx p.sg) hn
    simp only [Simple.apply] at this
    rw [h] at this; cases this
  · obtain ⟨_, h, _⟩ := liftW_ok h
    have := Weighted.weighted_needs_account_auth m.w p.auth (.install p.a (rule p) p.w p.thr) hn
    simp only [Weighted.apply] at this
    rw [h] at this; cases this
  · obtain ⟨_, h, _⟩ := liftW_ok h
    have := Weighted.weighted_needs_account_auth m.w p.auth (.setThreshold p.a (rule p) p.thr) hn
    simp only [Weighted.apply] at this
    rw [h] at this; cases this
  · obtain ⟨_, h, _⟩ := liftW_ok h
    have := Weighted.weighted_needs_account_auth m.w p.auth (.setSignerWeight p.a (rule p) p.sgn p.wt) hn
    simp only [Weighted.apply] at this
    rw [h] at this; cases this
  · obtain ⟨_, h, _⟩ := liftW_ok h
    have := Weighted.weighted_needs_account_auth m.w p.auth (.uninstall p.a (rule p)) hn
    simp only [Weighted.apply] at this
    rw [h] at this; cases this
  · obtain ⟨_, h, _⟩ := liftW_ok h
    have := Weighted.weighted_needs_account_auth m.w p.auth (.enforce p.a (rule p) p.ctx p.sg) hn
    simp only [Weighted.apply] at this
    rw [h] at this; cases this
  · obtain ⟨_, h, _⟩ := liftL_ok h
    rw [(Spend.spend_needs_account_auth m.l p.auth p.a (rule p) hn).2.1] at h; cases h
  · obtain ⟨_, h, _⟩ := liftL_ok h
    rw [(Spend.spend_needs_account_auth m.l p.auth p.a (rule p) hn).2.2.1] at h; cases h
  · obtain ⟨_, h, _⟩ := liftL_ok h
    rw [(Spend.spend_needs_account_auth m.l p.auth p.a (rule p) hn).2.2.2] at h; cases h
  · obtain ⟨_, h, _⟩ := liftL_ok h
    rw [(Spend.spend_needs_account_auth m.l p.auth p.a (rule p) hn).1] at h; cases h

/-- the previous configuration of the key of a call, as the monitor reads it from the model's
previous observation -/
def lCfgM (m : M) (p : POp) : Option LObs := (m.l.store p.a p.r).map (toL (p.a, p.r))

theorem entryOf_none {ok : Bool} {p : POp} {now : Nat} {c : Option LObs} (h : p.kind ≠ .lEnforce) :
    entryOf ok p now c = none := by
  unfold entryOf; rw [if_neg (fun hh => h hh.2)]

theorem log2Of_id {ok : Bool} {p : POp} (lg : List Spent) (h : p.kind ≠ .lUninstall) : log2Of ok p lg = lg := by
  unfold log2Of; rw [if_neg (fun hh => h hh.2)]

theorem inv_simple {m : M} {log : List Spent} {auth : List Nat} {op : Simple.Op} {s' : Simple.State}
    (hi : Inv m log) (h : Simple.apply m.s auth op = .ok s') : Inv { m with s := s' } log :=
  ⟨Simple.simple_apply_pos hi.simple auth op h, hi.weighted, hi.spend⟩

theorem inv_weighted {m : M} {log : List Spent} {auth : List Nat} {op : Weighted.Op} {s' : Weighted.State}
    (hi : Inv m log) (h : Weighted.apply m.w auth op = .ok s') : Inv { m with w := s' } log :=
  ⟨hi.simple, Weighted.apply_inv hi.weighted auth op h, hi.spend⟩

/-- **an accepted call keeps the invariant**, with the ghost log updated as the monitor updates
it; calls do not move the ledger; and the monitor's window check on the new spend is silent -/
theorem applyM_inv {m m' : M} {log : List Spent} {p : POp} (hi : Inv m log) (hv : Valid p)
    (hc : p.kind.isCan = false) (h : applyM m p = .ok m') :
    m'.l.now = m.l.now ∧
    Inv m' (log2Of true p (log1Of (entryOf true p m.l.now (lCfgM m p)) log)) ∧
    chkWindow (entryOf true p m.l.now (lCfgM m p)) (log2Of true p (log1Of (entryOf true p m.l.now (lCfgM m p)) log))
      = none := by
  unfold applyM at h
  cases hk : p.kind <;> rw [hk] at h hc <;> simp only [Kind.isCan] at hc <;> try cases hc
  all_goals dsimp only at h
  · obtain ⟨s', hs, rfl⟩ := liftS_ok h
    rw [entryOf_none (by rw [hk]; decide), log2Of_id _ (by rw [hk]; decide)]
    exact ⟨rfl, inv_simple (op := .install p.a (rule p) p.thr) hi hs, rfl⟩
  · obtain ⟨s', hs, rfl⟩ := liftS_ok h
    rw [entryOf_none (by rw [hk]; decide), log2Of_id _ (by rw [hk]; decide)]
    exact ⟨rfl, inv_simple (op := .setThreshold p.a (rule p) p.thr) hi hs, rfl⟩
  · obtain ⟨s', hs, rfl⟩ := liftS_ok h
    rw [entryOf_none (by rw [hk]; decide), log2Of_id _ (by rw [hk]; decide)]
    exact ⟨rfl, inv_simple (op := .uninstall p.a (rule p)) hi hs, rfl⟩
  · obtain ⟨s', hs, rfl⟩ := liftS_ok h
    rw [entryOf_none (by rw [hk]; decide), log2Of_id _ (by rw [hk]; decide)]
    exact ⟨rfl, inv_simple (op := .enforce p.a (rule p) p.ctx p.sg) hi hs, rfl⟩
  · obtain ⟨s', hs, rfl⟩ := liftW_ok h
    rw [entryOf_none (by rw [hk]; decide), log2Of_id _ (by rw [hk]; decide)]
    exact ⟨rfl, inv_weighted (op := .install p.a (rule p) p.w p.thr) hi hs, rfl⟩
  · obtain ⟨s', hs, rfl⟩ := liftW_ok h
    rw [entryOf_none (by rw [hk]; decide), log2Of_id _ (by rw [hk]; decide)]
    exact ⟨rfl, inv_weighted (op := .setThreshold p.a (rule p) p.thr) hi hs, rfl⟩
  · obtain ⟨s', hs, rfl⟩ := liftW_ok h
    rw [entryOf_none (by rw [hk]; decide), log2Of_id _ (by rw [hk]; decide)]
    exact ⟨rfl, inv_weighted (op := .setSignerWeight p.a (rule p) p.sgn p.wt) hi hs, rfl⟩
  · obtain ⟨s', hs, rfl⟩ := liftW_ok h
    rw [entryOf_none (by rw [hk]; decide), log2Of_id _ (by rw [hk]; decide)]
    exact ⟨rfl, inv_weighted (op := .uninstall p.a (rule p)) hi hs, rfl⟩
  · obtain ⟨s', hs, rfl⟩ := liftW_ok h
    rw [entryOf_none (by rw [hk]; decide), log2Of_id _ (by rw [hk]; decide)]
    exact ⟨rfl, inv_weighted (op := .enforce p.a (rule p) p.ctx p.sg) hi hs, rfl⟩
  -- spending limit: install
  · obtain ⟨s', hs, rfl⟩ := liftL_ok h
    rw [entryOf_none (by rw [hk]; decide), log2Of_id _ (by rw [hk]; decide)]
    obtain ⟨h1, h2⟩ := sinv_install hi.spend hs
    exact ⟨h2, ⟨hi.simple, hi.weighted, h1⟩, rfl⟩
  -- set_spending_limit
  · obtain ⟨s', hs, rfl⟩ := liftL_ok h
    rw [entryOf_none (by rw [hk]; decide), log2Of_id _ (by rw [hk]; decide)]
    obtain ⟨h1, h2⟩ := sinv_setLimit hi.spend hs
    exact ⟨h2, ⟨hi.simple, hi.weighted, h1⟩, rfl⟩
  -- uninstall
  · obtain ⟨s', hs, rfl⟩ := liftL_ok h
    have e2 : ∀ lg, log2Of true p lg = lg.filter (fun e => ¬ (e.a = p.a ∧ e.r = p.r)) := by
      intro lg; unfold log2Of; rw [if_pos ⟨rfl, hk⟩]
    rw [entryOf_none (by rw [hk]; decide), e2]
    obtain ⟨h1, h2⟩ := sinv_uninstall hi.spend hs
    exact ⟨h2, ⟨hi.simple, hi.weighted, h1⟩, rfl⟩
  -- enforce
  · obtain ⟨s', hs, rfl⟩ := liftL_ok h
    obtain ⟨d, amt, hd, hctx, hnow, h1, h2⟩ := sinv_enforce hi.spend hs
    have hamt : p.amount = amt := hv.amount_eq amt hctx
    have hd' : m.l.store p.a p.r = some d := hd
    have e1 : entryOf true p m.l.now (lCfgM m p) = some ⟨p.a, p.r, amt, m.l.now, d.limit, d.period⟩ := by
      unfold entryOf lCfgM; rw [if_pos ⟨rfl, hk⟩, hd', hamt]; rfl
    rw [e1, log2Of_id _ (by rw [hk]; decide)]
    refine ⟨hnow, ⟨hi.simple, hi.weighted, h1⟩, ?_⟩
    unfold chkWindow
    simp only [log1Of]
    refine if_neg ?_
    rintro ⟨hge, hgt⟩
    rw [windowSum_eq] at hgt
    exact absurd hgt (Int.not_lt.mpr (h2 hge))

end OZ.Policies.Mon
