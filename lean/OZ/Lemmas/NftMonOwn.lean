import OZ.Lemmas.NftMon
/-
Helper lemmas for the soundness of the C10 monitor (`OZ.NftMon.Own`, OZ/Model/NftMon.lean):
the relation `Live` between the monitor's plain map / counters and a model state, its preservation
by every accepted call (`track_accepted`), and the silence of the observation checks
(`answers_none`). The theorems are in OZ/Props/C10Mon.lean.
-/
namespace OZ.NftMon.Own
open OZ.Host OZ.Nft OZ.NftMon

/-- monitor state and model state describe the same point of a history (while the monitor judges):
`spec` is the plain ownership map of the model state and the monitor's plain map; the monitor's
balances are the stored balances of the observed universe; every id a counter issued is below the
model's counter; in the consecutive flavour the point overrides lie below the id counter; in the
enumerable flavour the lists are well-formed and `live` is `total_supply` -/
structure Live (m : Mon) (ms : MState) (spec : Nat → Option Nat) : Prop where
  good : Good ms spec
  owner : ∀ id, ghostOwner m id = spec id
  bal : m.bal = (List.range N).map ms.core.bal
  next : m.next ≤ ms.core.nextId
  over : ms.isCons = true → ∀ p ∈ m.over, p.1 < ms.core.nextId
  enumOK : EnumOK ms
  live : ms.isEnum = true → m.live = ms.total
  flav : m.flavour = "enum" → ms.isEnum = true

theorem isEnum_of_isCons {ms : MState} (h : ms.isCons = true) : ms.isEnum = false := by
  cases ms <;> first | rfl | cases h

theorem addBal_one (bal : Nat → Nat) (i : Nat) :
    addBal ((List.range N).map bal) i 1 = (List.range N).map (upd bal i (bal i + 1)) := by
  have := addBal_inc N bal i 1
  simpa using this

theorem mem_setOver {ov : List (Nat × Option Nat)} {id : Nat} {o : Option Nat} {p : Nat × Option Nat}
    (h : p ∈ setOver ov id o) : p = (id, o) ∨ p ∈ ov := by
  unfold setOver at h
  rcases List.mem_cons.mp h with e | h
  · exact Or.inl e
  · exact Or.inr (List.mem_filter.mp h).1

theorem ghostOwner_setOwner (m : Mon) (id : Nat) (o : Option Nat) {spec : Nat → Option Nat}
    (h : ∀ x, ghostOwner m x = spec x) (x : Nat) :
    plainOwner m.batches (setOver m.over id o) x = upd spec id o x := by
  rw [plainOwner_setOver, ← funext h]; rfl

/-- **an accepted call**: the monitor's tracking step either stops judging (a mint hit an owned id:
the fresh-id hypothesis failed) or raises nothing and keeps `Live` -/
theorem track_accepted {cfg : Cfg} {m : Mon} {ms ms' : MState} {spec : Nat → Option Nat} {l : Line} {op : Op}
    {r : Option Nat} (ha : Live m ms spec) (hl : l.op = some op)
    (h : ms.apply cfg l.auth op = .ok (ms', r)) (o : Obs) (hok : o.ok = true) (hret : o.ret = r) :
    (track m l o).1.flavour = m.flavour ∧
    ((track m l o).1.disabled = true ∨
     ((track m l o).2 = none ∧ Live (track m l o).1 ms' (mspecStep spec ms.core.nextId op r))) := by
  have hf := mstate_step cfg ha.good h
  have hd := Line.op_inv hl
  have htr : track m l o = trackAccepted m l o := by
    unfold track; rw [if_neg (by simp [hok])]
  rw [htr]
  have hgood := hf.good
  have hcore := hf.core
  have hflav : ∀ m' : Mon, m'.flavour = m.flavour → m'.flavour = "enum" → ms'.isEnum = true := by
    intro m' e1 e2; rw [hf.enum]; exact ha.flav (by rw [← e1]; exact e2)
  cases op with
  | mintSeq to =>
    obtain ⟨hk, ha'⟩ := hd
    obtain ⟨hr, hnx, hc⟩ := hf.seq to rfl
    have harg : l.arg 0 = to := by simp [Line.arg, ha']
    obtain ⟨hbal, _, _, _⟩ : MintStep ms.core ms'.core to 1 := hcore
    have e0 : trackAccepted m l o = trackMint m l o := by unfold trackAccepted; rw [hk]
    rw [e0]
    unfold trackMint
    rw [hret, hr]
    simp only
    rw [if_neg (by have := ha.next; omega)]
    by_cases hown : (ghostOwner m ms.core.nextId).isSome = true
    · rw [if_pos hown]; exact ⟨rfl, Or.inl rfl⟩
    · rw [if_neg hown, harg]
      refine ⟨rfl, Or.inr ⟨rfl, ?_⟩⟩
      have hfresh : spec ms.core.nextId = none := by
        rw [← ha.owner]; simpa using hown
      obtain ⟨he, hlive⟩ := mstate_enum_step cfg ha.good ha.enumOK h (fun _ _ => hfresh)
        (fun _ _ e => by cases e)
      subst hr
      refine ⟨hgood, ghostOwner_setOwner m _ _ ha.owner, ?_, ?_, ?_, he, ?_, hflav _ rfl⟩
      · show addBal m.bal to 1 = _
        rw [ha.bal, addBal_one, hbal]
      · show ms.core.nextId + 1 ≤ _; omega
      · intro hcc; rw [hf.cons, hc] at hcc; cases hcc
      · intro hen
        rw [hf.enum] at hen
        show m.live + 1 = _
        rw [hlive hen, ha.live hen]; rfl
  | mint to id =>
    obtain ⟨hk, ha', hid⟩ := hd
    have hc := hf.expl to id rfl
    have harg : l.arg 0 = to := by simp [Line.arg, ha']
    obtain ⟨hbal, _, _, _⟩ : MintStep ms.core ms'.core to 1 := hcore
    have hnx := hf.other (fun _ e => by cases e) (fun _ _ e => by cases e)
    have e0 : trackAccepted m l o = trackMintId m l := by unfold trackAccepted; rw [hk]
    rw [e0]
    unfold trackMintId
    rw [hid]
    by_cases hown : (ghostOwner m id).isSome = true
    · rw [if_pos hown]; exact ⟨rfl, Or.inl rfl⟩
    · rw [if_neg hown, harg]
      refine ⟨rfl, Or.inr ⟨rfl, ?_⟩⟩
      have hfresh : spec id = none := by
        rw [← ha.owner]; simpa using hown
      obtain ⟨he, hlive⟩ := mstate_enum_step cfg ha.good ha.enumOK h (fun _ e => by cases e)
        (fun _ _ e => by injection e with _ e; subst e; exact hfresh)
      refine ⟨hgood, ghostOwner_setOwner m _ _ ha.owner, ?_, ?_, ?_, he, ?_, hflav _ rfl⟩
      · show addBal m.bal to 1 = _
        rw [ha.bal, addBal_one, hbal]
      · show m.next ≤ _; rw [hnx]; exact ha.next
      · intro hcc; rw [hf.cons, hc] at hcc; cases hcc
      · intro hen
        rw [hf.enum] at hen
        show m.live + 1 = _
        rw [hlive hen, ha.live hen]; rfl
  | batchMint to n =>
    obtain ⟨hk, ha', hn⟩ := hd
    obtain ⟨h1, hr, hnx, hc⟩ := hf.batch to n rfl
    have harg : l.arg 0 = to := by simp [Line.arg, ha']
    obtain ⟨hbal, _, _, _⟩ : MintStep ms.core ms'.core to n := hcore
    have e0 : trackAccepted m l o = trackBatch m l o := by unfold trackAccepted; rw [hk]
    rw [e0]
    unfold trackBatch
    rw [hret, hr, hn]
    simp only
    have hfirst : ms.core.nextId + n - 1 + 1 - n = ms.core.nextId := by omega
    rw [if_neg (by omega), if_neg (by have := ha.next; omega), harg]
    refine ⟨rfl, Or.inr ⟨rfl, ?_⟩⟩
    obtain ⟨he, _⟩ := mstate_enum_step cfg ha.good ha.enumOK h (fun _ e => by cases e) (fun _ _ e => by cases e)
    refine ⟨hgood, ?_, ?_, ?_, ?_, he, ?_, hflav _ rfl⟩
    · intro x
      show plainOwner ((ms.core.nextId + n - 1 + 1 - n, ms.core.nextId + n - 1, to) :: m.batches) m.over x = _
      rw [plainOwner_batch]
      · rw [hfirst]
        show _ = if ms.core.nextId ≤ x ∧ x < ms.core.nextId + n then some to else spec x
        by_cases hx : ms.core.nextId ≤ x ∧ x < ms.core.nextId + n
        · rw [if_pos hx, if_pos (by omega)]
        · rw [if_neg hx, if_neg (by omega)]; exact ha.owner x
      · intro p hp hin
        have := ha.over hc p hp
        omega
    · show addBal m.bal to (n : Int) = _
      rw [ha.bal, addBal_inc, hbal]
    · show ms.core.nextId + n - 1 + 1 ≤ _; omega
    · intro _ p hp
      have := ha.over hc p hp
      rw [hnx]; omega
    · intro hen
      rw [hf.enum, isEnum_of_isCons hc] at hen; cases hen
  | transfer f t id =>
    obtain ⟨hk, ha', hid⟩ := hd
    obtain ⟨hs, _, hlt⟩ := hf.moves f id rfl
    have h0 : l.arg 0 = f := by simp [Line.arg, ha']
    have h1 : l.arg 1 = t := by simp [Line.arg, ha']
    obtain ⟨hbal, _, _, _⟩ : MoveStep ms.core ms'.core f (some t) id := hcore
    have hnx := hf.other (fun _ e => by cases e) (fun _ _ e => by cases e)
    have e0 : trackAccepted m l o = trackMove m l f t := by unfold trackAccepted; rw [hk]; simp only; rw [h0, h1]
    rw [e0]
    unfold trackMove
    rw [hid, if_neg (by rw [ha.owner, hs]; simp)]
    refine ⟨rfl, Or.inr ⟨rfl, ?_⟩⟩
    obtain ⟨he, hlive⟩ := mstate_enum_step cfg ha.good ha.enumOK h (fun _ e => by cases e) (fun _ _ e => by cases e)
    refine ⟨hgood, ghostOwner_setOwner m _ _ ha.owner, ?_, ?_, ?_, he, ?_, hflav _ rfl⟩
    · show addBal (addBal m.bal f (-1)) t 1 = _
      rw [ha.bal, addBal_dec, addBal_one, hbal]; rfl
    · show m.next ≤ _; rw [hnx]; exact ha.next
    · intro hcc p hp
      rw [hf.cons] at hcc; rw [hnx]
      rcases mem_setOver hp with e | hp
      · subst e; exact hlt hcc
      · exact ha.over hcc p hp
    · intro hen
      rw [hf.enum] at hen
      show m.live = _
      rw [hlive hen, ha.live hen]; rfl
  | transferFrom sp f t id =>
    obtain ⟨hk, ha', hid⟩ := hd
    obtain ⟨hs, _, hlt⟩ := hf.moves f id rfl
    have h1 : l.arg 1 = f := by simp [Line.arg, ha']
    have h2 : l.arg 2 = t := by simp [Line.arg, ha']
    obtain ⟨hbal, _, _, _⟩ : MoveStep ms.core ms'.core f (some t) id := hcore
    have hnx := hf.other (fun _ e => by cases e) (fun _ _ e => by cases e)
    have e0 : trackAccepted m l o = trackMove m l f t := by unfold trackAccepted; rw [hk]; simp only; rw [h1, h2]
    rw [e0]
    unfold trackMove
    rw [hid, if_neg (by rw [ha.owner, hs]; simp)]
    refine ⟨rfl, Or.inr ⟨rfl, ?_⟩⟩
    obtain ⟨he, hlive⟩ := mstate_enum_step cfg ha.good ha.enumOK h (fun _ e => by cases e) (fun _ _ e => by cases e)
    refine ⟨hgood, ghostOwner_setOwner m _ _ ha.owner, ?_, ?_, ?_, he, ?_, hflav _ rfl⟩
    · show addBal (addBal m.bal f (-1)) t 1 = _
      rw [ha.bal, addBal_dec, addBal_one, hbal]; rfl
    · show m.next ≤ _; rw [hnx]; exact ha.next
    · intro hcc p hp
      rw [hf.cons] at hcc; rw [hnx]
      rcases mem_setOver hp with e | hp
      · subst e; exact hlt hcc
      · exact ha.over hcc p hp
    · intro hen
      rw [hf.enum] at hen
      show m.live = _
      rw [hlive hen, ha.live hen]; rfl
  | burn f id =>
    obtain ⟨hk, ha', hid⟩ := hd
    obtain ⟨hs, _, hlt⟩ := hf.moves f id rfl
    have h0 : l.arg 0 = f := by simp [Line.arg, ha']
    obtain ⟨hbal, _, _, _⟩ : MoveStep ms.core ms'.core f none id := hcore
    have hnx := hf.other (fun _ e => by cases e) (fun _ _ e => by cases e)
    have e0 : trackAccepted m l o = trackBurn m l f := by unfold trackAccepted; rw [hk]; simp only; rw [h0]
    rw [e0]
    unfold trackBurn
    rw [hid, if_neg (by rw [ha.owner, hs]; simp)]
    refine ⟨rfl, Or.inr ⟨rfl, ?_⟩⟩
    obtain ⟨he, hlive⟩ := mstate_enum_step cfg ha.good ha.enumOK h (fun _ e => by cases e) (fun _ _ e => by cases e)
    refine ⟨hgood, ghostOwner_setOwner m _ _ ha.owner, ?_, ?_, ?_, he, ?_, hflav _ rfl⟩
    · show addBal m.bal f (-1) = _
      rw [ha.bal, addBal_dec, hbal]; rfl
    · show m.next ≤ _; rw [hnx]; exact ha.next
    · intro hcc p hp
      rw [hf.cons] at hcc; rw [hnx]
      rcases mem_setOver hp with e | hp
      · subst e; exact hlt hcc
      · exact ha.over hcc p hp
    · intro hen
      rw [hf.enum] at hen
      show m.live - 1 = _
      rw [hlive hen, ha.live hen]; rfl
  | burnFrom sp f id =>
    obtain ⟨hk, ha', hid⟩ := hd
    obtain ⟨hs, _, hlt⟩ := hf.moves f id rfl
    have h1 : l.arg 1 = f := by simp [Line.arg, ha']
    obtain ⟨hbal, _, _, _⟩ : MoveStep ms.core ms'.core f none id := hcore
    have hnx := hf.other (fun _ e => by cases e) (fun _ _ e => by cases e)
    have e0 : trackAccepted m l o = trackBurn m l f := by unfold trackAccepted; rw [hk]; simp only; rw [h1]
    rw [e0]
    unfold trackBurn
    rw [hid, if_neg (by rw [ha.owner, hs]; simp)]
    refine ⟨rfl, Or.inr ⟨rfl, ?_⟩⟩
    obtain ⟨he, hlive⟩ := mstate_enum_step cfg ha.good ha.enumOK h (fun _ e => by cases e) (fun _ _ e => by cases e)
    refine ⟨hgood, ghostOwner_setOwner m _ _ ha.owner, ?_, ?_, ?_, he, ?_, hflav _ rfl⟩
    · show addBal m.bal f (-1) = _
      rw [ha.bal, addBal_dec, hbal]; rfl
    · show m.next ≤ _; rw [hnx]; exact ha.next
    · intro hcc p hp
      rw [hf.cons] at hcc; rw [hnx]
      rcases mem_setOver hp with e | hp
      · subst e; exact hlt hcc
      · exact ha.over hcc p hp
    · intro hen
      rw [hf.enum] at hen
      show m.live - 1 = _
      rw [hlive hen, ha.live hen]; rfl
  | approve ap a id lu =>
    obtain ⟨hk, _⟩ := hd
    obtain ⟨ow', _, hc⟩ : ∃ o, spec id = some o ∧ approveForOwner cfg ms.core o ap a id lu = .ok ms'.core := hcore
    have hbal : ms'.core.bal = ms.core.bal := (approveForOwner_ok hc).2.2.1
    have hnx := hf.other (fun _ e => by cases e) (fun _ _ e => by cases e)
    have e0 : trackAccepted m l o = (m, none) := by unfold trackAccepted; rw [hk]
    rw [e0]
    refine ⟨rfl, Or.inr ⟨rfl, ?_⟩⟩
    obtain ⟨he, hlive⟩ := mstate_enum_step cfg ha.good ha.enumOK h (fun _ e => by cases e) (fun _ _ e => by cases e)
    refine ⟨hgood, ha.owner, by rw [hbal]; exact ha.bal, by rw [hnx]; exact ha.next, ?_, he, ?_, hflav _ rfl⟩
    · intro hcc p hp; rw [hf.cons] at hcc; rw [hnx]; exact ha.over hcc p hp
    · intro hen; rw [hf.enum] at hen; rw [hlive hen, ha.live hen]; rfl
  | approveForAll ow p lu =>
    obtain ⟨hk, _⟩ := hd
    have hc : approveForAll cfg ms.core l.auth ow p lu = .ok ms'.core := hcore
    have hbal : ms'.core.bal = ms.core.bal := (approveForAll_ok hc).2.2.1
    have hnx := hf.other (fun _ e => by cases e) (fun _ _ e => by cases e)
    have e0 : trackAccepted m l o = (m, none) := by unfold trackAccepted; rw [hk]
    rw [e0]
    refine ⟨rfl, Or.inr ⟨rfl, ?_⟩⟩
    obtain ⟨he, hlive⟩ := mstate_enum_step cfg ha.good ha.enumOK h (fun _ e => by cases e) (fun _ _ e => by cases e)
    refine ⟨hgood, ha.owner, by rw [hbal]; exact ha.bal, by rw [hnx]; exact ha.next, ?_, he, ?_, hflav _ rfl⟩
    · intro hcc q hq; rw [hf.cons] at hcc; rw [hnx]; exact ha.over hcc q hq
    · intro hen; rw [hf.enum] at hen; rw [hlive hen, ha.live hen]; rfl
  | advance n =>
    obtain ⟨hk, _⟩ := hd
    have hc : ms'.core = ms.core.advance n := hcore
    have hnx := hf.other (fun _ e => by cases e) (fun _ _ e => by cases e)
    have e0 : trackAccepted m l o = ({ m with gap := m.gap || decide (l.n ≥ 17280) }, none) := by
      unfold trackAccepted; rw [hk]
    rw [e0]
    refine ⟨rfl, Or.inr ⟨rfl, ?_⟩⟩
    obtain ⟨he, hlive⟩ := mstate_enum_step cfg ha.good ha.enumOK h (fun _ e => by cases e) (fun _ _ e => by cases e)
    refine ⟨hgood, ha.owner, by rw [hc]; exact ha.bal, by rw [hnx]; exact ha.next, ?_, he, ?_, hflav _ rfl⟩
    · intro hcc q hq; rw [hf.cons] at hcc; rw [hnx]; exact ha.over hcc q hq
    · intro hen; rw [hf.enum] at hen
      show m.live = _
      rw [hlive hen, ha.live hen]; rfl


theorem Good.enum_inv {e : NftEnum.State} {spec : Nat → Option Nat} (h : Good (.enum e) spec) : spec = e.owner := by
  cases h; rfl

theorem toOption_getTokenId (e : NftEnum.State) (i : Nat) : (NftEnum.getTokenId e i).toOption = e.gTok i := by
  unfold NftEnum.getTokenId; cases e.gTok i <;> rfl

theorem toOption_getOwnerTokenId (e : NftEnum.State) (a i : Nat) :
    (NftEnum.getOwnerTokenId e a i).toOption = e.oTok a i := by
  unfold NftEnum.getOwnerTokenId; cases e.oTok a i <;> rfl

/-- the probe flag the monitor derives from the op line is the one the model side used -/
theorem probe_flag {l : Line} {op : Op} (hl : l.op = some op) (acc : Nat) :
    (probeOf op l.a).contains acc = decide (l.kind ≠ .advance ∧ l.a.contains acc = true) := by
  have hd := Line.op_inv hl
  cases op <;> simp_all [Line.Denotes, probeOf]

theorem vUri_none {m : Mon} {ms : MState} {spec : Nat → Option Nat} (ha : Live m ms spec) (l : Line) (o : Obs)
    (huri : o.uri = l.qa.filter ms.uri) : vUri m l o = none := by
  unfold vUri
  rw [if_neg]
  rw [Bool.not_eq_true, List.any_eq_false]
  intro id hid
  have h1 : o.uri.contains id = ms.uri id := by
    rw [huri]
    cases hu : ms.uri id with
    | true => exact List.contains_iff_mem.mpr (List.mem_filter.mpr ⟨hid, hu⟩)
    | false =>
      cases hc : (l.qa.filter ms.uri).contains id with
      | false => rfl
      | true =>
        have := (List.mem_filter.mp (List.contains_iff_mem.mp hc)).2
        rw [hu] at this; cases this
  rw [h1, ha.good.uri, ha.owner]
  simp

theorem vEnum_none {m : Mon} {ms : MState} {spec : Nat → Option Nat} (ha : Live m ms spec)
    (hfl : m.flavour = "enum") (l : Line) (o : Obs) (probe : List Nat)
    (hprobe : ∀ acc, probe.contains acc = decide (l.kind ≠ .advance ∧ l.a.contains acc = true))
    (hts : o.ts = enumTs ms) (hgl : o.gl = enumGl ms) (hol : o.ol = enumOl probe ms) : vEnum m l o = none := by
  have hen := ha.flav hfl
  have hlive := ha.live hen
  have hok := ha.enumOK
  have hgood := ha.good
  have hbal := ha.bal
  cases ms with
  | base s => cases hen
  | cons s => cases hen
  | enum e =>
    have hspec : spec = e.owner := Good.enum_inv hgood
    have hinv : NftEnum.EInv e := hok
    have hl : m.live = e.total := hlive
    unfold vEnum
    rw [if_neg (by rw [hts, hl]; simp [enumTs])]
    have hg : checkList "global" o.gl m.live true (fun t => (ghostOwner m t).isSome) = none := by
      rw [hgl, hl]
      have : enumGl (.enum e) = (List.range (if true then e.total + 1 else e.total)).map e.gTok := by
        show (List.range (e.total + 1)).map _ = (List.range (e.total + 1)).map e.gTok
        apply List.map_congr_left; intro i _; exact toOption_getTokenId e i
      rw [this]
      apply checkList_none "global" hinv.glob true
      intro t ht
      rw [ha.owner, hspec]; exact ht
    rw [hg]
    simp only
    rw [List.findSome?_eq_none_iff]
    intro acc hacc
    have hacc := List.mem_range.mp hacc
    unfold vOwnerList
    have hb : m.bal.getD acc 0 = e.bal acc := by
      rw [hbal, List.getD_eq_getElem?_getD, List.getElem?_map, List.getElem?_range hacc]; rfl
    have hlist : o.ol.getD acc [] =
        (List.range (if decide (l.kind ≠ .advance ∧ l.a.contains acc = true) then e.bal acc + 1 else e.bal acc)).map (e.oTok acc) := by
      rw [hol]
      unfold enumOl
      rw [List.getD_eq_getElem?_getD, List.getElem?_map, List.getElem?_range hacc]
      simp only [Option.map_some, Option.getD_some]
      rw [hprobe acc]
      apply List.map_congr_left; intro i _; exact toOption_getOwnerTokenId e acc i
    rw [hb, hlist]
    apply checkList_none _ (hinv.own acc)
    intro t ht
    rw [ha.owner, hspec]; simpa using ht

/-- the observation checks are silent on a model observation whose state is `Live` with the monitor -/
theorem answers_none {m : Mon} {ms : MState} {spec : Nat → Option Nat} (ha : Live m ms spec) (l : Line)
    (ok : Bool) (ret : Option Nat) (probe dem : List Nat)
    (hprobe : ∀ acc, probe.contains acc = decide (l.kind ≠ .advance ∧ l.a.contains acc = true)) :
    answers m l (obsOf ok ret ms l probe dem) = none := by
  have hrun : ∀ r, RunOK ms.ownerOf r → RunOK (ghostOwner m) r := by
    intro r hr j h1 h2
    rw [ha.owner, ← ha.good.ownerOf]; exact hr j h1 h2
  have h1 : firstBadRun m (obsOf ok ret ms l probe dem).own = none :=
    firstBadRun_none (fun r hr => hrun r (rleRuns_ok ms.ownerOf l.q r hr))
  have h2 : firstBadRun m ((obsOf ok ret ms l probe dem).oq.map (fun (id, ow) => (id, id, ow))) = none := by
    apply firstBadRun_none
    intro r hr
    obtain ⟨p, hp, e⟩ := List.mem_map.mp hr
    obtain ⟨id, _, e'⟩ := List.mem_map.mp (show p ∈ l.qa.map (fun id => (id, ms.ownerOf id)) from hp)
    subst e'; subst e
    apply hrun
    intro j h1 h2
    have : j = id := by
      have h1 : id ≤ j := h1
      have h2 : j ≤ id := h2
      omega
    subst this; rfl
  have h3 : vBalance m (obsOf ok ret ms l probe dem) = none := by
    unfold vBalance; rw [if_neg (by rw [ha.bal]; simp [obsOf])]
  have h4 : vUri m l (obsOf ok ret ms l probe dem) = none := vUri_none ha l _ rfl
  unfold answers
  rw [h1, h2, h3, h4]
  simp only [orElse]
  split
  · rename_i hfl; exact vEnum_none ha hfl l _ probe hprobe rfl rfl rfl
  · rfl


end OZ.NftMon.Own
