import OZ.Lemmas.RwaMonPost
/-
Helper lemmas for the monitor-soundness theorem of C04, part 3: the op line of a model operation
(`lineOf`), what it means that an observation shows a model state (`Shows`), the invariants of
reachable model states the checks rely on (`Good`), and — check by check — that the monitor's
`vX` reports nothing on the model's own observation of an accepted call (`vX_ok`); the rejected
case and the assembly are in OZ/Lemmas/RwaMonSound.lean.
-/
namespace OZ.Rwa.Mon
open OZ.Host OZ.Fungible OZ.Rwa

/-! ### the op line of a model operation

What `OZ.Drv.C04.parseLine` reads from the harness's rendering of an operation
(`rwa <kind> a=<addrs> amt=<amount> lu=<lu> b=<b> auth=<signers>`, `rwa advance n=..`,
`rwa env_id a=.. b=..`, `rwa env_rec a=.. t=..`, `rwa env_mod m=.. ..`) — the same fields
`OZ.Drv.C04.parseOp` builds the model's `Op` from. `x` / `y` stand for whatever the line carries in
`amt=` / `lu=` when the operation itself does not determine them (e.g. the mux id of a `transfer`
in `lu=`): the theorems hold for every such value. -/

def kindOf : Op → Kind
  | .transfer _ _ _ => .transfer
  | .transferFrom _ _ _ _ => .transferFrom
  | .approve _ _ _ _ => .approve
  | .mint _ _ _ => .mint
  | .burn _ _ _ => .burn
  | .forcedTransfer _ _ _ _ => .forcedTransfer
  | .recover _ _ _ => .recover
  | .freezePartial _ _ _ => .freeze
  | .unfreezePartial _ _ _ => .unfreeze
  | .setAddressFrozen _ _ _ => .setFrozen
  | .pause _ => .pause
  | .unpause _ => .unpause
  | .advance _ => .other "advance"
  | .envIdOk _ _ => .other "env_id"
  | .envRecTarget _ _ => .other "env_rec"
  | .envModule _ _ _ => .other "env_mod"
  | .addModule _ _ _ => .addModule
  | .removeModule _ _ _ => .removeModule
  | .bindToken _ => .bind
  | .unbindToken _ => .unbind

/-- the `a=` field -/
def addrsOf : Op → List Nat
  | .transfer f t _ => [f, t]
  | .transferFrom sp f t _ => [sp, f, t]
  | .approve o sp _ _ => [o, sp]
  | .mint t _ op => [t, op]
  | .burn x _ op => [x, op]
  | .forcedTransfer f t _ op => [f, t, op]
  | .recover o n op => [o, n, op]
  | .freezePartial x _ op => [x, op]
  | .unfreezePartial x _ op => [x, op]
  | .setAddressFrozen x _ op => [x, op]
  | .pause op => [op]
  | .unpause op => [op]
  | .advance _ => []
  | .envIdOk a _ => [a]
  | .envRecTarget a _ => [a]
  | .envModule _ _ _ => []
  | .addModule _ m op => [m, op]
  | .removeModule _ m op => [m, op]
  | .bindToken op => [op]
  | .unbindToken op => [op]

def amtOf (x : Int) : Op → Int
  | .transfer _ _ a => a
  | .transferFrom _ _ _ a => a
  | .approve _ _ a _ => a
  | .mint _ a _ => a
  | .burn _ a _ => a
  | .forcedTransfer _ _ a _ => a
  | .freezePartial _ a _ => a
  | .unfreezePartial _ a _ => a
  | _ => x

def luOf (y : Nat) : Op → Nat
  | .approve _ _ _ lu => lu
  | .addModule h _ _ => hookIx h
  | .removeModule h _ _ => hookIx h
  | _ => y

def lineOf (op : Op) (x : Int) (y : Nat) : Line :=
  { kind := kindOf op, a := addrsOf op, amt := amtOf x op, lu := luOf y op }

/-! ### observations and model states -/

/-- the ghost registry that corresponds to a model state -/
def regOf (s : State) : List (List Nat) := (List.range 5).map (fun h => s.mods (hookOf h))

/-- the observation `p` shows the state `s` with the module scripts `cs` -/
structure Shows (p : Obs) (s : State) (cs : List Comp) : Prop where
  sup : p.sup = s.base.supply
  bal : p.bal = (List.range N).map s.base.bal
  allow : p.allow = allowList s
  paused : p.paused = s.paused
  af : p.af = (List.range N).map s.addrFrozen
  ft : p.ft = (List.range N).map s.frozen
  id : p.id = (List.range N).map s.idOk
  rct : p.rct = (List.range N).map s.recTarget
  bound : p.bound = s.bound
  mods : p.mods = regOf s
  mcfg : p.mcfg = cs

theorem shows_stateObs (s : State) (cs : List Comp) (ok : Bool) : Shows (stateObs s cs ok) s cs :=
  ⟨rfl, rfl, rfl, rfl, rfl, rfl, rfl, rfl, rfl, rfl, rfl⟩

theorem shows_obsOk (s s' : State) (r : Bool) (op : Op) (cs' : List Comp) : Shows (obsOk s s' r op cs') s' cs' :=
  ⟨rfl, rfl, rfl, rfl, rfl, rfl, rfl, rfl, rfl, rfl, rfl⟩

/-- the module scripts `cs` describe the model's module oracles: whatever a module approves (for an
amount an i128 can hold) its script approves — unscripted modules approve everything -/
def CompInv (s : State) (cs : List Comp) : Prop :=
  (∀ m f t a, a ≤ I128_MAX → s.modCanTransfer m f t a = true → (cs.getD m Comp.default).canTransfer f t a = true) ∧
  (∀ m t a, a ≤ I128_MAX → s.modCanCreate m t a = true → (cs.getD m Comp.default).canCreate t a = true)

/-- what is known of every reachable model state -/
structure Good (s : State) (cs : List Comp) : Prop where
  inv : Inv (List.range N) s.base
  frozen : FrozenInv s
  nodup : ModsNodup s
  replay : ReplayOK s
  comp : CompInv s cs
  len : cs.length = K

theorem regOf_getD (s : State) {i : Nat} (hi : i < 5) : (regOf s).getD i [] = s.mods (hookOf i) :=
  getD_map_range 5 _ [] hi

theorem regOf_getD_hookIx (s : State) (h : Hook) : (regOf s).getD (hookIx h) [] = s.mods h := by
  rw [regOf_getD s (hookIx_lt h), hookOf_hookIx]

/-! ### generic facts about single checks -/

theorem default_canTransfer (f t : Nat) (a : Int) (h : a ≤ I128_MAX) : Comp.default.canTransfer f t a = true := by
  simp [Comp.default, Comp.canTransfer, h]

theorem default_canCreate (t : Nat) (a : Int) (h : a ≤ I128_MAX) : Comp.default.canCreate t a = true := by
  simp [Comp.default, Comp.canCreate, h]

theorem closedGates_nil {reg : List (List Nat)} {p : Obs} {f t : Nat} {amt : Int}
    (h1 : p.paused = false) (h2 : gb p.af f = false) (h3 : gb p.af t = false)
    (h4 : amt ≤ gi p.bal f - gi p.ft f) (h5 : gb p.id f = true) (h6 : gb p.id t = true)
    (h7 : vetoes reg p f t amt = []) : closedGates reg p f t amt = [] := by
  have h4' : ¬ (amt > gi p.bal f - gi p.ft f) := by omega
  unfold closedGates
  rw [h1, h2, h3, h5, h6, h7, if_neg h4']
  simp

theorem amt_le_max {s : State} (hi : Inv (List.range N) s.base) (hf : FrozenInv s) {f : Nat} {amt : Int}
    (h : amt ≤ s.base.bal f - s.frozen f) : amt ≤ I128_MAX := by
  have h1 := (hf f).1
  have h2 := bal_le_supply List.nodup_range hi f
  have h3 := hi.supHi
  omega

/-- the gates of a holder move, read off the observed pre-state -/
theorem closedGates_of_gates {s : State} {cs : List Comp} {p : Obs} (hg : Good s cs) (hp : Shows p s cs)
    {f t : Nat} {amt : Int} (hf : f < N) (ht : t < N) (g : Gates s f t amt) :
    closedGates (regOf s) p f t amt = [] := by
  apply closedGates_nil
  · rw [hp.paused]; exact g.notPaused
  · rw [hp.af, gb_map _ hf]; exact g.fromNotFrozen
  · rw [hp.af, gb_map _ ht]; exact g.toNotFrozen
  · rw [hp.bal, hp.ft, gi_map _ hf, gi_map _ hf]; exact g.free
  · rw [hp.id, gb_map _ hf]; exact g.fromVerified
  · rw [hp.id, gb_map _ ht]; exact g.toVerified
  · unfold vetoes
    rw [List.filter_eq_nil_iff, regOf_getD s (by decide : 3 < 5), hp.mcfg]
    intro m hm
    have hv := (consult_true_iff _ _).mp g.compliant m hm
    have := hg.comp.1 m f t amt (amt_le_max hg.inv hg.frozen g.free) hv
    rw [this]; decide

/-! ### kinds of operations -/

theorem kindOf_transfer {op : Op} (h : kindOf op = .transfer) : ∃ f t a, op = .transfer f t a := by
  cases op <;> simp [kindOf] at h; exact ⟨_, _, _, rfl⟩

theorem kindOf_transferFrom {op : Op} (h : kindOf op = .transferFrom) : ∃ sp f t a, op = .transferFrom sp f t a := by
  cases op <;> simp [kindOf] at h; exact ⟨_, _, _, _, rfl⟩

theorem kindOf_mint {op : Op} (h : kindOf op = .mint) : ∃ t a o, op = .mint t a o := by
  cases op <;> simp [kindOf] at h; exact ⟨_, _, _, rfl⟩

theorem kindOf_burn {op : Op} (h : kindOf op = .burn) : ∃ t a o, op = .burn t a o := by
  cases op <;> simp [kindOf] at h; exact ⟨_, _, _, rfl⟩

theorem kindOf_forcedTransfer {op : Op} (h : kindOf op = .forcedTransfer) : ∃ f t a o, op = .forcedTransfer f t a o := by
  cases op <;> simp [kindOf] at h; exact ⟨_, _, _, _, rfl⟩

theorem kindOf_recover {op : Op} (h : kindOf op = .recover) : ∃ o n x, op = .recover o n x := by
  cases op <;> simp [kindOf] at h; exact ⟨_, _, _, rfl⟩

theorem kindOf_freeze {op : Op} (h : kindOf op = .freeze) : ∃ t a o, op = .freezePartial t a o := by
  cases op <;> simp [kindOf] at h; exact ⟨_, _, _, rfl⟩

theorem kindOf_unfreeze {op : Op} (h : kindOf op = .unfreeze) : ∃ t a o, op = .unfreezePartial t a o := by
  cases op <;> simp [kindOf] at h; exact ⟨_, _, _, rfl⟩

theorem kindOf_addModule {op : Op} (h : kindOf op = .addModule) : ∃ k m o, op = .addModule k m o := by
  cases op <;> simp [kindOf] at h; exact ⟨_, _, _, rfl⟩

theorem kindOf_removeModule {op : Op} (h : kindOf op = .removeModule) : ∃ k m o, op = .removeModule k m o := by
  cases op <;> simp [kindOf] at h; exact ⟨_, _, _, rfl⟩

/-! ### the checks on the observation of an ACCEPTED call

Common setting: `p` shows the good state `s`; the model accepts `op` from `s` (`h`), leading to `s'`
with return value `r`; the addresses of `op` lie in the observed universe; the observation is
`obsOk s s' r op cs'` and the op line `lineOf op x y`. -/

section accepted
variable {c : Cfg} {s s' : State} {cs cs' : List Comp} {p : Obs} {auth : List Nat} {op : Op} {r : Bool}
  {x : Int} {y : Nat}

theorem vGateTransfer_ok (hg : Good s cs) (hp : Shows p s cs) (hU : ∀ a ∈ op.addrs, a < N)
    (h : applyRet c s auth op = .ok (s', r)) :
    vGateTransfer (regOf s) p (lineOf op x y) (obsOk s s' r op cs') = none := by
  unfold vGateTransfer
  by_cases hk : kindOf op = .transfer
  · obtain ⟨f, t, a, rfl⟩ := kindOf_transfer hk
    have g := (transfer_ok (apply_transfer (applyRet_apply h))).2.gates
    have hf : f < N := hU f (by simp [Op.addrs])
    have ht : t < N := hU t (by simp [Op.addrs])
    rw [if_pos ⟨rfl, rfl⟩]
    apply orFail_true
    show (closedGates (regOf s) p f t a).isEmpty = true
    rw [closedGates_of_gates hg hp hf ht g]; rfl
  · rw [if_neg (fun e => hk e.2)]

theorem vGateTransferFrom_ok (hg : Good s cs) (hp : Shows p s cs) (hU : ∀ a ∈ op.addrs, a < N)
    (h : applyRet c s auth op = .ok (s', r)) :
    vGateTransferFrom (regOf s) p (lineOf op x y) (obsOk s s' r op cs') = none := by
  unfold vGateTransferFrom
  by_cases hk : kindOf op = .transferFrom
  · obtain ⟨sp, f, t, a, rfl⟩ := kindOf_transferFrom hk
    have g := (transferFrom_ok (apply_transferFrom (applyRet_apply h))).2.2.gates
    have hf : f < N := hU f (by simp [Op.addrs])
    have ht : t < N := hU t (by simp [Op.addrs])
    rw [if_pos ⟨rfl, rfl⟩]
    apply orFail_true
    show (closedGates (regOf s) p f t a).isEmpty = true
    rw [closedGates_of_gates hg hp hf ht g]; rfl
  · rw [if_neg (fun e => hk e.2)]

theorem vGateMint_ok (hg : Good s cs) (hp : Shows p s cs) (hU : ∀ a ∈ op.addrs, a < N)
    (h : applyRet c s auth op = .ok (s', r)) :
    vGateMint (regOf s) p (lineOf op x y) (obsOk s s' r op cs') = none := by
  unfold vGateMint
  by_cases hk : kindOf op = .mint
  · obtain ⟨t, a, o, rfl⟩ := kindOf_mint hk
    have ha := applyRet_apply h
    have q := mint_ok (apply_mint ha).2
    have ht : t < N := hU t (by simp [Op.addrs])
    obtain ⟨hi', hs'⟩ := apply_inv_aux List.nodup_range c hg.inv auth _
      (fun a ha => List.mem_range.mpr (hU a ha)) ha
    have hmax : a ≤ I128_MAX := by
      have h1 := hi'.supHi; have h2 := hg.inv.supLo
      simp only [supplyDelta] at hs'
      omega
    rw [if_pos ⟨rfl, rfl⟩]
    apply orFail_true
    show (gb p.id t && (createVetoes (regOf s) p t a).isEmpty) = true
    have e1 : gb p.id t = true := by rw [hp.id, gb_map _ ht]; exact q.verified
    have e2 : createVetoes (regOf s) p t a = [] := by
      unfold createVetoes
      rw [List.filter_eq_nil_iff, regOf_getD s (by decide : 4 < 5), hp.mcfg]
      intro m hm
      have hv := (consult_true_iff _ _).mp q.compliant m hm
      have := hg.comp.2 m t a hmax hv
      rw [this]; decide
    rw [e1, e2]; rfl
  · rw [if_neg (fun e => hk e.2)]

theorem vFrozenLeBalance_of {s : State} (hf : FrozenInv s) {o : Obs}
    (h1 : o.ft = (List.range N).map s.frozen) (h2 : o.bal = (List.range N).map s.base.bal) :
    vFrozenLeBalance o = none := by
  unfold vFrozenLeBalance
  apply orFail_true
  rw [List.all_eq_true]
  intro i hi
  have hi := List.mem_range.mp hi
  rw [h1, h2, gi_map _ hi, gi_map _ hi]
  simpa using hf i

theorem unfreezeWant_eq (hp : Shows p s cs) {a : Nat} (ha : a < N) (amt : Int) :
    unfreezeWant p a amt = frozenAfter s a amt := by
  unfold unfreezeWant frozenAfter
  rw [hp.ft, hp.bal, gi_map _ ha, gi_map _ ha]
  split <;> split <;> omega

theorem vForcedUnfreeze_ok (hg : Good s cs) (hp : Shows p s cs) (hU : ∀ a ∈ op.addrs, a < N)
    (h : applyRet c s auth op = .ok (s', r)) :
    vForcedUnfreeze p (lineOf op x y) (obsOk s s' r op cs') = none := by
  unfold vForcedUnfreeze
  by_cases hk : kindOf op = .forcedTransfer
  · obtain ⟨f, t, a, o, rfl⟩ := kindOf_forcedTransfer hk
    have q := apply_post c hg.frozen auth _ h
    have hf : f < N := hU f (by simp [Op.addrs])
    rw [if_pos ⟨rfl, rfl⟩]
    apply orFail_true
    show ((List.range N).map s'.frozen == setAt p.ft f (unfreezeWant p f a)) = true
    rw [unfreezeWant_eq hp hf, hp.ft, setAt_map, q.frozen]
    exact beq_self_eq_true _
  · rw [if_neg (fun e => hk e.2)]

theorem vBurnUnfreeze_ok (hg : Good s cs) (hp : Shows p s cs) (hU : ∀ a ∈ op.addrs, a < N)
    (h : applyRet c s auth op = .ok (s', r)) :
    vBurnUnfreeze p (lineOf op x y) (obsOk s s' r op cs') = none := by
  unfold vBurnUnfreeze
  by_cases hk : kindOf op = .burn
  · obtain ⟨f, a, o, rfl⟩ := kindOf_burn hk
    have q := apply_post c hg.frozen auth _ h
    have hf : f < N := hU f (by simp [Op.addrs])
    rw [if_pos ⟨rfl, rfl⟩]
    apply orFail_true
    show ((List.range N).map s'.frozen == setAt p.ft f (unfreezeWant p f a)) = true
    rw [unfreezeWant_eq hp hf, hp.ft, setAt_map, q.frozen]
    exact beq_self_eq_true _
  · rw [if_neg (fun e => hk e.2)]

theorem recExpFt_eq (hp : Shows p s cs) {old new : Nat} (ho : old < N) :
    recExpFt p old new = (List.range N).map
      (if old = new then s.frozen else upd (upd s.frozen old 0) new (upd s.frozen old 0 new + s.frozen old)) := by
  unfold recExpFt
  by_cases hon : old = new
  · rw [if_pos hon, if_pos hon]; exact hp.ft
  · rw [if_neg hon, if_neg hon, hp.ft, gi_map _ ho, setAt_map, addAt_map]

theorem recExpAf_eq (hp : Shows p s cs) {old new : Nat} (ho : old < N) (hn : new < N) :
    recExpAf p old new = (List.range N).map (upd s.addrFrozen new (s.addrFrozen new || s.addrFrozen old)) := by
  unfold recExpAf
  rw [hp.af, gb_map _ ho, gb_map _ hn, setAt_map]

theorem vRecover_ok (hg : Good s cs) (hp : Shows p s cs) (hU : ∀ a ∈ op.addrs, a < N)
    (h : applyRet c s auth op = .ok (s', r)) :
    vRecover p (lineOf op x y) (obsOk s s' r op cs') = none := by
  unfold vRecover
  by_cases hk : kindOf op = .recover
  · obtain ⟨old, new, o, rfl⟩ := kindOf_recover hk
    have q := apply_post c hg.frozen auth _ h
    have ho : old < N := hU old (by simp [Op.addrs])
    have hn : new < N := hU new (by simp [Op.addrs])
    obtain ⟨-, r', hr⟩ := apply_recover (applyRet_apply h)
    obtain ⟨hid, htg, -⟩ := recoverBalance_ok hr
    rw [if_pos ⟨rfl, rfl⟩]
    have e1 : vRecoverTarget p (lineOf (.recover old new o) x y) = none := by
      unfold vRecoverTarget
      apply orFail_true
      show (p.rct.getD old none == some new && gb p.id new) = true
      rw [hp.rct, hp.id, gb_map _ hn, getD_map_range N _ none ho, htg, hid]
      simp
    have hret : r = decide (s.base.bal old ≠ 0) := q.ret
    have e2 : vRecoverRet p (lineOf (.recover old new o) x y) (obsOk s s' r (.recover old new o) cs') = none := by
      unfold vRecoverRet
      apply orFail_true
      show (some r == some (decide (gi p.bal old ≠ 0))) = true
      rw [hp.bal, gi_map _ ho, hret]
      exact beq_self_eq_true _
    have e3 : vRecoverEffects p (lineOf (.recover old new o) x y) (obsOk s s' r (.recover old new o) cs') = none := by
      unfold vRecoverEffects
      show (if some r = some true then
          orFail ((List.range N).map s'.frozen == recExpFt p old new && (List.range N).map s'.addrFrozen == recExpAf p old new) _
        else orFail ((List.range N).map s'.frozen == p.ft && (List.range N).map s'.addrFrozen == p.af) _) = none
      by_cases hz : s.base.bal old = 0
      · have hr0 : r = false := by rw [hret]; simp [hz]
        rw [if_neg (by rw [hr0]; simp)]
        apply orFail_true
        rw [q.frozen, q.addrFrozen, hp.ft, hp.af]
        simp only [frozenAfterOp, afAfter]
        rw [if_pos hz, if_pos hz]
        simp
      · have hr1 : r = true := by rw [hret]; simp [hz]
        rw [if_pos (by rw [hr1])]
        apply orFail_true
        rw [q.frozen, q.addrFrozen, recExpFt_eq hp ho, recExpAf_eq hp ho hn]
        simp only [frozenAfterOp, afAfter]
        rw [if_neg hz, if_neg hz]
        by_cases hon : old = new
        · rw [if_pos hon]; simp
        · rw [if_neg hon]; simp
    rw [e1, e2, e3]; rfl
  · rw [if_neg (fun e => hk e.2)]

/-- the expected balances the monitor computes from the observed pre-state are the model's -/
theorem expBal_spec (hp : Shows p s cs) (hU : ∀ a ∈ op.addrs, a < N) (hr : r = retSpec s op) :
    expBal p (lineOf op x y) (retOf op r) = (List.range N).map (balAfter s op) := by
  cases op with
  | transfer f t a => show move p.bal f t a = _; rw [hp.bal]; exact move_map N _ f t a
  | transferFrom sp f t a => show move p.bal f t a = _; rw [hp.bal]; exact move_map N _ f t a
  | forcedTransfer f t a o => show move p.bal f t a = _; rw [hp.bal]; exact move_map N _ f t a
  | mint t a o => show addAt p.bal t a = _; rw [hp.bal]; exact addAt_map N _ t a
  | burn t a o => show addAt p.bal t (-a) = _; rw [hp.bal]; exact addAt_map N _ t (-a)
  | recover old new o =>
    have ho : old < N := hU old (by simp [Op.addrs])
    show (if some r = some true then move p.bal old new (gi p.bal old) else p.bal) = _
    simp only [balAfter]
    simp only [retSpec] at hr
    by_cases hz : s.base.bal old = 0
    · have hrf : ¬ (some r = some true) := by rw [hr]; simp [hz]
      rw [if_neg hrf, if_pos hz]; exact hp.bal
    · have hrt : some r = some true := by rw [hr]; simp [hz]
      rw [if_pos hrt, if_neg hz, hp.bal, gi_map _ ho]; exact move_map N _ _ _ _
  | approve _ _ _ _ => exact hp.bal
  | freezePartial _ _ _ => exact hp.bal
  | unfreezePartial _ _ _ => exact hp.bal
  | setAddressFrozen _ _ _ => exact hp.bal
  | pause _ => exact hp.bal
  | unpause _ => exact hp.bal
  | advance _ => exact hp.bal
  | envIdOk _ _ => exact hp.bal
  | envRecTarget _ _ => exact hp.bal
  | envModule _ _ _ => exact hp.bal
  | addModule _ _ _ => exact hp.bal
  | removeModule _ _ _ => exact hp.bal
  | bindToken _ => exact hp.bal
  | unbindToken _ => exact hp.bal

theorem vMove_ok (hg : Good s cs) (hp : Shows p s cs) (hU : ∀ a ∈ op.addrs, a < N)
    (h : applyRet c s auth op = .ok (s', r)) :
    vMove p (lineOf op x y) (obsOk s s' r op cs') = none := by
  have q := apply_post c hg.frozen auth _ h
  unfold vMove
  rw [if_pos (show (obsOk s s' r op cs').ok = true from rfl)]
  apply orFail_true
  show ((List.range N).map s'.base.bal == expBal p (lineOf op x y) (retOf op r)) = true
  rw [expBal_spec hp hU q.ret, q.bal]
  exact beq_self_eq_true _

theorem vFrameFrozen_ok (hg : Good s cs) (hp : Shows p s cs)
    (h : applyRet c s auth op = .ok (s', r)) :
    vFrameFrozen p (lineOf op x y) (obsOk s s' r op cs') = none := by
  have q := apply_post c hg.frozen auth _ h
  unfold vFrameFrozen
  by_cases hk : (kindOf op).mayTouchFrozen = true
  · rw [if_neg (fun e => e.2 hk)]
  · rw [if_pos ⟨rfl, hk⟩]
    apply orFail_true
    show ((List.range N).map s'.frozen == p.ft) = true
    have : frozenAfterOp s op = s.frozen := by
      cases op <;> first | rfl | exact absurd rfl hk
    rw [q.frozen, this, hp.ft]
    exact beq_self_eq_true _

theorem vFrameAddrFrozen_ok (hg : Good s cs) (hp : Shows p s cs)
    (h : applyRet c s auth op = .ok (s', r)) :
    vFrameAddrFrozen p (lineOf op x y) (obsOk s s' r op cs') = none := by
  have q := apply_post c hg.frozen auth _ h
  unfold vFrameAddrFrozen
  by_cases hk : (kindOf op).mayTouchAddrFrozen = true
  · rw [if_neg (fun e => e.2 hk)]
  · rw [if_pos ⟨rfl, hk⟩]
    apply orFail_true
    show ((List.range N).map s'.addrFrozen == p.af) = true
    have : afAfter s op = s.addrFrozen := by
      cases op <;> first | rfl | exact absurd rfl hk
    rw [q.addrFrozen, this, hp.af]
    exact beq_self_eq_true _

theorem vFreezeEffect_ok (hg : Good s cs) (hp : Shows p s cs)
    (h : applyRet c s auth op = .ok (s', r)) :
    vFreezeEffect p (lineOf op x y) (obsOk s s' r op cs') = none := by
  unfold vFreezeEffect
  by_cases hk : kindOf op = .freeze
  · obtain ⟨t, a, o, rfl⟩ := kindOf_freeze hk
    have q := apply_post c hg.frozen auth _ h
    obtain ⟨h0, -⟩ := freezePartial_ok (apply_freezePartial (applyRet_apply h)).2
    rw [if_pos ⟨rfl, rfl⟩]
    apply orFail_true
    show (decide (a ≥ 0) && (List.range N).map s'.frozen == addAt p.ft t a) = true
    rw [hp.ft, addAt_map, q.frozen]
    simp only [frozenAfterOp, Bool.and_eq_true, decide_eq_true_eq]
    exact ⟨h0, beq_self_eq_true _⟩
  · rw [if_neg (fun e => hk e.2)]

theorem vUnfreezeEffect_ok (hg : Good s cs) (hp : Shows p s cs)
    (h : applyRet c s auth op = .ok (s', r)) :
    vUnfreezeEffect p (lineOf op x y) (obsOk s s' r op cs') = none := by
  unfold vUnfreezeEffect
  by_cases hk : kindOf op = .unfreeze
  · obtain ⟨t, a, o, rfl⟩ := kindOf_unfreeze hk
    have q := apply_post c hg.frozen auth _ h
    obtain ⟨h0, -⟩ := unfreezePartial_ok (apply_unfreezePartial (applyRet_apply h)).2
    rw [if_pos ⟨rfl, rfl⟩]
    apply orFail_true
    show (decide (a ≥ 0) && (List.range N).map s'.frozen == addAt p.ft t (-a)) = true
    rw [hp.ft, addAt_map, q.frozen]
    simp only [frozenAfterOp, Bool.and_eq_true, decide_eq_true_eq]
    exact ⟨h0, beq_self_eq_true _⟩
  · rw [if_neg (fun e => hk e.2)]

/-- what the monitor says the compliance contract is owed is what the model owes -/
theorem owedOf_spec (hp : Shows p s cs) (hU : ∀ a ∈ op.addrs, a < N) (hr : r = retSpec s op) :
    owedOf p (lineOf op x y) (retOf op r) = op.owedNotes s := by
  cases op with
  | recover old new o =>
    have ho : old < N := hU old (by simp [Op.addrs])
    show (if some r = some true then [Note.transferred old new (gi p.bal old)] else []) = _
    simp only [Op.owedNotes]
    simp only [retSpec] at hr
    by_cases hz : s.base.bal old = 0
    · have hrf : ¬ (some r = some true) := by rw [hr]; simp [hz]
      rw [if_neg hrf, if_pos hz]
    · have hrt : some r = some true := by rw [hr]; simp [hz]
      rw [if_pos hrt, if_neg hz, hp.bal, gi_map _ ho]
  | _ => rfl

theorem obsOk_cn (hs : s'.notes = s.notes ++ op.owedNotes s) : (obsOk s s' r op cs').cn = op.owedNotes s := by
  show s'.notes.drop s.notes.length = _
  rw [hs, List.drop_left]

theorem vNotify_ok (hg : Good s cs) (hp : Shows p s cs) (hU : ∀ a ∈ op.addrs, a < N)
    (h : applyRet c s auth op = .ok (s', r)) :
    vNotify p (lineOf op x y) (obsOk s s' r op cs') = none := by
  have q := apply_post c hg.frozen auth _ h
  unfold vNotify
  apply orFail_true
  have e : owed p (lineOf op x y) (obsOk s s' r op cs') = op.owedNotes s := by
    unfold owed
    rw [if_neg (by intro hc; exact hc rfl)]
    exact owedOf_spec hp hU q.ret
  rw [e, obsOk_cn (apply_notes_aux c auth op (applyRet_apply h))]
  exact beq_self_eq_true _

/-- a token that is not bound to the compliance contract cannot notify it -/
theorem bound_of_owed (h : apply c s auth op = .ok s') (hop : op.owedNotes s ≠ []) : s.bound = true := by
  cases op with
  | transfer f t a => exact (transfer_ok (apply_transfer h)).2.bound
  | transferFrom sp f t a => exact (transferFrom_ok (apply_transferFrom h)).2.2.bound
  | mint t a op => exact (mint_ok (apply_mint h).2).bound
  | burn x a op => exact (burn_ok (apply_burn h).2).bound
  | forcedTransfer f t a op => exact (forcedTransfer_ok (apply_forcedTransfer h).2).bound
  | recover old new op =>
    obtain ⟨-, r, hr⟩ := apply_recover h
    obtain ⟨-, -, hcase⟩ := recoverBalance_ok hr
    rcases hcase with ⟨-, hz, -⟩ | ⟨-, -, q⟩
    · simp [Op.owedNotes, hz] at hop
    · exact q.bound
  | _ => simp [Op.owedNotes] at hop

theorem vBound_ok (hg : Good s cs) (hp : Shows p s cs) (hU : ∀ a ∈ op.addrs, a < N)
    (h : applyRet c s auth op = .ok (s', r)) :
    vBound p (lineOf op x y) (obsOk s s' r op cs') = none := by
  have q := apply_post c hg.frozen auth _ h
  have e : owed p (lineOf op x y) (obsOk s s' r op cs') = op.owedNotes s := by
    unfold owed
    rw [if_neg (by intro hc; exact hc rfl)]
    exact owedOf_spec hp hU q.ret
  unfold vBound
  rw [e]
  by_cases hn : op.owedNotes s = []
  · rw [if_neg (by rw [hn]; simp)]
  · rw [if_pos ⟨rfl, by simpa using hn⟩]
    apply orFail_true
    rw [hp.bound]
    exact bound_of_owed (applyRet_apply h) hn

theorem obsOk_ml (hs : s'.modCalls = s.modCalls ++ op.owedModCalls s) :
    (obsOk s s' r op cs').ml = grouped (op.owedModCalls s) := by
  show grouped (s'.modCalls.drop s.modCalls.length) = _
  rw [hs, List.drop_left]

theorem hooks_of_two (hn : ModsNodup s) (vs : List Nat) (v h : ModCall) (hk : Hook)
    (hv : isHookCall v = false) (hh : isHookCall h = true) :
    (grouped (callsTo vs v ++ callsTo (s.mods hk) h)).filter (fun e => isHookCall e.2) = fanOut (s.mods hk) h := by
  rw [filter_grouped, List.filter_append, filter_callsTo_neg _ _ _ hv, filter_callsTo_pos _ _ _ hh, List.nil_append,
    grouped_callsTo _ _ (hn hk)]

theorem hooks_of_one (hn : ModsNodup s) (h : ModCall) (hk : Hook) (hh : isHookCall h = true) :
    (grouped (callsTo (s.mods hk) h)).filter (fun e => isHookCall e.2) = fanOut (s.mods hk) h := by
  rw [filter_grouped, filter_callsTo_pos _ _ _ hh, grouped_callsTo _ _ (hn hk)]

theorem verdicts_of_two (hn : ModsNodup s) (hs : Hook) (v h : ModCall) (hk : Hook)
    (hv : isHookCall v = false) (hh : isHookCall h = true) :
    (grouped (callsTo (s.mods hs) v ++ callsTo (s.mods hk) h)).filter (fun e => !isHookCall e.2) = fanOut (s.mods hs) v := by
  rw [filter_grouped, List.filter_append, filter_callsTo_pos _ _ (fun c => !isHookCall c) (by simp [hv]),
    filter_callsTo_neg _ _ (fun c => !isHookCall c) (by simp [hh]), List.append_nil, grouped_callsTo _ _ (hn hs)]

theorem verdicts_of_one (h : ModCall) (ms : List Nat) (hh : isHookCall h = true) :
    (grouped (callsTo ms h)).filter (fun e => !isHookCall e.2) = [] := by
  rw [filter_grouped, filter_callsTo_neg _ _ (fun c => !isHookCall c) (by simp [hh]), grouped_nil]

/-- the hook calls among what the modules received are what the monitor says they are owed -/
theorem gotHooks_spec (hg : Good s cs) (hp : Shows p s cs) (hU : ∀ a ∈ op.addrs, a < N) (hr : r = retSpec s op) :
    (grouped (op.owedModCalls s)).filter (fun e => isHookCall e.2) =
      owedHooksOf (regOf s) p (lineOf op x y) (retOf op r) := by
  have r0 := regOf_getD s (by decide : 0 < 5)
  have r1 := regOf_getD s (by decide : 1 < 5)
  have r2 := regOf_getD s (by decide : 2 < 5)
  cases op with
  | transfer f t a =>
    show _ = fanOut ((regOf s).getD 0 []) (.onTransfer f t a)
    rw [r0]; exact hooks_of_two hg.nodup _ _ _ .transferred rfl rfl
  | transferFrom sp f t a =>
    show _ = fanOut ((regOf s).getD 0 []) (.onTransfer f t a)
    rw [r0]; exact hooks_of_two hg.nodup _ _ _ .transferred rfl rfl
  | forcedTransfer f t a o =>
    show _ = fanOut ((regOf s).getD 0 []) (.onTransfer f t a)
    rw [r0]; exact hooks_of_one hg.nodup _ .transferred rfl
  | mint t a o =>
    show _ = fanOut ((regOf s).getD 1 []) (.onCreated t a)
    rw [r1]; exact hooks_of_two hg.nodup _ _ _ .created rfl rfl
  | burn t a o =>
    show _ = fanOut ((regOf s).getD 2 []) (.onDestroyed t a)
    rw [r2]; exact hooks_of_one hg.nodup _ .destroyed rfl
  | recover old new o =>
    have ho : old < N := hU old (by simp [Op.addrs])
    show _ = (if some r = some true then fanOut ((regOf s).getD 0 []) (.onTransfer old new (gi p.bal old)) else [])
    simp only [Op.owedModCalls]
    simp only [retSpec] at hr
    by_cases hz : s.base.bal old = 0
    · have hrf : ¬ (some r = some true) := by rw [hr]; simp [hz]
      rw [if_neg hrf, if_pos hz, grouped_nil]; rfl
    · have hrt : some r = some true := by rw [hr]; simp [hz]
      rw [if_pos hrt, if_neg hz, hp.bal, gi_map _ ho, r0]
      exact hooks_of_one hg.nodup _ .transferred rfl
  | approve _ _ _ _ => exact (by rw [grouped_nil]; rfl : (grouped []).filter _ = [])
  | freezePartial _ _ _ => exact (by rw [grouped_nil]; rfl : (grouped []).filter _ = [])
  | unfreezePartial _ _ _ => exact (by rw [grouped_nil]; rfl : (grouped []).filter _ = [])
  | setAddressFrozen _ _ _ => exact (by rw [grouped_nil]; rfl : (grouped []).filter _ = [])
  | pause _ => exact (by rw [grouped_nil]; rfl : (grouped []).filter _ = [])
  | unpause _ => exact (by rw [grouped_nil]; rfl : (grouped []).filter _ = [])
  | advance _ => exact (by rw [grouped_nil]; rfl : (grouped []).filter _ = [])
  | envIdOk _ _ => exact (by rw [grouped_nil]; rfl : (grouped []).filter _ = [])
  | envRecTarget _ _ => exact (by rw [grouped_nil]; rfl : (grouped []).filter _ = [])
  | envModule _ _ _ => exact (by rw [grouped_nil]; rfl : (grouped []).filter _ = [])
  | addModule _ _ _ => exact (by rw [grouped_nil]; rfl : (grouped []).filter _ = [])
  | removeModule _ _ _ => exact (by rw [grouped_nil]; rfl : (grouped []).filter _ = [])
  | bindToken _ => exact (by rw [grouped_nil]; rfl : (grouped []).filter _ = [])
  | unbindToken _ => exact (by rw [grouped_nil]; rfl : (grouped []).filter _ = [])

theorem vFanout_ok (hg : Good s cs) (hp : Shows p s cs) (hU : ∀ a ∈ op.addrs, a < N)
    (h : applyRet c s auth op = .ok (s', r)) :
    vFanout (regOf s) p (lineOf op x y) (obsOk s s' r op cs') = none := by
  have q := apply_post c hg.frozen auth _ h
  unfold vFanout
  apply orFail_true
  have e : owedHooks (regOf s) p (lineOf op x y) (obsOk s s' r op cs') =
      owedHooksOf (regOf s) p (lineOf op x y) (retOf op r) := by
    unfold owedHooks
    rw [if_neg (by intro hc; exact hc rfl)]; rfl
  unfold gotHooks
  rw [e, obsOk_ml (apply_modCalls_aux c auth op (applyRet_apply h)), gotHooks_spec hg hp hU q.ret]
  exact beq_self_eq_true _

/-- the verdict calls among what the modules received are what the monitor says were owed: an
accepted holder move / mint consulted every registered verdict module -/
theorem gotVerdicts_spec (hg : Good s cs) (h : apply c s auth op = .ok s') :
    (grouped (op.owedModCalls s)).filter (fun e => !isHookCall e.2) = owedVerdictsOf (regOf s) (lineOf op x y) := by
  have r3 := regOf_getD s (by decide : 3 < 5)
  have r4 := regOf_getD s (by decide : 4 < 5)
  cases op with
  | transfer f t a =>
    have g := (transfer_ok (apply_transfer h)).2.gates
    show _ = fanOut ((regOf s).getD 3 []) (.canTransfer f t a)
    simp only [Op.owedModCalls]
    have hc : (compCanTransfer s f t a).1 = s.mods .canTransfer := consult_called_all _ _ g.compliant
    rw [r3, hc]
    exact verdicts_of_two hg.nodup .canTransfer _ _ .transferred rfl rfl
  | transferFrom sp f t a =>
    have g := (transferFrom_ok (apply_transferFrom h)).2.2.gates
    show _ = fanOut ((regOf s).getD 3 []) (.canTransfer f t a)
    simp only [Op.owedModCalls]
    have hc : (compCanTransfer s f t a).1 = s.mods .canTransfer := consult_called_all _ _ g.compliant
    rw [r3, hc]
    exact verdicts_of_two hg.nodup .canTransfer _ _ .transferred rfl rfl
  | mint t a o =>
    have q := mint_ok (apply_mint h).2
    show _ = fanOut ((regOf s).getD 4 []) (.canCreate t a)
    simp only [Op.owedModCalls]
    have hc : (compCanCreate s t a).1 = s.mods .canCreate := consult_called_all _ _ q.compliant
    rw [r4, hc]
    exact verdicts_of_two hg.nodup .canCreate _ _ .created rfl rfl
  | forcedTransfer f t a o => exact verdicts_of_one _ _ rfl
  | burn t a o => exact verdicts_of_one _ _ rfl
  | recover old new o =>
    show _ = []
    simp only [Op.owedModCalls]
    split
    · rw [grouped_nil]; rfl
    · exact verdicts_of_one _ _ rfl
  | approve _ _ _ _ => exact (by rw [grouped_nil]; rfl : (grouped []).filter _ = [])
  | freezePartial _ _ _ => exact (by rw [grouped_nil]; rfl : (grouped []).filter _ = [])
  | unfreezePartial _ _ _ => exact (by rw [grouped_nil]; rfl : (grouped []).filter _ = [])
  | setAddressFrozen _ _ _ => exact (by rw [grouped_nil]; rfl : (grouped []).filter _ = [])
  | pause _ => exact (by rw [grouped_nil]; rfl : (grouped []).filter _ = [])
  | unpause _ => exact (by rw [grouped_nil]; rfl : (grouped []).filter _ = [])
  | advance _ => exact (by rw [grouped_nil]; rfl : (grouped []).filter _ = [])
  | envIdOk _ _ => exact (by rw [grouped_nil]; rfl : (grouped []).filter _ = [])
  | envRecTarget _ _ => exact (by rw [grouped_nil]; rfl : (grouped []).filter _ = [])
  | envModule _ _ _ => exact (by rw [grouped_nil]; rfl : (grouped []).filter _ = [])
  | addModule _ _ _ => exact (by rw [grouped_nil]; rfl : (grouped []).filter _ = [])
  | removeModule _ _ _ => exact (by rw [grouped_nil]; rfl : (grouped []).filter _ = [])
  | bindToken _ => exact (by rw [grouped_nil]; rfl : (grouped []).filter _ = [])
  | unbindToken _ => exact (by rw [grouped_nil]; rfl : (grouped []).filter _ = [])

theorem vConsulted_ok (hg : Good s cs) (h : applyRet c s auth op = .ok (s', r)) :
    vConsulted (regOf s) (lineOf op x y) (obsOk s s' r op cs') = none := by
  unfold vConsulted
  rw [if_pos (show (obsOk s s' r op cs').ok = true from rfl)]
  apply orFail_true
  have e : owedVerdicts (regOf s) (lineOf op x y) (obsOk s s' r op cs') = owedVerdictsOf (regOf s) (lineOf op x y) := by
    unfold owedVerdicts
    rw [if_neg (by intro hc; exact hc rfl)]
  unfold gotVerdicts
  rw [e, obsOk_ml (apply_modCalls_aux c auth op (applyRet_apply h)), gotVerdicts_spec hg (applyRet_apply h)]
  exact beq_self_eq_true _

/-- the ghost registry follows the model's registry -/
theorem ghostReg_spec (op : Op) (x : Int) (y : Nat) :
    ghostReg (regOf s) (lineOf op x y) true = (List.range 5).map (fun h => modsAfter s op (hookOf h)) := by
  unfold ghostReg
  by_cases hk : kindOf op = .addModule
  · obtain ⟨k, m, o, rfl⟩ := kindOf_addModule hk
    rw [if_pos ⟨rfl, rfl⟩]
    show setAt (regOf s) (hookIx k) ((regOf s).getD (hookIx k) [] ++ [m]) = _
    rw [regOf_getD_hookIx]
    unfold regOf
    rw [setAt_map]
    apply map_range_congr
    intro i hi
    simp only [upd, modsAfter]
    by_cases hik : i = hookIx k
    · rw [if_pos hik, if_pos ((hookOf_eq_iff hi k).mpr hik)]
    · rw [if_neg hik, if_neg (fun e => hik ((hookOf_eq_iff hi k).mp e))]
  · rw [if_neg (fun e => hk e.2)]
    by_cases hk2 : kindOf op = .removeModule
    · obtain ⟨k, m, o, rfl⟩ := kindOf_removeModule hk2
      rw [if_pos ⟨rfl, rfl⟩]
      show setAt (regOf s) (hookIx k) (((regOf s).getD (hookIx k) []).erase m) = _
      rw [regOf_getD_hookIx]
      unfold regOf
      rw [setAt_map]
      apply map_range_congr
      intro i hi
      simp only [upd, modsAfter]
      by_cases hik : i = hookIx k
      · rw [if_pos hik, if_pos ((hookOf_eq_iff hi k).mpr hik)]
      · rw [if_neg hik, if_neg (fun e => hik ((hookOf_eq_iff hi k).mp e))]
    · rw [if_neg (fun e => hk2 e.2)]
      have : modsAfter s op = s.mods := by
        cases op <;> first | rfl | exact absurd rfl hk | exact absurd rfl hk2
      rw [this]; rfl

theorem vRegistry_ok (hg : Good s cs) (h : applyRet c s auth op = .ok (s', r)) :
    vRegistry (regOf s) (lineOf op x y) (obsOk s s' r op cs') = none := by
  have q := apply_post c hg.frozen auth _ h
  unfold vRegistry
  apply orFail_true
  show ((List.range 5).map (fun h => s'.mods (hookOf h)) == ghostReg (regOf s) (lineOf op x y) true) = true
  rw [ghostReg_spec, q.mods]
  exact beq_self_eq_true _

theorem vAddModule_ok (h : applyRet c s auth op = .ok (s', r)) :
    vAddModule (regOf s) (lineOf op x y) (obsOk s s' r op cs') = none := by
  unfold vAddModule
  by_cases hk : kindOf op = .addModule
  · obtain ⟨k, m, o, rfl⟩ := kindOf_addModule hk
    obtain ⟨hnot, -⟩ := addModule_ok (apply_addModule (applyRet_apply h)).2
    rw [if_pos ⟨rfl, rfl⟩]
    apply orFail_true
    show (!((regOf s).getD (hookIx k) []).contains m) = true
    rw [regOf_getD_hookIx]
    simpa using hnot
  · rw [if_neg (fun e => hk e.2)]

theorem vRemoveModule_ok (h : applyRet c s auth op = .ok (s', r)) :
    vRemoveModule (regOf s) (lineOf op x y) (obsOk s s' r op cs') = none := by
  unfold vRemoveModule
  by_cases hk : kindOf op = .removeModule
  · obtain ⟨k, m, o, rfl⟩ := kindOf_removeModule hk
    obtain ⟨hin, -⟩ := removeModule_ok (apply_removeModule (applyRet_apply h)).2
    rw [if_pos ⟨rfl, rfl⟩]
    apply orFail_true
    show ((regOf s).getD (hookIx k) []).contains m = true
    rw [regOf_getD_hookIx]
    simpa using hin
  · rw [if_neg (fun e => hk e.2)]

/-- the operator of an accepted supervisory call is the admin and was asked to authorize -/
theorem operator_spec (h : apply c s auth op = .ok s') (hk : (kindOf op).supervisory = true) :
    (lineOf op x y).operator = s.admin ∧ (demOf op).contains (lineOf op x y).operator = true := by
  cases op with
  | transfer f t a => cases hk
  | transferFrom sp f t a => cases hk
  | approve o sp a lu => cases hk
  | advance n => cases hk
  | envIdOk a ok => cases hk
  | envRecTarget a t => cases hk
  | envModule m ct cc => cases hk
  | mint t a o => obtain ⟨⟨-, hb⟩, -⟩ := apply_mint h; exact ⟨hb, by simp [demOf, isEnv, Op.required, lineOf, Line.operator, addrsOf]⟩
  | burn t a o => obtain ⟨⟨-, hb⟩, -⟩ := apply_burn h; exact ⟨hb, by simp [demOf, isEnv, Op.required, lineOf, Line.operator, addrsOf]⟩
  | forcedTransfer f t a o =>
    obtain ⟨⟨-, hb⟩, -⟩ := apply_forcedTransfer h; exact ⟨hb, by simp [demOf, isEnv, Op.required, lineOf, Line.operator, addrsOf]⟩
  | recover old new o =>
    obtain ⟨⟨-, hb⟩, -⟩ := apply_recover h; exact ⟨hb, by simp [demOf, isEnv, Op.required, lineOf, Line.operator, addrsOf]⟩
  | freezePartial t a o =>
    obtain ⟨⟨-, hb⟩, -⟩ := apply_freezePartial h; exact ⟨hb, by simp [demOf, isEnv, Op.required, lineOf, Line.operator, addrsOf]⟩
  | unfreezePartial t a o =>
    obtain ⟨⟨-, hb⟩, -⟩ := apply_unfreezePartial h; exact ⟨hb, by simp [demOf, isEnv, Op.required, lineOf, Line.operator, addrsOf]⟩
  | setAddressFrozen t b o =>
    obtain ⟨⟨-, hb⟩, -⟩ := apply_setAddressFrozen h; exact ⟨hb, by simp [demOf, isEnv, Op.required, lineOf, Line.operator, addrsOf]⟩
  | pause o => obtain ⟨⟨-, hb⟩, -⟩ := apply_pause h; exact ⟨hb, by simp [demOf, isEnv, Op.required, lineOf, Line.operator, addrsOf]⟩
  | unpause o => obtain ⟨⟨-, hb⟩, -⟩ := apply_unpause h; exact ⟨hb, by simp [demOf, isEnv, Op.required, lineOf, Line.operator, addrsOf]⟩
  | addModule k m o =>
    obtain ⟨⟨-, hb⟩, -⟩ := apply_addModule h; exact ⟨hb, by simp [demOf, isEnv, Op.required, lineOf, Line.operator, addrsOf]⟩
  | removeModule k m o =>
    obtain ⟨⟨-, hb⟩, -⟩ := apply_removeModule h; exact ⟨hb, by simp [demOf, isEnv, Op.required, lineOf, Line.operator, addrsOf]⟩
  | bindToken o => obtain ⟨⟨-, hb⟩, -⟩ := apply_bindToken h; exact ⟨hb, by simp [demOf, isEnv, Op.required, lineOf, Line.operator, addrsOf]⟩
  | unbindToken o => obtain ⟨⟨-, hb⟩, -⟩ := apply_unbindToken h; exact ⟨hb, by simp [demOf, isEnv, Op.required, lineOf, Line.operator, addrsOf]⟩

theorem vOperator_ok {admin : Nat} (hadm : admin = s.admin) (h : applyRet c s auth op = .ok (s', r)) :
    vOperator admin (lineOf op x y) (obsOk s s' r op cs') = none := by
  unfold vOperator
  by_cases hk : (kindOf op).supervisory = true
  · obtain ⟨e1, e2⟩ := operator_spec (x := x) (y := y) (applyRet_apply h) hk
    rw [if_pos ⟨rfl, hk⟩]
    apply orFail_true
    show (decide ((lineOf op x y).operator = admin) && (demOf op).contains (lineOf op x y).operator) = true
    rw [e2, hadm]
    simp [e1]
  · rw [if_neg (fun e => hk e.2)]

theorem vSum_of {s : State} (hi : Inv (List.range N) s.base) {o : Obs}
    (h1 : o.bal = (List.range N).map s.base.bal) (h2 : o.sup = s.base.supply) : vSum o = none := by
  unfold vSum
  apply orFail_true
  rw [h1, h2]
  have hs : ((List.range N).map s.base.bal).sum = s.base.supply := hi.sum
  rw [hs]
  simp only [decide_true, Bool.true_and, List.all_eq_true, List.mem_map, decide_eq_true_eq]
  rintro v ⟨a, _, rfl⟩
  exact hi.nonneg a

theorem vRollback_ok (p : Obs) : vRollback p (obsOk s s' r op cs') = none := by
  unfold vRollback
  rw [if_neg (by intro hc; exact hc rfl)]

theorem vReplay_of {rep : List Int} {o : Obs} (h : rep = o.bal) : vReplay rep o = none := by
  unfold vReplay
  apply orFail_true
  rw [h]; exact beq_self_eq_true _

end accepted

end OZ.Rwa.Mon
