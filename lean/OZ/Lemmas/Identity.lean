import OZ.Model.Identity
import OZ.Lemmas.IdentityRegistry
/-
Helper lemmas for C15: the notions the property speaks about (`trustedFor`, `holds`, `satisfies`),
closed forms of the verifier's loops, well-formedness of identity stores.
-/
namespace OZ.Identity
open OZ.Host OZ.ClaimIssuer

variable {σ : Type}

/-- issuer `i` is currently trusted for topic `t` at registry `r` (what `has_claim_topic` answers) -/
def trustedFor (r : Reg) (i t : Nat) : Prop := ∃ ts, r.issuerTopics i = some ts ∧ t ∈ ts

/-- the identity store holds claim `c` for topic `t` from issuer `i`: it is indexed under the topic,
stored under the id of (issuer, topic), and says so itself -/
def holds (st : IdStore σ) (i t : Nat) (c : Claim σ) : Prop :=
  (i, t) ∈ st.byTopic t ∧ st.claim i t = some c ∧ c.topic = t ∧ c.issuer = i

/-- issuer `i` settles topic `t` for identity `d`: the identity holds a claim for `t` from `i` and
`i` confirms it -/
def satisfies (V : Verifier σ) (W : World σ) (st : IdStore σ) (d t i : Nat) : Prop :=
  ∃ c, holds st i t c ∧ issuerConfirms V W i d t c.scheme c.sig c.data = true

/-- every indexed claim id is indexed under its own topic and has a stored claim -/
def IdStore.WF (st : IdStore σ) : Prop :=
  ∀ t id, id ∈ st.byTopic t → id.2 = t ∧ (st.claim id.1 id.2).isSome

/-- identity stores built by the library alone: a stored claim carries the topic and issuer of its id -/
def IdStore.Lib (st : IdStore σ) : Prop :=
  ∀ i t c, st.claim i t = some c → c.topic = t ∧ c.issuer = i

theorem upd2_eq {β} (f : Nat → Nat → β) (a b : Nat) (v : β) : upd2 f a b v a b = v := by simp [upd2]
theorem upd2_ne {β} (f : Nat → Nat → β) (a b x y : Nat) (v : β) (h : ¬ (x = a ∧ y = b)) :
    upd2 f a b v x y = f x y := by simp [upd2, h]

theorem validateClaim_iff (V : Verifier σ) (W : World σ) (c : Claim σ) (t i d : Nat) :
    validateClaim V W c t i d = true ↔
      (c.topic = t ∧ c.issuer = i) ∧ issuerConfirms V W i d t c.scheme c.sig c.data = true := by
  unfold validateClaim
  by_cases h : c.topic = t ∧ c.issuer = i
  · rw [if_pos h]; exact ⟨fun x => ⟨h, x⟩, fun x => x.2⟩
  · rw [if_neg h]; exact ⟨fun x => (by cases x), fun x => absurd x.1 h⟩

theorem forAllOk_iff {α : Type} (f : α → Except Err Unit) :
    ∀ l : List α, forAllOk f l = .ok () ↔ ∀ a ∈ l, f a = .ok ()
  | [] => by simp [forAllOk]
  | a :: rest => by
    have ih := forAllOk_iff f rest
    unfold forAllOk
    cases hf : f a with
    | error e =>
      simp only
      constructor
      · intro h; cases h
      · intro h; have := h a (List.mem_cons_self ..); rw [hf] at this; cases this
    | ok u =>
      cases u
      simp only
      rw [ih]
      constructor
      · intro h x hx
        rcases List.mem_cons.mp hx with rfl | hx
        · exact hf
        · exact h x hx
      · intro h x hx; exact h x (List.mem_cons_of_mem _ hx)

/-- what the tail of one loop iteration does when the current issuer does not settle the topic -/
theorem loop_tail (V : Verifier σ) (W : World σ) (st : IdStore σ) (d t i : Nat) (rest : List Nat)
    (hn : ¬ satisfies V W st d t i)
    (ih : rest ≠ [] → (issuerLoop V W st d t rest = .ok () ↔ ∃ j ∈ rest, satisfies V W st d t j)) :
    ((if rest.isEmpty = true then (.error .fail : Except Err Unit) else issuerLoop V W st d t rest) = .ok ()) ↔
      ∃ j ∈ i :: rest, satisfies V W st d t j := by
  cases rest with
  | nil =>
    simp only [List.isEmpty_nil, if_true]
    constructor
    · intro h; cases h
    · rintro ⟨j, hj, hs⟩
      rcases List.mem_cons.mp hj with rfl | hj
      · exact absurd hs hn
      · cases hj
  | cons x xs =>
    have hne : (x :: xs) ≠ [] := by simp
    simp only [List.isEmpty_cons, Bool.false_eq_true, if_false]
    rw [ih hne]
    constructor
    · rintro ⟨j, hj, hs⟩; exact ⟨j, List.mem_cons_of_mem _ hj, hs⟩
    · rintro ⟨j, hj, hs⟩
      rcases List.mem_cons.mp hj with rfl | hj
      · exact absurd hs hn
      · exact ⟨j, hj, hs⟩

/-- the issuer loop over a non-empty list succeeds iff SOME listed issuer settles the topic -/
theorem issuerLoop_iff (V : Verifier σ) (W : World σ) (st : IdStore σ) (d t : Nat)
    (hwf : ∀ i, (i, t) ∈ st.byTopic t → (st.claim i t).isSome) :
    ∀ l : List Nat, l ≠ [] →
      (issuerLoop V W st d t l = .ok () ↔ ∃ i ∈ l, satisfies V W st d t i)
  | [], h => absurd rfl h
  | i :: rest, _ => by
    have ih := issuerLoop_iff V W st d t hwf rest
    unfold issuerLoop
    by_cases hc : (st.byTopic t).contains (i, t) = true
    · rw [if_pos hc]
      have hm : (i, t) ∈ st.byTopic t := List.contains_iff_mem.mp hc
      cases hcl : st.claim i t with
      | none => have := hwf i hm; rw [hcl] at this; cases this
      | some c =>
        simp only
        by_cases hv : validateClaim V W c t i d = true
        · rw [if_pos hv]
          have hv' := (validateClaim_iff V W c t i d).mp hv
          exact ⟨fun _ => ⟨i, List.mem_cons_self .., c, ⟨hm, hcl, hv'.1.1, hv'.1.2⟩, hv'.2⟩, fun _ => rfl⟩
        · rw [if_neg hv]
          apply loop_tail V W st d t i rest _ ih
          rintro ⟨c', ⟨_, hc', h1, h2⟩, h3⟩
          rw [hcl] at hc'; injection hc' with hc'; subst hc'
          exact hv ((validateClaim_iff V W c t i d).mpr ⟨⟨h1, h2⟩, h3⟩)
    · rw [if_neg hc]
      apply loop_tail V W st d t i rest _ ih
      rintro ⟨c', ⟨hm, _⟩, _⟩
      exact hc (List.contains_iff_mem.mpr hm)

/-- before the fix: the loop over NO issuer succeeds -/
theorem issuerLoop_nil (V : Verifier σ) (W : World σ) (st : IdStore σ) (d t : Nat) :
    issuerLoop V W st d t [] = .ok () := rfl

theorem verifyTopic_iff (V : Verifier σ) (W : World σ) (d t : Nat) (l : List Nat) :
    verifyTopic V W d (t, l) = .ok () ↔
      l ≠ [] ∧ ∃ st, W.ids d = some st ∧ issuerLoop V W st d t l = .ok () := by
  unfold verifyTopic
  cases l with
  | nil => simp
  | cons x xs =>
    simp only [List.isEmpty_cons, Bool.false_eq_true, if_false]
    cases hs : W.ids d with
    | none => simp
    | some st => simp

theorem verifyTopicLegacy_iff (V : Verifier σ) (W : World σ) (d t : Nat) (l : List Nat) :
    verifyTopicLegacy V W d (t, l) = .ok () ↔
      ∃ st, W.ids d = some st ∧ issuerLoop V W st d t l = .ok () := by
  unfold verifyTopicLegacy
  cases hs : W.ids d with
  | none => simp
  | some st => simp

/-- unfolding of `verify_identity` down to the loop body -/
theorem verifyWith_iff (body : World σ → Nat → Nat × List Nat → Except Err Unit) (W : World σ) (a : Nat) :
    verifyWith body W a = .ok () ↔
      W.vIrs = true ∧ ∃ d ra r tis, W.irs.identity a = some d ∧ W.vCti = some ra ∧ W.regs ra = some r ∧
        getClaimTopicsAndIssuers r = .ok tis ∧ ∀ ti ∈ tis, body W d ti = .ok () := by
  unfold verifyWith
  cases hv : W.vIrs with
  | false => simp
  | true =>
    simp only [Bool.not_true, Bool.false_eq_true, if_false, true_and]
    unfold storedIdentity
    cases hd : W.irs.identity a with
    | none =>
      simp only [ofOpt]
      refine ⟨fun h => (by cases h), ?_⟩
      rintro ⟨d', ra', r', tis', h1, _⟩
      cases h1
    | some d =>
      simp only [ofOpt]
      cases hc : W.vCti with
      | none =>
        simp only
        refine ⟨fun h => (by cases h), ?_⟩
        rintro ⟨d', ra', r', tis', _, h2, _⟩
        cases h2
      | some ra =>
        simp only
        cases hr : W.regs ra with
        | none =>
          simp only
          refine ⟨fun h => (by cases h), ?_⟩
          rintro ⟨d', ra', r', tis', _, h2, h3, _⟩
          injection h2 with h2; subst h2
          rw [hr] at h3; cases h3
        | some r =>
          simp only
          cases hg : getClaimTopicsAndIssuers r with
          | error e =>
            simp only
            refine ⟨fun h => (by cases h), ?_⟩
            rintro ⟨d', ra', r', tis', _, h2, h3, h4, _⟩
            injection h2 with h2; subst h2
            rw [hr] at h3; injection h3 with h3; subst h3
            rw [hg] at h4; cases h4
          | ok tis =>
            simp only
            rw [forAllOk_iff]
            constructor
            · intro h; exact ⟨d, ra, r, tis, rfl, rfl, hr, hg, h⟩
            · rintro ⟨d', ra', r', tis', h1, h2, h3, h4, h5⟩
              injection h1 with h1; subst h1
              injection h2 with h2; subst h2
              rw [hr] at h3; injection h3 with h3; subst h3
              rw [hg] at h4; injection h4 with h4; subst h4
              exact h5

/-! ### identity stores -/

theorem wf_empty : (IdStore.empty : IdStore σ).WF := by
  intro t id h; cases h

theorem lib_empty : (IdStore.empty : IdStore σ).Lib := by
  intro i t c h; cases h

theorem wf_storeClaim {st : IdStore σ} (c : Claim σ) (h : st.WF) : (storeClaim st c).WF := by
  unfold storeClaim
  by_cases hs : (st.claim c.issuer c.topic).isSome = true
  · rw [if_pos hs]
    intro t id hid
    have := h t id hid
    refine ⟨this.1, ?_⟩
    show (upd2 st.claim c.issuer c.topic (some c) id.1 id.2).isSome = true
    by_cases e : id.1 = c.issuer ∧ id.2 = c.topic
    · rw [e.1, e.2, upd2_eq]; rfl
    · rw [upd2_ne _ _ _ _ _ _ e]; exact this.2
  · rw [if_neg hs]
    intro t id hid
    unfold indexAdd at hid
    simp only [upd] at hid
    show _ ∧ (upd2 st.claim c.issuer c.topic (some c) id.1 id.2).isSome = true
    by_cases ht : t = c.topic
    · rw [if_pos ht] at hid
      rcases List.mem_append.mp hid with hid | hid
      · have := h c.topic id hid
        refine ⟨by rw [ht]; exact this.1, ?_⟩
        by_cases e : id.1 = c.issuer ∧ id.2 = c.topic
        · rw [e.1, e.2, upd2_eq]; rfl
        · rw [upd2_ne _ _ _ _ _ _ e]; exact this.2
      · have : id = (c.issuer, c.topic) := by simpa using hid
        subst this
        exact ⟨ht.symm, by rw [upd2_eq]; rfl⟩
    · rw [if_neg ht] at hid
      have := h t id hid
      refine ⟨this.1, ?_⟩
      by_cases e : id.1 = c.issuer ∧ id.2 = c.topic
      · rw [e.1, e.2, upd2_eq]; rfl
      · rw [upd2_ne _ _ _ _ _ _ e]; exact this.2

theorem lib_storeClaim {st : IdStore σ} (c : Claim σ) (h : st.Lib) : (storeClaim st c).Lib := by
  have key : ∀ i t c', upd2 st.claim c.issuer c.topic (some c) i t = some c' → c'.topic = t ∧ c'.issuer = i := by
    intro i t c' hc
    by_cases e : i = c.issuer ∧ t = c.topic
    · rw [e.1, e.2, upd2_eq] at hc; injection hc with hc; subst hc; exact ⟨e.2.symm, e.1.symm⟩
    · rw [upd2_ne _ _ _ _ _ _ e] at hc; exact h i t c' hc
  unfold storeClaim
  by_cases hs : (st.claim c.issuer c.topic).isSome = true
  · rw [if_pos hs]; exact key
  · rw [if_neg hs]; exact key

theorem mem_indexRemove {st : IdStore σ} {topic : Nat} {id0 id : Nat × Nat} {t : Nat}
    (h : id ∈ (indexRemove st topic id0).byTopic t) : id ∈ st.byTopic t := by
  unfold indexRemove at h
  by_cases hc : (st.byTopic topic).contains id0 = true
  · rw [if_pos hc] at h
    simp only [upd] at h
    by_cases ht : t = topic
    · rw [if_pos ht] at h; rw [ht]; exact List.mem_of_mem_erase h
    · rw [if_neg ht] at h; exact h
  · rw [if_neg hc] at h; exact h

theorem indexRemove_claim (st : IdStore σ) (topic : Nat) (id0 : Nat × Nat) :
    (indexRemove st topic id0).claim = st.claim := by
  unfold indexRemove; split <;> rfl

/-- after `indexRemove` under the id's own topic of a store whose index lists are duplicate-free
the id is gone from that index -/
theorem not_mem_indexRemove {st : IdStore σ} {id0 : Nat × Nat} {t : Nat}
    (hn : (st.byTopic t).Nodup) : id0 ∉ (indexRemove st t id0).byTopic t := by
  unfold indexRemove
  by_cases hc : (st.byTopic t).contains id0 = true
  · rw [if_pos hc]
    simp only [upd, if_true]
    intro h
    exact (List.Nodup.mem_erase_iff hn).mp h |>.1 rfl
  · rw [if_neg hc]
    intro h; exact hc (List.contains_iff_mem.mpr h)

/-- index lists are duplicate-free (needed for removal to remove the only occurrence) -/
def IdStore.IdxNodup (st : IdStore σ) : Prop := ∀ t, (st.byTopic t).Nodup

theorem idxNodup_empty : (IdStore.empty : IdStore σ).IdxNodup := fun _ => List.nodup_nil

theorem idxNodup_indexRemove {st : IdStore σ} (topic : Nat) (id0 : Nat × Nat) (h : st.IdxNodup) :
    (indexRemove st topic id0).IdxNodup := by
  intro t
  unfold indexRemove
  by_cases hc : (st.byTopic topic).contains id0 = true
  · rw [if_pos hc]
    simp only [upd]
    by_cases ht : t = topic
    · rw [if_pos ht]; exact (h topic).erase _
    · rw [if_neg ht]; exact h t
  · rw [if_neg hc]; exact h t

theorem idxNodup_storeClaim {st : IdStore σ} (c : Claim σ) (hw : st.WF) (h : st.IdxNodup) :
    (storeClaim st c).IdxNodup := by
  unfold storeClaim
  by_cases hs : (st.claim c.issuer c.topic).isSome = true
  · rw [if_pos hs]; exact h
  · rw [if_neg hs]
    intro t
    unfold indexAdd
    simp only [upd]
    by_cases ht : t = c.topic
    · rw [if_pos ht]
      apply nodup_snoc' (h c.topic)
      intro hm
      have := (hw c.topic _ hm).2
      exact hs this
    · rw [if_neg ht]; exact h t
where
  nodup_snoc' {l : List (Nat × Nat)} {a : Nat × Nat} (h : l.Nodup) (ha : a ∉ l) : (l ++ [a]).Nodup := by
    rw [List.nodup_append]
    refine ⟨h, by simp, ?_⟩
    intro x hx y hy
    have : y = a := by simpa using hy
    subst this
    intro e; subst e; exact ha hx

/-- `remove_claim` keeps a store well-formed when the removed claim carries the topic of its id
(always so for claims stored by `add_claim`) -/
theorem wf_removeClaim {st st' : IdStore σ} {ci ct : Nat} (hw : st.WF) (hn : st.IdxNodup)
    (htop : ∀ c, st.claim ci ct = some c → c.topic = ct)
    (e : removeClaimSt st ci ct = .ok st') : st'.WF ∧ st'.IdxNodup := by
  unfold removeClaimSt at e
  cases hc : st.claim ci ct with
  | none => rw [hc] at e; cases e
  | some c =>
    rw [hc] at e
    simp only at e
    injection e with e
    subst e
    rw [htop c hc]
    refine ⟨?_, idxNodup_indexRemove (st := { st with claim := upd2 st.claim ci ct none }) ct (ci, ct) hn⟩
    intro t id hid
    have hid' := mem_indexRemove hid
    have hw' := hw t id hid'
    refine ⟨hw'.1, ?_⟩
    rw [indexRemove_claim]
    show (upd2 st.claim ci ct none id.1 id.2).isSome = true
    by_cases eq : id.1 = ci ∧ id.2 = ct
    · exfalso
      have : id = (ci, ct) := by cases id; simp at eq; simp [eq]
      subst this
      have htt : t = ct := hw'.1.symm
      subst htt
      exact not_mem_indexRemove (st := { st with claim := upd2 st.claim ci t none }) (hn t) hid
    · rw [upd2_ne _ _ _ _ _ _ eq]; exact hw'.2

theorem lib_removeClaim {st st' : IdStore σ} {ci ct : Nat} (hl : st.Lib)
    (e : removeClaimSt st ci ct = .ok st') : st'.Lib := by
  unfold removeClaimSt at e
  cases hc : st.claim ci ct with
  | none => rw [hc] at e; cases e
  | some c =>
    rw [hc] at e
    simp only at e
    injection e with e
    subst e
    intro i t c' hc'
    rw [indexRemove_claim] at hc'
    dsimp only at hc'
    by_cases eq : i = ci ∧ t = ct
    · rw [eq.1, eq.2] at hc'
      have : upd2 st.claim ci ct none ci ct = none := upd2_eq ..
      rw [this] at hc'; cases hc'
    · have : upd2 st.claim ci ct none i t = st.claim i t := upd2_ne _ _ _ _ _ _ eq
      rw [this] at hc'; exact hl i t c' hc'

def okB {ε α : Type} : Except ε α → Bool
  | .ok _ => true
  | .error _ => false

/-- the harness's raw entry points keep the store well-formed (they index under the id's topic) -/
theorem wf_rawPut {st : IdStore σ} (ci ct : Nat) (c : Claim σ) (h : st.WF) : (rawPutSt st ci ct c).WF := by
  unfold rawPutSt
  have key : ∀ t id, id ∈ st.byTopic t → id.2 = t ∧ (upd2 st.claim ci ct (some c) id.1 id.2).isSome = true := by
    intro t id hid
    have := h t id hid
    refine ⟨this.1, ?_⟩
    by_cases e : id.1 = ci ∧ id.2 = ct
    · rw [e.1, e.2, upd2_eq]; rfl
    · rw [upd2_ne _ _ _ _ _ _ e]; exact this.2
  by_cases hc : (st.byTopic ct).contains (ci, ct) = true
  · rw [if_pos hc]; exact key
  · rw [if_neg hc]
    intro t id hid
    unfold indexAdd at hid
    simp only [upd] at hid
    by_cases ht : t = ct
    · rw [if_pos ht] at hid
      rcases List.mem_append.mp hid with hid | hid
      · have := key ct id hid; exact ⟨by rw [ht]; exact this.1, this.2⟩
      · have : id = (ci, ct) := by simpa using hid
        subst this
        exact ⟨ht.symm, by show (upd2 st.claim ci ct (some c) ci ct).isSome = true; rw [upd2_eq]; rfl⟩
    · rw [if_neg ht] at hid; exact key t id hid

theorem idxNodup_rawPut {st : IdStore σ} (ci ct : Nat) (c : Claim σ) (h : st.IdxNodup) :
    (rawPutSt st ci ct c).IdxNodup := by
  unfold rawPutSt
  by_cases hc : (st.byTopic ct).contains (ci, ct) = true
  · rw [if_pos hc]; exact h
  · rw [if_neg hc]
    intro t
    unfold indexAdd
    simp only [upd]
    by_cases ht : t = ct
    · rw [if_pos ht]
      apply idxNodup_storeClaim.nodup_snoc' (h ct)
      intro hm; exact hc (List.contains_iff_mem.mpr hm)
    · rw [if_neg ht]; exact h t

theorem wf_rawDel {st : IdStore σ} (ci ct : Nat) (h : st.WF) (hn : st.IdxNodup) :
    (rawDelSt st ci ct).WF ∧ (rawDelSt st ci ct).IdxNodup := by
  unfold rawDelSt
  refine ⟨?_, idxNodup_indexRemove (st := { st with claim := upd2 st.claim ci ct none }) ct (ci, ct) hn⟩
  intro t id hid
  have hid' := mem_indexRemove hid
  have hw' := h t id hid'
  refine ⟨hw'.1, ?_⟩
  rw [indexRemove_claim]
  show (upd2 st.claim ci ct none id.1 id.2).isSome = true
  by_cases eq : id.1 = ci ∧ id.2 = ct
  · exfalso
    have : id = (ci, ct) := by cases id; simp at eq; simp [eq]
    subst this
    have htt : t = ct := hw'.1.symm
    subst htt
    exact not_mem_indexRemove (st := { st with claim := upd2 st.claim ci t none }) (hn t) hid
  · rw [upd2_ne _ _ _ _ _ _ eq]; exact hw'.2

/-! ### the whole stack: invariant of every reachable world -/

/-- every registry satisfies the registry invariant, every identity store is well-formed -/
structure WorldInv (W : World σ) : Prop where
  regs : ∀ ra r, W.regs ra = some r → r.Inv
  ids : ∀ d st, W.ids d = some st → st.WF ∧ st.IdxNodup

/-- side condition on histories: the library's `remove_claim` is only used on claims that carry the
topic of the id they are stored under (all claims stored by `add_claim` do; the condition only
restricts identity contracts that also write claims by other means) -/
def Op.safe (W : World σ) : Op σ → Prop
  | .removeClaim d ci ct => ∀ st c, W.ids d = some st → st.claim ci ct = some c → c.topic = ct
  | _ => True

theorem onReg_unpack {W W' : World σ} {ra : Nat} {f : Reg → Except Err Reg} (e : onReg W ra f = .ok W') :
    ∃ r r', W.regs ra = some r ∧ f r = .ok r' ∧ W' = { W with regs := upd W.regs ra (some r') } := by
  unfold onReg at e
  cases hr : W.regs ra with
  | none => rw [hr] at e; cases e
  | some r =>
    rw [hr] at e; simp only at e
    cases hf : f r with
    | error x => rw [hf] at e; cases e
    | ok r' => rw [hf] at e; injection e with e; exact ⟨r, r', rfl, hf, e.symm⟩

theorem onIrs_unpack {W W' : World σ} {f : Irs → Except Err Irs} (e : onIrs W f = .ok W') :
    ∃ s, f W.irs = .ok s ∧ W' = { W with irs := s } := by
  unfold onIrs at e
  cases hf : f W.irs with
  | error x => rw [hf] at e; cases e
  | ok s => rw [hf] at e; injection e with e; exact ⟨s, rfl, e.symm⟩

theorem onId_unpack {W W' : World σ} {d : Nat} {f : IdStore σ → Except Err (IdStore σ)}
    (e : onId W d f = .ok W') :
    ∃ st st', W.ids d = some st ∧ f st = .ok st' ∧ W' = { W with ids := upd W.ids d (some st') } := by
  unfold onId at e
  cases hr : W.ids d with
  | none => rw [hr] at e; cases e
  | some st =>
    rw [hr] at e; simp only at e
    cases hf : f st with
    | error x => rw [hf] at e; cases e
    | ok st' => rw [hf] at e; injection e with e; exact ⟨st, st', rfl, hf, e.symm⟩

theorem onIssuer_unpack {W W' : World σ} {i : Nat} {f : Issuer → Except Err Issuer}
    (e : onIssuer W i f = .ok W') :
    ∃ s s', W.issuers i = some s ∧ f s = .ok s' ∧ W' = { W with issuers := upd W.issuers i (some s') } := by
  unfold onIssuer at e
  cases hr : W.issuers i with
  | none => rw [hr] at e; cases e
  | some s =>
    rw [hr] at e; simp only at e
    cases hf : f s with
    | error x => rw [hf] at e; cases e
    | ok s' => rw [hf] at e; injection e with e; exact ⟨s, s', rfl, hf, e.symm⟩

theorem worldInv_setId {W : World σ} {d : Nat} {st' : IdStore σ} (h : WorldInv W)
    (h' : st'.WF ∧ st'.IdxNodup) : WorldInv { W with ids := upd W.ids d (some st') } := by
  refine ⟨h.regs, ?_⟩
  intro d' st hst
  dsimp only at hst
  by_cases e : d' = d
  · subst e
    rw [upd_eq] at hst
    injection hst with hst; subst hst; exact h'
  · rw [upd_ne _ _ _ _ e] at hst
    exact h.ids d' st hst

theorem worldInv_applyOp (V : Verifier σ) {W W' : World σ} (op : Op σ) (h : WorldInv W) (hs : op.safe W)
    (e : applyOp V W op = .ok W') : WorldInv W' := by
  cases op with
  | reg ra rop =>
    simp only [applyOp] at e
    obtain ⟨r, r', hr, hf, rfl⟩ := onReg_unpack e
    refine ⟨?_, h.ids⟩
    intro ra' r'' hr''
    dsimp only at hr''
    by_cases eq : ra' = ra
    · subst eq
      rw [upd_eq] at hr''
      injection hr'' with hr''; subst hr''
      exact inv_apply rop (h.regs _ _ hr) hf
    · rw [upd_ne _ _ _ _ eq] at hr''
      exact h.regs _ _ hr''
  | irsAdd a d => simp only [applyOp] at e; obtain ⟨s, _, rfl⟩ := onIrs_unpack e; exact ⟨h.regs, h.ids⟩
  | irsModify a d => simp only [applyOp] at e; obtain ⟨s, _, rfl⟩ := onIrs_unpack e; exact ⟨h.regs, h.ids⟩
  | irsRemove a => simp only [applyOp] at e; obtain ⟨s, _, rfl⟩ := onIrs_unpack e; exact ⟨h.regs, h.ids⟩
  | irsRecover a b => simp only [applyOp] at e; obtain ⟨s, _, rfl⟩ := onIrs_unpack e; exact ⟨h.regs, h.ids⟩
  | addClaim d c =>
    simp only [applyOp] at e
    unfold addClaim at e
    cases hst : W.ids d with
    | none => rw [hst] at e; cases e
    | some st =>
      rw [hst] at e; simp only at e
      split at e
      · injection e with e; subst e
        have := h.ids d st hst
        exact worldInv_setId h ⟨wf_storeClaim c this.1, idxNodup_storeClaim c this.1 this.2⟩
      · cases e
  | removeClaim d ci ct =>
    simp only [applyOp] at e
    obtain ⟨st, st', hst, hf, rfl⟩ := onId_unpack e
    have := h.ids d st hst
    exact worldInv_setId h (wf_removeClaim this.1 this.2 (fun c hc => hs st c hst hc) hf)
  | rawPut d ci ct c =>
    simp only [applyOp] at e
    obtain ⟨st, st', hst, hf, rfl⟩ := onId_unpack e
    injection hf with hf; subst hf
    have := h.ids d st hst
    exact worldInv_setId h ⟨wf_rawPut ci ct c this.1, idxNodup_rawPut ci ct c this.2⟩
  | rawDel d ci ct =>
    simp only [applyOp] at e
    obtain ⟨st, st', hst, hf, rfl⟩ := onId_unpack e
    injection hf with hf; subst hf
    have := h.ids d st hst
    exact worldInv_setId h (wf_rawDel ci ct this.1 this.2)
  | allowKey i pk sc ra t => simp only [applyOp] at e; obtain ⟨s, s', _, _, rfl⟩ := onIssuer_unpack e; exact ⟨h.regs, h.ids⟩
  | removeKey i pk sc ra t => simp only [applyOp] at e; obtain ⟨s, s', _, _, rfl⟩ := onIssuer_unpack e; exact ⟨h.regs, h.ids⟩
  | invalidate i d t => simp only [applyOp] at e; obtain ⟨s, s', _, _, rfl⟩ := onIssuer_unpack e; exact ⟨h.regs, h.ids⟩
  | revoke i d t data rv => simp only [applyOp] at e; obtain ⟨s, s', _, _, rfl⟩ := onIssuer_unpack e; exact ⟨h.regs, h.ids⟩
  | setCti ra => simp only [applyOp] at e; injection e with e; subst e; exact ⟨h.regs, h.ids⟩
  | setIrs => simp only [applyOp] at e; injection e with e; subst e; exact ⟨h.regs, h.ids⟩
  | time ts => simp only [applyOp] at e; injection e with e; subst e; exact ⟨h.regs, h.ids⟩
  | valid i d t sc sd data =>
    simp only [applyOp] at e
    split at e
    · injection e with e; subst e; exact h
    · cases e
  | verify a =>
    simp only [applyOp] at e
    split at e
    · injection e with e; subst e; exact h
    · cases e

/-- worlds reachable from `W0` by any finite history of accepted operations (rejected ones are
rolled back by the host and leave no trace) -/
inductive Reach (V : Verifier σ) (W0 : World σ) : World σ → Prop where
  | init : Reach V W0 W0
  | step {W W' : World σ} (op : Op σ) : Reach V W0 W → op.safe W → applyOp V W op = .ok W' → Reach V W0 W'

theorem reach_inv (V : Verifier σ) {W0 W : World σ} (h0 : WorldInv W0) (hr : Reach V W0 W) : WorldInv W := by
  induction hr with
  | init => exact h0
  | step op _ hs e ih => exact worldInv_applyOp V op ih hs e

/-- a freshly deployed stack: every registry and every identity store empty -/
def World.Fresh (W : World σ) : Prop :=
  (∀ ra r, W.regs ra = some r → r = Reg.empty) ∧ (∀ d st, W.ids d = some st → st = IdStore.empty)

theorem worldInv_fresh {W : World σ} (h : W.Fresh) : WorldInv W := by
  refine ⟨fun ra r hr => ?_, fun d st hst => ?_⟩
  · rw [h.1 ra r hr]; exact inv_empty
  · rw [h.2 d st hst]; exact ⟨wf_empty, idxNodup_empty⟩

end OZ.Identity
