import OZ.Model.Timelock
/-
Helper lemmas for the timelock model: exact descriptions of accepted calls, the coherence
invariant between the stored ledgers and the ghost log, and its preservation.
-/
namespace OZ.Timelock
open OZ.Host

theorem updId_same (f : Id → Nat) (a : Id) (v : Nat) : updId f a v a = v := by simp [updId]
theorem updId_other (f : Id → Nat) (a x : Id) (v : Nat) (h : x ≠ a) : updId f a v x = f x := by
  simp [updId, h]

/-! ### `stateOf` -/

theorem stateOf_unset {v now : Nat} : stateOf v now = .unset ↔ v = 0 := by
  unfold stateOf UNSET_LEDGER DONE_LEDGER
  by_cases h0 : v = 0
  · simp [h0]
  · by_cases h1 : v = 1
    · simp [h1]
    · by_cases h2 : v > now <;> simp [h0, h1, h2]

theorem stateOf_done {v now : Nat} : stateOf v now = .done ↔ v = 1 := by
  unfold stateOf UNSET_LEDGER DONE_LEDGER
  by_cases h0 : v = 0
  · simp [h0]
  · by_cases h1 : v = 1
    · simp [h1]
    · by_cases h2 : v > now <;> simp [h0, h1, h2]

theorem stateOf_ready {v now : Nat} : stateOf v now = .ready ↔ 2 ≤ v ∧ v ≤ now := by
  unfold stateOf UNSET_LEDGER DONE_LEDGER
  by_cases h0 : v = 0
  · simp [h0]
  · by_cases h1 : v = 1
    · simp [h1]
    · by_cases h2 : v > now
      · simp [h0, h1, h2] <;> omega
      · simp [h0, h1, h2] <;> omega

theorem stateOf_waiting {v now : Nat} : stateOf v now = .waiting ↔ 2 ≤ v ∧ now < v := by
  unfold stateOf UNSET_LEDGER DONE_LEDGER
  by_cases h0 : v = 0
  · simp [h0]
  · by_cases h1 : v = 1
    · simp [h1]
    · by_cases h2 : v > now
      · simp [h0, h1, h2] <;> omega
      · simp [h0, h1, h2] <;> omega

theorem satAdd_ge (a b : Nat) (ha : a ≤ U32_MAX) : a ≤ satAdd a b := by
  unfold satAdd; split <;> omega

theorem satAdd_le (a b : Nat) : satAdd a b ≤ U32_MAX := by
  unfold satAdd; split <;> omega

/-- the stored ready ledger is below `now` exactly when the delay has elapsed -/
theorem satAdd_le_iff_elapsed {l d now : Nat} (hn : now ≤ U32_MAX) :
    satAdd l d ≤ now ↔ elapsed l d now := by
  unfold satAdd elapsed
  split <;> constructor <;> intro h <;> omega

/-! ### exact descriptions of accepted calls -/

theorem schedule_ok {s s' : State} {op : Operation} {d : Nat} (h : schedule s op d = .ok s') :
    ∃ m, s.minDelay = some m ∧ m ≤ d ∧ s.ledger op.id = 0 ∧
      s' = { s with ledger := updId s.ledger op.id (satAdd s.now d),
                    log := .sched op.id s.now d m :: s.log } := by
  unfold schedule at h
  split at h
  · cases h
  · rename_i hex
    have h0 : s.ledger op.id = 0 := by
      have : getOperationState s op.id = .unset := by
        unfold operationExists at hex
        simpa using hex
      exact stateOf_unset.mp this
    have hx : ∃ m, s.minDelay = some m ∧ scheduleWith s op d m = .ok s' := by
      unfold getMinDelay at h
      cases hm : s.minDelay with
      | none => rw [hm] at h; cases h
      | some m => rw [hm] at h; exact ⟨m, rfl, h⟩
    obtain ⟨m, hm, h⟩ := hx
    unfold scheduleWith at h
    split at h
    · cases h
    · rename_i hd
      injection h with h
      exact ⟨m, hm, by omega, h0, h.symm⟩

theorem setExecute_ok {s s' : State} {op : Operation} (h : setExecute s op = .ok s') :
    2 ≤ s.ledger op.id ∧ s.ledger op.id ≤ s.now ∧ (op.pred = Id.zero ∨ s.ledger op.pred = 1) ∧
      s' = { s with ledger := updId s.ledger op.id DONE_LEDGER,
                    log := .exec op.id s.now :: s.log } := by
  unfold setExecute at h
  split at h
  · cases h
  · rename_i hr
    split at h
    · cases h
    · rename_i hp
      injection h with h
      have hr' : getOperationState s op.id = .ready := by
        unfold isOperationReady at hr
        simpa using hr
      obtain ⟨h2, hn⟩ := stateOf_ready.mp hr'
      refine ⟨h2, hn, ?_, h.symm⟩
      by_cases hz : op.pred = Id.zero
      · exact Or.inl hz
      · right
        have : getOperationState s op.pred = .done := by
          unfold isOperationDone at hp
          simp [hz] at hp
          exact hp
        exact stateOf_done.mp this

theorem cancel_ok {s s' : State} {id : Id} (h : cancel s id = .ok s') :
    2 ≤ s.ledger id ∧
      s' = { s with ledger := updId s.ledger id UNSET_LEDGER, log := .cancel id s.now :: s.log } := by
  unfold cancel at h
  split at h
  · cases h
  · rename_i hp
    injection h with h
    refine ⟨?_, h.symm⟩
    unfold isOperationPending at hp
    by_cases hw : getOperationState s id = .waiting
    · exact (stateOf_waiting.mp hw).1
    · have hr : getOperationState s id = .ready := by simpa [hw] using hp
      exact (stateOf_ready.mp hr).1

theorem execute_ok {s s' : State} {op : Operation} {ok : Bool} (h : execute s op ok = .ok s') :
    ∃ s1, setExecute s op = .ok s1 ∧ ok = true ∧
      s' = { s1 with calls := (op.target, op.fn, op.args) :: s1.calls } := by
  unfold execute at h
  cases h1 : setExecute s op with
  | error e => rw [h1] at h; cases h
  | ok s1 =>
    rw [h1] at h
    simp only at h
    unfold invokeTarget at h
    split at h
    · rename_i hok
      injection h with h
      exact ⟨s1, rfl, hok, h.symm⟩
    · cases h

theorem advance_ok {s s' : State} {n : Nat} (h : advance s n = .ok s') :
    s.now + n ≤ U32_MAX ∧ s' = { s with now := s.now + n } := by
  unfold advance at h
  split at h
  · cases h
  · injection h with h; exact ⟨by omega, h.symm⟩

/-! ### ghost log -/

theorem ghost_sched_same (i : Id) (l d m : Nat) (rest : List Ev) :
    ghost (.sched i l d m :: rest) i = .pending l d m := by simp [ghost]
theorem ghost_cancel_same (i : Id) (l : Nat) (rest : List Ev) :
    ghost (.cancel i l :: rest) i = .unset := by simp [ghost]
theorem ghost_exec_same (i : Id) (l : Nat) (rest : List Ev) :
    ghost (.exec i l :: rest) i = .done := by simp [ghost]
theorem ghost_other (e : Ev) (rest : List Ev) (id : Id) (h : e.id ≠ id) :
    ghost (e :: rest) id = ghost rest id := by
  cases e <;> simp [ghost, Ev.id] at * <;> simp [h]

theorem execCount_exec_same (i : Id) (l : Nat) (rest : List Ev) :
    execCount (.exec i l :: rest) i = 1 + execCount rest i := by simp [execCount]
theorem execCount_other (e : Ev) (rest : List Ev) (id : Id) (h : e.id ≠ id) :
    execCount (e :: rest) id = execCount rest id := by
  cases e <;> simp [execCount, Ev.id] at * <;> simp [h]
theorem execCount_sched (i : Id) (l d m : Nat) (rest : List Ev) (id : Id) :
    execCount (.sched i l d m :: rest) id = execCount rest id := by simp [execCount]
theorem execCount_cancel (i : Id) (l : Nat) (rest : List Ev) (id : Id) :
    execCount (.cancel i l :: rest) id = execCount rest id := by simp [execCount]

/-- a pending reading of the log pins down the schedule entry and says that nothing about
this id was accepted after it -/
theorem ghost_pending_split {log : List Ev} {id : Id} {l d m : Nat}
    (h : ghost log id = .pending l d m) :
    ∃ newer older, log = newer ++ Ev.sched id l d m :: older ∧ ∀ e ∈ newer, e.id ≠ id := by
  induction log with
  | nil => simp [ghost] at h
  | cons e rest ih =>
    by_cases he : e.id = id
    · cases e with
      | sched i l' d' m' =>
        simp only [Ev.id] at he; subst he
        rw [ghost_sched_same] at h
        injection h with h1 h2 h3; subst h1; subst h2; subst h3
        exact ⟨[], rest, rfl, by intro e he; cases he⟩
      | cancel i l' => simp only [Ev.id] at he; subst he; rw [ghost_cancel_same] at h; cases h
      | exec i l' => simp only [Ev.id] at he; subst he; rw [ghost_exec_same] at h; cases h
    · rw [ghost_other e rest id he] at h
      obtain ⟨newer, older, hl, hn⟩ := ih h
      refine ⟨e :: newer, older, by rw [hl]; rfl, ?_⟩
      intro x hx
      cases hx with
      | head => exact he
      | tail _ hx' => exact hn x hx'

theorem execCount_zero_iff {log : List Ev} {id : Id} :
    execCount log id = 0 ↔ ∀ l, Ev.exec id l ∉ log := by
  induction log with
  | nil => simp [execCount]
  | cons e rest ih =>
    cases e with
    | sched i l d m => rw [execCount_sched]; simp [ih]
    | cancel i l => rw [execCount_cancel]; simp [ih]
    | exec i l =>
      by_cases hi : i = id
      · subst hi
        rw [execCount_exec_same]
        constructor
        · intro h; omega
        · intro h; exact absurd (List.mem_cons_self) (h l)
      · rw [execCount_other _ _ _ (by simpa [Ev.id] using hi)]
        rw [ih]
        constructor
        · intro h l' hm
          cases hm with
          | head => exact hi rfl
          | tail _ hm' => exact h l' hm'
        · intro h l' hm; exact h l' (List.mem_cons_of_mem _ hm)

/-! ### the invariant -/

/-- the stored ledger value `v` of an id agrees with what the ghost log says about it -/
def Coh (g : Ghost) (v now : Nat) : Prop :=
  match g with
  | .unset => v = 0
  | .done => v = 1
  | .pending l d m => v = satAdd l d ∧ m ≤ d ∧ 2 ≤ l ∧ l ≤ now

/-- the regime of the property (ledger sequence ≥ 2, a `u32`), stored ledgers cohere with
the ghost log, and an id is marked done iff the log holds exactly one execution of it -/
structure Inv (s : State) : Prop where
  nowLo : 2 ≤ s.now
  nowHi : s.now ≤ U32_MAX
  coh : ∀ id, Coh (ghost s.log id) (s.ledger id) s.now
  cnt : ∀ id, execCount s.log id = if s.ledger id = 1 then 1 else 0

theorem cnt_congr {c v w : Nat} (h : c = if v = 1 then 1 else 0) (e : w = 1 ↔ v = 1) :
    c = if w = 1 then 1 else 0 := by
  by_cases hv : v = 1
  · rw [if_pos hv] at h; rw [if_pos (e.mpr hv)]; exact h
  · rw [if_neg hv] at h; rw [if_neg (fun x => hv (e.mp x))]; exact h

theorem Coh.mono {g : Ghost} {v now now' : Nat} (h : Coh g v now) (hn : now ≤ now') : Coh g v now' := by
  cases g with
  | unset => exact h
  | done => exact h
  | pending l d m => obtain ⟨a, b, c, e⟩ := h; exact ⟨a, b, c, by omega⟩

theorem init_inv {now : Nat} (h2 : 2 ≤ now) (hm : now ≤ U32_MAX) : Inv (init now) :=
  ⟨h2, hm, fun _ => rfl, fun _ => by simp [init, execCount, UNSET_LEDGER]⟩

/-- under coherence the stored value is read back from the log -/
theorem Coh.ledger_ge_two {g : Ghost} {v now : Nat} (h : Coh g v now) (hv : 2 ≤ v) :
    ∃ l d m, g = .pending l d m ∧ v = satAdd l d ∧ m ≤ d ∧ 2 ≤ l ∧ l ≤ now := by
  cases g with
  | unset => simp [Coh] at h; omega
  | done => simp [Coh] at h; omega
  | pending l d m => exact ⟨l, d, m, rfl, h⟩

theorem Coh.of_one {g : Ghost} {v now : Nat} (h : Coh g v now) (hn : now ≤ U32_MAX) (hv : v = 1) :
    g = .done := by
  cases g with
  | unset => simp [Coh] at h; omega
  | done => rfl
  | pending l d m =>
    obtain ⟨a, _, c, e⟩ := h
    have := satAdd_ge l d (by omega)
    omega

theorem schedule_inv {s s' : State} (hi : Inv s) {op : Operation} {d : Nat}
    (h : schedule s op d = .ok s') : Inv s' := by
  obtain ⟨m, hm, hmd, h0, rfl⟩ := schedule_ok h
  have hge := satAdd_ge s.now d hi.nowHi
  have h2 := hi.nowLo
  refine ⟨hi.nowLo, hi.nowHi, ?_, ?_⟩
  · intro id
    by_cases hid : id = op.id
    · subst hid
      simp only [ghost_sched_same, updId_same]
      exact ⟨rfl, hmd, hi.nowLo, Nat.le_refl _⟩
    · simp only []
      rw [ghost_other _ _ _ (by simpa [Ev.id] using Ne.symm hid), updId_other _ _ _ _ hid]
      exact hi.coh id
  · intro id
    simp only [execCount_sched]
    by_cases hid : id = op.id
    · subst hid
      refine cnt_congr (hi.cnt op.id) ?_
      show updId s.ledger op.id (satAdd s.now d) op.id = 1 ↔ _
      rw [updId_same, h0]; omega
    · refine cnt_congr (hi.cnt id) ?_
      show updId s.ledger op.id (satAdd s.now d) id = 1 ↔ _
      rw [updId_other _ _ _ _ hid]

theorem setExecute_inv {s s' : State} (hi : Inv s) {op : Operation}
    (h : setExecute s op = .ok s') : Inv s' := by
  obtain ⟨h2, hn, _, rfl⟩ := setExecute_ok h
  refine ⟨hi.nowLo, hi.nowHi, ?_, ?_⟩
  · intro id
    by_cases hid : id = op.id
    · subst hid
      simp only [ghost_exec_same, updId_same]
      rfl
    · simp only []
      rw [ghost_other _ _ _ (by simpa [Ev.id] using Ne.symm hid), updId_other _ _ _ _ hid]
      exact hi.coh id
  · intro id
    by_cases hid : id = op.id
    · subst hid
      have := hi.cnt op.id
      rw [if_neg (by omega)] at this
      show execCount (.exec op.id s.now :: s.log) op.id = if updId s.ledger op.id DONE_LEDGER op.id = 1 then 1 else 0
      rw [execCount_exec_same, this, if_pos (by rw [updId_same]; rfl)]
    · show execCount (.exec op.id s.now :: s.log) id = if updId s.ledger op.id DONE_LEDGER id = 1 then 1 else 0
      rw [execCount_other _ _ _ (by simpa [Ev.id] using Ne.symm hid)]
      refine cnt_congr (hi.cnt id) ?_
      rw [updId_other _ _ _ _ hid]

theorem cancel_inv {s s' : State} (hi : Inv s) {id0 : Id}
    (h : cancel s id0 = .ok s') : Inv s' := by
  obtain ⟨h2, rfl⟩ := cancel_ok h
  refine ⟨hi.nowLo, hi.nowHi, ?_, ?_⟩
  · intro id
    by_cases hid : id = id0
    · subst hid
      simp only [ghost_cancel_same, updId_same]
      rfl
    · simp only []
      rw [ghost_other _ _ _ (by simpa [Ev.id] using Ne.symm hid), updId_other _ _ _ _ hid]
      exact hi.coh id
  · intro id
    simp only [execCount_cancel]
    by_cases hid : id = id0
    · subst hid
      refine cnt_congr (hi.cnt id) ?_
      show updId s.ledger id UNSET_LEDGER id = 1 ↔ _
      rw [updId_same, UNSET_LEDGER]; omega
    · refine cnt_congr (hi.cnt id) ?_
      show updId s.ledger id0 UNSET_LEDGER id = 1 ↔ _
      rw [updId_other _ _ _ _ hid]

theorem apply_inv {s s' : State} (hi : Inv s) {x : Op} (h : apply s x = .ok s') : Inv s' := by
  cases x with
  | schedule op d => exact schedule_inv hi h
  | setExecute op => exact setExecute_inv hi h
  | execute op ok =>
    obtain ⟨s1, h1, _, rfl⟩ := execute_ok h
    have := setExecute_inv hi h1
    exact ⟨this.nowLo, this.nowHi, this.coh, this.cnt⟩
  | cancel id => exact cancel_inv hi h
  | setMinDelay d =>
    injection h with h; subst h
    exact ⟨hi.nowLo, hi.nowHi, hi.coh, hi.cnt⟩
  | advance n =>
    obtain ⟨hn, rfl⟩ := advance_ok h
    exact ⟨by have := hi.nowLo; simp only []; omega, hn, fun id => (hi.coh id).mono (by simp only []; omega), hi.cnt⟩

theorem step_inv {s : State} (hi : Inv s) (x : Op) : Inv (step s x) := by
  unfold step
  cases h : apply s x with
  | ok s' => exact apply_inv hi h
  | error e => exact hi

theorem run_inv {s : State} (hi : Inv s) (ops : List Op) : Inv (run s ops) := by
  induction ops generalizing s with
  | nil => exact hi
  | cons x xs ih => exact ih (step_inv hi x)

theorem stateOf_ge_two {v now : Nat} (h : 2 ≤ v) :
    stateOf v now = .waiting ∨ stateOf v now = .ready := by
  by_cases hn : now < v
  · exact Or.inl (stateOf_waiting.mpr ⟨h, hn⟩)
  · exact Or.inr (stateOf_ready.mpr ⟨h, by omega⟩)

theorem satAdd_ge_two {a b : Nat} (h : 2 ≤ a) : 2 ≤ satAdd a b := by
  unfold satAdd U32_MAX; split <;> omega

/-- an id that is marked done stays marked done through any accepted call -/
theorem apply_ledger_one {s s' : State} {x : Op} {id : Id} (h1 : s.ledger id = 1)
    (h : apply s x = .ok s') : s'.ledger id = 1 := by
  cases x with
  | schedule op d =>
    obtain ⟨m, _, _, h0, rfl⟩ := schedule_ok h
    have : id ≠ op.id := by intro e; subst e; omega
    show updId s.ledger op.id _ id = 1
    rw [updId_other _ _ _ _ this]; exact h1
  | setExecute op =>
    obtain ⟨h2, _, _, rfl⟩ := setExecute_ok h
    have : id ≠ op.id := by intro e; subst e; omega
    show updId s.ledger op.id _ id = 1
    rw [updId_other _ _ _ _ this]; exact h1
  | execute op ok =>
    obtain ⟨s1, hs1, _, rfl⟩ := execute_ok h
    obtain ⟨h2, _, _, rfl⟩ := setExecute_ok hs1
    have : id ≠ op.id := by intro e; subst e; omega
    show updId s.ledger op.id _ id = 1
    rw [updId_other _ _ _ _ this]; exact h1
  | cancel i =>
    obtain ⟨h2, rfl⟩ := cancel_ok h
    have : id ≠ i := by intro e; subst e; omega
    show updId s.ledger i _ id = 1
    rw [updId_other _ _ _ _ this]; exact h1
  | setMinDelay d => injection h with h; subst h; exact h1
  | advance n => obtain ⟨_, rfl⟩ := advance_ok h; exact h1

theorem step_ledger_one {s : State} {id : Id} (h1 : s.ledger id = 1) (x : Op) :
    (step s x).ledger id = 1 := by
  unfold step
  cases h : apply s x with
  | ok s' => exact apply_ledger_one h1 h
  | error e => exact h1

theorem run_ledger_one {s : State} {id : Id} (h1 : s.ledger id = 1) (ops : List Op) :
    (run s ops).ledger id = 1 := by
  induction ops generalizing s with
  | nil => exact h1
  | cons x xs ih => exact ih (step_ledger_one h1 x)

/-- what an accepted call appends to the log -/
def logged (s : State) : Op → Option Ev
  | .schedule op d => some (.sched op.id s.now d (s.minDelay.getD 0))
  | .setExecute op => some (.exec op.id s.now)
  | .execute op _ => some (.exec op.id s.now)
  | .cancel id => some (.cancel id s.now)
  | .setMinDelay _ => none
  | .advance _ => none

/-- every accepted schedule / set_execute / execute / cancel is recorded, with the ledger of
the call, nothing else is, and a rejected call leaves the log alone -/
theorem accepted_is_logged (s : State) (x : Op) :
    (step s x).log = match apply s x, logged s x with
      | .ok _, some e => e :: s.log
      | _, _ => s.log := by
  unfold step
  cases h : apply s x with
  | error e => rfl
  | ok s' =>
    cases x with
    | schedule op d => obtain ⟨m, hm, _, _, rfl⟩ := schedule_ok h; simp [logged, hm]
    | setExecute op => obtain ⟨_, _, _, rfl⟩ := setExecute_ok h; simp [logged]
    | execute op ok =>
      obtain ⟨s1, h1, _, rfl⟩ := execute_ok h
      obtain ⟨_, _, _, rfl⟩ := setExecute_ok h1; simp [logged]
    | cancel id => obtain ⟨_, rfl⟩ := cancel_ok h; simp [logged]
    | setMinDelay d => injection h with h; subst h; simp [logged, setMinDelay]
    | advance n => obtain ⟨_, rfl⟩ := advance_ok h; simp [logged]


theorem run_append (s : State) (a b : List Op) : run s (a ++ b) = run (run s a) b := by
  unfold run; rw [List.foldl_append]

theorem run_cons (s : State) (x : Op) (xs : List Op) : run s (x :: xs) = run (step s x) xs := rfl

/-- the log only grows, at its front -/
theorem run_log_grows (s : State) (ops : List Op) : ∃ nw, (run s ops).log = nw ++ s.log := by
  induction ops generalizing s with
  | nil => exact ⟨[], rfl⟩
  | cons x xs ih =>
    obtain ⟨nw, h⟩ := ih (step s x)
    rw [run_cons, h, accepted_is_logged]
    cases apply s x with
    | error e => exact ⟨nw, rfl⟩
    | ok s1 =>
      cases logged s x with
      | none => exact ⟨nw, rfl⟩
      | some e => exact ⟨nw ++ [e], by simp⟩

/-- a position of the log is a position of the history: the entry `e` with `older` below it was
logged by an accepted call `x` made in the state whose log was exactly `older` -/
theorem log_split_history (s0 : State) (ops : List Op) (newer older : List Ev) (e : Ev)
    (h : (run s0 ops).log = newer ++ e :: older) (hlen : s0.log.length ≤ older.length) :
    ∃ pre x post s1, ops = pre ++ x :: post ∧ apply (run s0 pre) x = .ok s1 ∧
      logged (run s0 pre) x = some e ∧ (run s0 pre).log = older ∧ s1.log = e :: older ∧
      (run s1 post).log = newer ++ e :: older := by
  induction ops generalizing s0 with
  | nil =>
    have : s0.log.length = newer.length + (older.length + 1) := by
      have := congrArg List.length h
      simpa [run] using this
    omega
  | cons x xs ih =>
    rw [run_cons] at h
    by_cases hl : (step s0 x).log.length ≤ older.length
    · obtain ⟨pre, y, post, s1, hsplit, hacc, hlog, hold, hs1, hfin⟩ := ih (step s0 x) h hl
      exact ⟨x :: pre, y, post, s1, by rw [hsplit]; rfl, hacc, hlog, hold, hs1, hfin⟩
    · have hstep := accepted_is_logged s0 x
      cases ha : apply s0 x with
      | error err => rw [ha] at hstep; simp only at hstep; rw [hstep] at hl; omega
      | ok s1 =>
        rw [ha] at hstep
        cases hlg : logged s0 x with
        | none => rw [hlg] at hstep; simp only at hstep; rw [hstep] at hl; omega
        | some e' =>
          rw [hlg] at hstep
          simp only at hstep
          have hs1 : step s0 x = s1 := by unfold step; rw [ha]
          obtain ⟨nw, hnw⟩ := run_log_grows (step s0 x) xs
          rw [hnw, hstep] at h
          have hlen2 : (e' :: s0.log).length = (e :: older).length := by
            rw [hstep] at hl; simp only [List.length_cons] at hl ⊢; omega
          obtain ⟨h1, h2⟩ := List.append_inj' h hlen2
          injection h2 with h3 h4
          subst h1; subst h3; subst h4
          refine ⟨[], x, xs, s1, rfl, ha, hlg, rfl, by rw [← hs1, hstep], ?_⟩
          rw [← hs1, hnw, hstep]

/-- whatever is accepted later ends up in the newer part of the log -/
theorem accepted_later_logged (s1 : State) (post : List Op) (nw : List Ev)
    (h : (run s1 post).log = nw ++ s1.log) (p1 : List Op) (y : Op) (p2 : List Op) (s2 : State) (e' : Ev)
    (hsplit : post = p1 ++ y :: p2) (hacc : apply (run s1 p1) y = .ok s2)
    (hlog : logged (run s1 p1) y = some e') : e' ∈ nw := by
  subst hsplit
  rw [run_append, run_cons] at h
  obtain ⟨n1, h1⟩ := run_log_grows s1 p1
  obtain ⟨n2, h2⟩ := run_log_grows (step (run s1 p1) y) p2
  have hstep := accepted_is_logged (run s1 p1) y
  rw [hacc, hlog] at hstep
  simp only at hstep
  rw [h2, hstep, h1] at h
  have : n2 ++ e' :: n1 ++ s1.log = nw ++ s1.log := by simpa using h
  have := List.append_cancel_right this
  rw [← this]; simp

theorem ghost_done_mem {log : List Ev} {id : Id} (h : ghost log id = .done) :
    ∃ l, Ev.exec id l ∈ log := by
  induction log with
  | nil => simp [ghost] at h
  | cons e rest ih =>
    by_cases he : e.id = id
    · cases e with
      | sched i l d m => simp only [Ev.id] at he; subst he; rw [ghost_sched_same] at h; cases h
      | cancel i l => simp only [Ev.id] at he; subst he; rw [ghost_cancel_same] at h; cases h
      | exec i l => simp only [Ev.id] at he; subst he; exact ⟨l, List.mem_cons_self⟩
    · rw [ghost_other e rest id he] at h
      obtain ⟨l, hl⟩ := ih h
      exact ⟨l, List.mem_cons_of_mem _ hl⟩

/-- converse of `ghost_pending_split` -/
theorem ghost_of_split {log newer older : List Ev} {id : Id} {l d m : Nat}
    (h : log = newer ++ Ev.sched id l d m :: older) (hn : ∀ e ∈ newer, e.id ≠ id) :
    ghost log id = .pending l d m := by
  subst h
  induction newer with
  | nil => exact ghost_sched_same id l d m older
  | cons e rest ih =>
    show ghost (e :: (rest ++ Ev.sched id l d m :: older)) id = _
    rw [ghost_other e _ id (hn e List.mem_cons_self)]
    exact ih (fun x hx => hn x (List.mem_cons_of_mem _ hx))

end OZ.Timelock