import OZ.Lemmas.Gates
import OZ.Model.GatesStk
/-
Helper lemmas for C16, machine `stk` (OZ/Props/C16Stk.lean, OZ/Props/C16StkMon.lean): each guard of the
stacked entry points succeeds exactly when its condition holds, inversion of the entry points.
-/
namespace OZ.Gates.Stk
open OZ.Host OZ.Fungible OZ.Gates

/-- the condition of the authorization guard: the owner (admin) is set and authorized; the caller holds
the role "op" and authorized -/
def Authorized (s : Stk) (auth : List Nat) (caller : Nat) : Who → Prop
  | .owner => ∃ o, s.owner = some o ∧ o ∈ auth
  | .admin => ∃ o, s.admin = some o ∧ o ∈ auth
  | .role => s.isOp caller = true ∧ caller ∈ auth

theorem unit_ok_iff {ε} {x y : Except ε Unit} : ((x >>= fun _ => y) = .ok ()) ↔ x = .ok () ∧ y = .ok () := by
  cases x with
  | error e => exact ⟨fun h => (by cases h), fun h => (by cases h.1)⟩
  | ok a => exact ⟨fun h => ⟨rfl, h⟩, fun h => h.2⟩

theorem requireAuth_iff {auth : List Nat} {a : Nat} : requireAuth auth a = .ok () ↔ a ∈ auth := by
  unfold requireAuth
  constructor
  · intro h
    split at h
    · assumption
    · cases h
  · intro h
    rw [if_pos h]

theorem enforceAuth_iff {who : Option Nat} {auth : List Nat} :
    enforceAuth who auth = .ok () ↔ ∃ o, who = some o ∧ o ∈ auth := by
  cases who with
  | none => exact ⟨fun h => (by cases h), fun ⟨o, h, _⟩ => (by cases h)⟩
  | some o =>
    show requireAuth auth o = .ok () ↔ _
    rw [requireAuth_iff]
    exact ⟨fun h => ⟨o, rfl, h⟩, fun ⟨o', h, hm⟩ => by injection h with h; subst h; exact hm⟩

theorem ensureRole_iff {s : Stk} {c : Nat} : ensureRole s c = .ok () ↔ s.isOp c = true := by
  unfold ensureRole
  cases h : s.isOp c
  · simp
  · simp

theorem onlyRole_iff {s : Stk} {auth : List Nat} {c : Nat} :
    onlyRole s auth c = .ok () ↔ s.isOp c = true ∧ c ∈ auth := by
  unfold onlyRole
  rw [unit_ok_iff, ensureRole_iff, requireAuth_iff]

theorem authGuard_iff {s : Stk} {auth : List Nat} {c : Nat} {w : Who} :
    authGuard s auth c w = .ok () ↔ Authorized s auth c w := by
  cases w
  · exact enforceAuth_iff
  · exact enforceAuth_iff
  · exact onlyRole_iff

theorem pauseGuard_iff {s : Stk} {np : Bool} : pauseGuard s np = .ok () ↔ s.p.paused = np := by
  unfold pauseGuard whenPaused whenNotPaused
  cases np <;> cases h : s.p.paused <;> simp

/-- both guards pass exactly when both conditions hold — in either order of the attributes -/
theorem guards_iff {s : Stk} {auth : List Nat} {c : Nat} {sp : Spec} :
    s.guards auth c sp = .ok () ↔ s.p.paused = sp.needPaused ∧ Authorized s auth c sp.who := by
  unfold Stk.guards
  cases sp.authAbove
  · rw [if_neg (by simp), unit_ok_iff, authGuard_iff, pauseGuard_iff]
    exact And.comm
  · rw [if_pos rfl, unit_ok_iff, authGuard_iff, pauseGuard_iff]

theorem body_inc {s s' : Stk} {f : Fn} (hf : f.isInc = true) :
    s.body f = .ok s' ↔ s.counter + 1 ≤ I32_MAX ∧ s' = { s with counter := s.counter + 1 } := by
  unfold Stk.body Stk.bump
  rw [if_pos hf]
  constructor
  · intro h
    split at h
    · cases h
    · rename_i hn
      injection h with h
      exact ⟨by omega, h.symm⟩
  · rintro ⟨h1, h2⟩
    rw [if_neg (by omega), h2]

theorem body_reset {s s' : Stk} {f : Fn} (hf : f.isInc = false) :
    s.body f = .ok s' ↔ s' = { s with counter := 0 } := by
  unfold Stk.body Stk.clear
  rw [if_neg (by simp [hf])]
  exact ⟨fun h => by injection h with h; exact h.symm, fun h => by rw [h]⟩

/-- an entry point is accepted exactly when both guards' conditions hold and the body runs -/
theorem call_iff {s s' : Stk} {auth : List Nat} {f : Fn} {c : Nat} :
    s.call auth f c = .ok s' ↔
      s.p.paused = f.spec.needPaused ∧ Authorized s auth c f.spec.who ∧ s.body f = .ok s' := by
  unfold Stk.call
  constructor
  · intro h
    obtain ⟨u, hg, hb⟩ := bind_eq_ok h
    obtain ⟨h1, h2⟩ := guards_iff.1 hg
    exact ⟨h1, h2, hb⟩
  · rintro ⟨h1, h2, hb⟩
    rw [guards_iff.2 ⟨h1, h2⟩]
    exact hb

theorem callerIsTheOwner_iff {s : Stk} {auth : List Nat} {c : Nat} :
    callerIsTheOwner s auth c = .ok () ↔ s.owner = some c ∧ c ∈ auth := by
  unfold callerIsTheOwner
  cases ho : s.owner with
  | none => exact ⟨fun h => (by cases h), fun h => (by cases h.1)⟩
  | some o =>
    simp only
    unfold callerIsOwner
    rw [unit_ok_iff, requireAuth_iff]
    by_cases hoc : o = c
    · subst hoc
      simp
    · rw [if_pos hoc]
      exact ⟨fun h => (by cases h.2), fun h => (by injection h.1 with h; exact (hoc h).elim)⟩

/-- `pause` of the contract: accepted exactly from the not-paused state with the owner as authorizing caller -/
theorem pause_iff {s s' : Stk} {auth : List Nat} {c : Nat} :
    s.apply auth (.pause c) = .ok s' ↔
      s.p.paused = false ∧ s.owner = some c ∧ c ∈ auth ∧
      s' = { s with p := { paused := true, log := s.p.log ++ [.paused] } } := by
  simp only [Stk.apply]
  constructor
  · intro h
    obtain ⟨u, ha, h⟩ := bind_eq_ok h
    obtain ⟨p1, hp1, h⟩ := bind_eq_ok h
    injection h with h
    obtain ⟨e1, e2⟩ := pause_ok hp1
    obtain ⟨h1, h2⟩ := callerIsTheOwner_iff.1 ha
    subst e2
    exact ⟨e1, h1, h2, h.symm⟩
  · rintro ⟨h1, h2, h3, h4⟩
    rw [callerIsTheOwner_iff.2 ⟨h2, h3⟩]
    simp only [bind_ok, pause, whenNotPaused_false h1]
    rw [h4]; rfl

theorem unpause_iff {s s' : Stk} {auth : List Nat} {c : Nat} :
    s.apply auth (.unpause c) = .ok s' ↔
      s.p.paused = true ∧ s.owner = some c ∧ c ∈ auth ∧
      s' = { s with p := { paused := false, log := s.p.log ++ [.unpaused] } } := by
  simp only [Stk.apply]
  constructor
  · intro h
    obtain ⟨u, ha, h⟩ := bind_eq_ok h
    obtain ⟨p1, hp1, h⟩ := bind_eq_ok h
    injection h with h
    obtain ⟨e1, e2⟩ := unpause_ok hp1
    obtain ⟨h1, h2⟩ := callerIsTheOwner_iff.1 ha
    subst e2
    exact ⟨e1, h1, h2, h.symm⟩
  · rintro ⟨h1, h2, h3, h4⟩
    rw [callerIsTheOwner_iff.2 ⟨h2, h3⟩]
    simp only [bind_ok, unpause, whenPaused_true h1]
    rw [h4]; rfl

/-- an `inc_*` entry point is declared `when_not_paused`, a `reset_*` one `when_paused` -/
theorem needPaused_eq (f : Fn) : f.spec.needPaused = !f.isInc := by
  cases f <;> rfl

/-- no entry point touches the principals -/
theorem apply_keeps {s s' : Stk} {auth : List Nat} {o : Op} (h : s.apply auth o = .ok s') :
    s'.owner = s.owner ∧ s'.admin = s.admin ∧ s'.isOp = s.isOp := by
  cases o with
  | call f c =>
    obtain ⟨-, -, hb⟩ := call_iff.1 h
    cases hf : f.isInc
    · rw [(body_reset hf).1 hb]; exact ⟨rfl, rfl, rfl⟩
    · rw [((body_inc hf).1 hb).2]; exact ⟨rfl, rfl, rfl⟩
  | pause c => obtain ⟨-, -, -, e⟩ := pause_iff.1 h; rw [e]; exact ⟨rfl, rfl, rfl⟩
  | unpause c => obtain ⟨-, -, -, e⟩ := unpause_iff.1 h; rw [e]; exact ⟨rfl, rfl, rfl⟩

end OZ.Gates.Stk
