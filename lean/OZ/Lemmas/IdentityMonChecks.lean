import OZ.Lemmas.IdentityMon
/-
Helper lemmas for the soundness of the C15 monitor (OZ/Props/C15Mon.lean), part 2: what the monitor's
conditions (`G.confirms`, `G.verifies`) mean in a world the ghost state agrees with.
-/
namespace OZ.Identity.Mon
open OZ.Host OZ.Identity OZ.ClaimIssuer

theorem wellFormed_iff (scheme sl : Nat) : wellFormed scheme sl = true ↔ expectedLen scheme = some sl := by
  unfold wellFormed algOf expectedLen ED25519 ED25519_B SECP256R1 SECP256R1_B SECP256K1 SECP256K1_B
  by_cases h1 : scheme = 101 ∨ scheme = 111
  · simp only [if_pos h1, decide_eq_true_eq]
    constructor
    · rintro (⟨_, h⟩ | ⟨h, _⟩ | ⟨h, _⟩)
      · rw [h]
      · cases h
      · cases h
    · intro h; injection h with h; exact .inl ⟨trivial, h.symm⟩
  · by_cases h2 : scheme = 102 ∨ scheme = 112
    · simp only [if_neg h1, if_pos h2, decide_eq_true_eq]
      constructor
      · rintro (⟨h, _⟩ | ⟨_, h⟩ | ⟨h, _⟩)
        · cases h
        · rw [h]
        · cases h
      · intro h; injection h with h; exact .inr (.inl ⟨trivial, h.symm⟩)
    · by_cases h3 : scheme = 103 ∨ scheme = 113
      · simp only [if_neg h1, if_neg h2, if_pos h3, decide_eq_true_eq]
        constructor
        · rintro (⟨h, _⟩ | ⟨h, _⟩ | ⟨_, h⟩)
          · cases h
          · cases h
          · rw [h]
        · intro h; injection h with h; exact .inr (.inr ⟨trivial, h.symm⟩)
      · simp only [if_neg h1, if_neg h2, if_neg h3, decide_eq_true_eq]
        constructor
        · rintro (⟨h, _⟩ | ⟨h, _⟩ | ⟨h, _⟩) <;> cases h
        · intro h; cases h

theorem notExpired_iff (ts : Nat) (data : List Nat) :
    notExpired ts data = true ↔ ∃ vu, validUntil data = .ok vu ∧ ts < vu := by
  unfold notExpired gValidUntil validUntil beNat
  by_cases h : data.length < 16
  · simp only [if_pos h]
    constructor
    · intro c; cases c
    · rintro ⟨vu, c, _⟩; cases c
  · simp only [if_neg h, decide_eq_true_eq]
    constructor
    · intro c; exact ⟨_, rfl, c⟩
    · rintro ⟨vu, c, hlt⟩; injection c with c; rw [c]; exact hlt

/-! ### the issuer's condition -/

theorem isClaimValid_iff {σ : Type} (V : Verifier σ) (env : Env) (s : Issuer) (self identity topic scheme : Nat)
    (sd : SigData σ) (data : List Nat) :
    isClaimValid V env s self identity topic scheme sd data = true ↔
      expectedLen scheme = some sd.len ∧
      V scheme sd.pk { network := env.network, issuer := self, identity := identity, topic := topic,
                       nonce := currentNonce s identity topic, data := data } sd.sig = true ∧
      isKeyAllowedForTopic s sd.pk scheme topic = true ∧
      (∃ vu, validUntil data = .ok vu ∧ env.timestamp < vu) ∧
      isClaimRevoked s identity topic data = false := by
  unfold isClaimValid extractOk isClaimExpired buildClaimMessage
  cases he : expectedLen scheme with
  | none => simp
  | some n =>
    by_cases hl : sd.len = n
    · subst hl
      cases hk : isKeyAllowedForTopic s sd.pk scheme topic with
      | false => simp
      | true =>
        cases hv : validUntil data with
        | error e => simp
        | ok vu =>
          by_cases ht : env.timestamp ≥ vu
          · have : ¬ env.timestamp < vu := Nat.not_lt.mpr ht
            simp [ht, this]
          · have h2 : env.timestamp < vu := Nat.lt_of_not_le ht
            cases hrv : isClaimRevoked s identity topic data with
            | true => simp [ht]
            | false => simp [ht, h2]
    · have : (sd.len == n) = false := by simp [hl]
      simp [this]
      intro h; exact absurd h.symm hl

theorem keyAllowed_iff (g : G) (i pk sc t : Nat) :
    g.keyAllowed i pk sc t = true ↔ ∃ r, (i, pk, sc, t, r) ∈ g.keys := by
  unfold G.keyAllowed
  rw [List.any_eq_true]
  constructor
  · rintro ⟨⟨x1, x2, x3, x4, x5⟩, hm, hx⟩
    simp only [Bool.and_eq_true, beq_iff_eq] at hx
    obtain ⟨⟨⟨h1, h2⟩, h3⟩, h4⟩ := hx
    subst h1 h2 h3 h4
    exact ⟨x5, hm⟩
  · rintro ⟨r, hm⟩; exact ⟨_, hm, by simp⟩

/-- **the monitor's issuer condition is the model's `is_claim_valid`** (through `try_is_claim_valid`) -/
theorem confirms_eq {g : G} {W : World SymSig} (h : AgreeW g W) (i d t scheme : Nat) (sd : SigData SymSig)
    (data : List Nat) :
    g.confirms i d t scheme sd data = issuerConfirms symVerify W i d t scheme sd data := by
  unfold issuerConfirms
  cases hs : W.issuers i with
  | none =>
    have hni : ISSUERS.contains i = false := by
      cases hc : ISSUERS.contains i with
      | false => rfl
      | true =>
        have := (h.iss.dom i).mpr (List.contains_iff_mem.mp hc)
        rw [hs] at this; cases this
    simp only [G.confirms, G.confirmsButKey, G.coreOk, hni, Bool.false_and]
  | some s =>
    simp only
    rw [Bool.eq_iff_iff, isClaimValid_iff]
    have hi : ISSUERS.contains i = true :=
      List.contains_iff_mem.mpr ((h.iss.dom i).mp (by rw [hs]; rfl))
    have hk : g.keyAllowed i sd.pk scheme t = true ↔ isKeyAllowedForTopic s sd.pk scheme t = true := by
      rw [keyAllowed_iff, (h.iss.inv i s hs).link]
      constructor
      · rintro ⟨r, hm⟩; exact ⟨r, (issAgree_keys_at h.iss hs ..).mp hm⟩
      · rintro ⟨r, ha⟩; exact ⟨r, (issAgree_keys_at h.iss hs ..).mpr ha⟩
    unfold G.confirms G.confirmsButKey G.coreOk G.isRevoked symVerify
    rw [hi, issAgree_nonce_at h.iss hs, issAgree_revoked_at h.iss hs, h.net, h.ts]
    simp only [Bool.and_eq_true, Bool.true_and, decide_eq_true_eq, Bool.not_eq_true', beq_iff_eq]
    rw [wellFormed_iff, notExpired_iff, hk]
    constructor
    · rintro ⟨⟨⟨⟨⟨h1, h2⟩, h3⟩, h4⟩, h5⟩, h6⟩
      exact ⟨h1, ⟨h2, h3⟩, h6, h4, h5⟩
    · rintro ⟨h1, ⟨h2, h3⟩, h6, h4, h5⟩
      exact ⟨⟨⟨⟨⟨h1, h2⟩, h3⟩, h4⟩, h5⟩, h6⟩

/-! ### the verifier's condition -/

theorem trustedFor_iff {g : G} {W : World SymSig} (h : AgreeW g W) {ra : Nat} {r : Reg} (hr : W.regs ra = some r)
    (i t : Nat) : g.trustedFor ra i t = true ↔ trustedFor r i t := by
  unfold G.trustedFor trustedFor
  rw [h.reg.trust, hr]
  show (match r.issuerTopics i with | some ts => ts.contains t | none => false) = true ↔ _
  cases r.issuerTopics i with
  | none => simp
  | some ts => simp

theorem claimOk_iff {g : G} {W : World SymSig} (h : AgreeW g W) (d i t : Nat) :
    g.claimOk d i t = true ↔ ∃ st c, W.ids d = some st ∧ st.claim i t = some c ∧ c.topic = t ∧ c.issuer = i ∧
      issuerConfirms symVerify W i d t c.scheme c.sig c.data = true := by
  unfold G.claimOk
  rw [h.ids.claims]
  cases hst : W.ids d with
  | none =>
    constructor
    · intro c; cases c
    · rintro ⟨st, c, e, _⟩; cases e
  | some st =>
    show (match st.claim i t with
      | some c => c.topic == t && c.issuer == i && g.confirms i d t c.scheme c.sig c.data
      | none => false) = true ↔ _
    cases hc : st.claim i t with
    | none =>
      constructor
      · intro c; cases c
      · rintro ⟨st', c, e, e2, _⟩; injection e with e; subst e; rw [hc] at e2; cases e2
    | some c =>
      simp only [Bool.and_eq_true, beq_iff_eq]
      rw [confirms_eq h]
      constructor
      · rintro ⟨⟨h1, h2⟩, h3⟩; exact ⟨st, c, rfl, hc, h1, h2, h3⟩
      · rintro ⟨st', c', e, e2, h1, h2, h3⟩
        injection e with e; subst e
        rw [hc] at e2; injection e2 with e2; subst e2
        exact ⟨⟨h1, h2⟩, h3⟩

theorem issuers_sub {i : Nat} (h : i ∈ ISSUERS) : i ∈ ISSUER_CANDS := by
  simp only [ISSUERS, List.mem_cons, List.not_mem_nil, or_false] at h
  simp only [ISSUER_CANDS, List.mem_cons, List.not_mem_nil, or_false]
  rcases h with h | h | h
  · exact .inl h
  · exact .inr (.inl h)
  · exact .inr (.inr (.inl h))

/-- model ⟹ monitor: an issuer that settles the topic in the model makes the monitor's `topicOk` true -/
theorem topicOk_of_model {g : G} {W : World SymSig} (h : AgreeW g W) {ra : Nat} {r : Reg} (hr : W.regs ra = some r)
    (d t : Nat) (hm : ∃ i, trustedFor r i t ∧ ∃ st, W.ids d = some st ∧ satisfies symVerify W st d t i) :
    g.topicOk ra d t = true := by
  obtain ⟨i, htr, st, hst, c, ⟨_, hc, h1, h2⟩, hconf⟩ := hm
  unfold G.topicOk
  rw [List.any_eq_true]
  have hiss : i ∈ ISSUERS := by
    apply (h.iss.dom i).mp
    unfold issuerConfirms at hconf
    cases hs : W.issuers i with
    | none => rw [hs] at hconf; cases hconf
    | some s => rfl
  refine ⟨i, issuers_sub hiss, ?_⟩
  have hd : IDS.contains d = true := List.contains_iff_mem.mpr ((h.ids.dom d).mp (by rw [hst]; rfl))
  rw [(trustedFor_iff h hr i t).mpr htr, hd, (claimOk_iff h d i t).mpr ⟨st, c, hst, hc, h1, h2, hconf⟩]
  rfl

/-- monitor ⟹ model, for an identity store as the library keeps it -/
theorem model_of_topicOk {g : G} {W : World SymSig} (h : AgreeW g W) {ra : Nat} {r : Reg} (hr : W.regs ra = some r)
    (d t : Nat) (ht : ∀ st, W.ids d = some st → Tight st) (hg : g.topicOk ra d t = true) :
    ∃ i, trustedFor r i t ∧ ∃ st, W.ids d = some st ∧ satisfies symVerify W st d t i := by
  unfold G.topicOk at hg
  rw [List.any_eq_true] at hg
  obtain ⟨i, _, hx⟩ := hg
  simp only [Bool.and_eq_true] at hx
  obtain ⟨⟨h1, _⟩, h3⟩ := hx
  obtain ⟨st, c, hst, hc, e1, e2, hconf⟩ := (claimOk_iff h d i t).mp h3
  refine ⟨i, (trustedFor_iff h hr i t).mp h1, st, hst, c, ⟨?_, hc, e1, e2⟩, hconf⟩
  exact (ht st hst).2.2 i t (by rw [hc]; rfl)

theorem verifiesWith_iff {g : G} {W : World SymSig} (h : AgreeW g W) (d ra : Nat) :
    g.verifiesWith d ra = true ↔ ∃ r, W.regs ra = some r ∧ ∀ t ∈ r.topics, g.topicOk ra d t = true := by
  unfold G.verifiesWith
  simp only [Bool.and_eq_true, List.all_eq_true, List.mem_filter, beq_iff_eq]
  constructor
  · rintro ⟨hc, hall⟩
    have hsome := (h.reg.dom ra).mpr (List.contains_iff_mem.mp hc)
    cases hr : W.regs ra with
    | none => rw [hr] at hsome; cases hsome
    | some r =>
      refine ⟨r, rfl, fun t ht => ?_⟩
      exact hall (ra, t) ⟨(h.reg.req ra t).mpr ⟨r, hr, ht⟩, rfl⟩
  · rintro ⟨r, hr, hall⟩
    refine ⟨List.contains_iff_mem.mpr ((h.reg.dom ra).mp (by rw [hr]; rfl)), ?_⟩
    rintro ⟨x, t⟩ ⟨hm, hx⟩
    simp only at hx
    subst hx
    obtain ⟨r', hr', ht⟩ := (h.reg.req x t).mp hm
    rw [hr] at hr'; injection hr' with hr'; subst hr'
    exact hall t ht

/-! ### `verify_identity`, both directions, with exactly the store hypotheses each needs -/

variable {σ : Type}

/-- a successful issuer loop found an issuer that settles the topic (no well-formedness needed) -/
theorem issuerLoop_imp (V : Verifier σ) (W : World σ) (st : IdStore σ) (d t : Nat) :
    ∀ l : List Nat, l ≠ [] → issuerLoop V W st d t l = .ok () → ∃ i ∈ l, satisfies V W st d t i
  | [], h, _ => absurd rfl h
  | i :: rest, _, hl => by
    have ih := issuerLoop_imp V W st d t rest
    have tail : ((if rest.isEmpty = true then (.error .fail : Except Err Unit) else issuerLoop V W st d t rest) = .ok ()) →
        ∃ j ∈ i :: rest, satisfies V W st d t j := by
      intro ht
      cases rest with
      | nil => simp at ht
      | cons x xs =>
        simp only [List.isEmpty_cons, Bool.false_eq_true, if_false] at ht
        obtain ⟨j, hj, hs⟩ := ih (by simp) ht
        exact ⟨j, List.mem_cons_of_mem _ hj, hs⟩
    unfold issuerLoop at hl
    by_cases hc : (st.byTopic t).contains (i, t) = true
    · rw [if_pos hc] at hl
      have hm : (i, t) ∈ st.byTopic t := List.contains_iff_mem.mp hc
      cases hcl : st.claim i t with
      | none => rw [hcl] at hl; cases hl
      | some c =>
        rw [hcl] at hl
        simp only at hl
        by_cases hv : validateClaim V W c t i d = true
        · have hv' := (validateClaim_iff V W c t i d).mp hv
          exact ⟨i, List.mem_cons_self .., c, ⟨hm, hcl, hv'.1.1, hv'.1.2⟩, hv'.2⟩
        · rw [if_neg hv] at hl; exact tail hl
    · rw [if_neg hc] at hl; exact tail hl

/-- `verify_identity` succeeds ONLY IF every required topic has a held, matching, confirmed claim of a
currently trusted issuer — whatever state the identity stores are in -/
theorem verify_ok_imp (V : Verifier σ) (W : World σ) (hreg : ∀ ra r, W.regs ra = some r → r.Inv) (a : Nat)
    (hok : verifyIdentity V W a = .ok ()) :
    W.vIrs = true ∧ ∃ d ra r, W.irs.identity a = some d ∧ W.vCti = some ra ∧ W.regs ra = some r ∧
      ∀ t ∈ r.topics, ∃ i, trustedFor r i t ∧ ∃ st, W.ids d = some st ∧ satisfies V W st d t i := by
  unfold verifyIdentity at hok
  rw [verifyWith_iff] at hok
  obtain ⟨hv, d, ra, r, tis, hd, hc, hr, hg, hb⟩ := hok
  refine ⟨hv, d, ra, r, hd, hc, hr, ?_⟩
  have hinv := hreg ra r hr
  obtain ⟨tis', hg', hm⟩ := collect_ok hinv
  rw [hg] at hg'; injection hg' with hg'; subst hg'
  intro t ht
  have hs := (hinv.topicSome t).mp ht
  cases hl : r.topicIssuers t with
  | none => rw [hl] at hs; cases hs
  | some l =>
    have hbody := hb (t, l) ((hm t l).mpr ⟨ht, hl⟩)
    obtain ⟨hne, st, hst, hloop⟩ := (verifyTopic_iff V W d t l).mp hbody
    obtain ⟨i, hi, hsat⟩ := issuerLoop_imp V W st d t l hne hloop
    exact ⟨i, ((hinv.fwd t l hl).2 i).mp hi, st, hst, hsat⟩

/-- … and IF they have, it succeeds, provided the identity's store is well-formed -/
theorem verify_of_cond (V : Verifier σ) (W : World σ) (hreg : ∀ ra r, W.regs ra = some r → r.Inv) (a : Nat)
    (hv : W.vIrs = true) {d ra : Nat} {r : Reg} (hd : W.irs.identity a = some d) (hc : W.vCti = some ra)
    (hr : W.regs ra = some r) (hwf : ∀ st, W.ids d = some st → st.WF)
    (hall : ∀ t ∈ r.topics, ∃ i, trustedFor r i t ∧ ∃ st, W.ids d = some st ∧ satisfies V W st d t i) :
    verifyIdentity V W a = .ok () := by
  unfold verifyIdentity
  rw [verifyWith_iff]
  have hinv := hreg ra r hr
  obtain ⟨tis, hg, hm⟩ := collect_ok hinv
  refine ⟨hv, d, ra, r, tis, hd, hc, hr, hg, ?_⟩
  rintro ⟨t, l⟩ hmem
  obtain ⟨ht, hl⟩ := (hm t l).mp hmem
  obtain ⟨i, htr, st, hst, hsat⟩ := hall t ht
  have hi : i ∈ l := ((hinv.fwd t l hl).2 i).mpr htr
  have hne : l ≠ [] := by intro e; subst e; cases hi
  have hw := hwf st hst
  exact (verifyTopic_iff V W d t l).mpr ⟨hne, st, hst,
    (issuerLoop_iff V W st d t (fun i hi => (hw t (i, t) hi).2) l hne).mpr ⟨i, hi, hsat⟩⟩

/-! ### the monitor's first sentence against the model's `verify_identity` -/

/-- model accepts ⟹ the monitor's condition holds (the property's "only by valid claims"), in every
world the ghost state agrees with -/
theorem verifies_of_model {g : G} {W : World SymSig} (h : AgreeW g W) (a : Nat)
    (hok : verifyIdentity symVerify W a = .ok ()) : g.verifies a = true := by
  obtain ⟨hv, d, ra, r, hd, hc, hr, hall⟩ := verify_ok_imp symVerify W h.reg.inv a hok
  unfold G.verifies
  rw [h.virs, hv, h.irs a, hd, h.cti, hc]
  show g.verifiesWith d ra = true
  rw [verifiesWith_iff h]
  exact ⟨r, hr, fun t ht => topicOk_of_model h hr d t (hall t ht)⟩

/-- the monitor's condition holds ⟹ the model accepts, unless the account's identity contract is
`loose` (its topic index may hold an entry without a claim) -/
theorem model_of_verifies {g : G} {W : World SymSig} (h : AgreeW g W) (a : Nat)
    (hg : g.verifies a = true) (hl : g.looseAcct a = false) : verifyIdentity symVerify W a = .ok () := by
  unfold G.verifies at hg
  rw [Bool.and_eq_true] at hg
  obtain ⟨hv, hm⟩ := hg
  unfold G.looseAcct at hl
  cases hd : assocGet g.ident a with
  | none => rw [hd] at hm; cases hm
  | some d =>
    rw [hd] at hm hl
    cases hc : g.cti with
    | none => rw [hc] at hm; cases hm
    | some ra =>
      rw [hc] at hm
      have hm' : g.verifiesWith d ra = true := hm
      obtain ⟨r, hr, hall⟩ := (verifiesWith_iff h d ra).mp hm'
      have hnl : d ∉ g.loose := by
        intro c
        have := List.contains_iff_mem.mpr c
        simp only at hl
        rw [this] at hl; cases hl
      have ht : ∀ st, W.ids d = some st → Tight st := fun st hst => h.ids.tight d st hst hnl
      apply verify_of_cond symVerify W h.reg.inv a (by rw [← h.virs]; exact hv)
        (by rw [← h.irs a]; exact hd) (by rw [← h.cti]; exact hc) hr (fun st hst => (ht st hst).1)
      intro t htt
      exact model_of_topicOk h hr d t ht (hall t htt)

/-! ### the initial states agree -/

theorem agreeW_init : AgreeW G.init initWorld := by
  refine ⟨rfl, rfl, rfl, rfl, ⟨?_, ?_, ?_, ?_⟩, ?_, ⟨?_, ?_, ?_⟩, ⟨?_, ?_, ?_, ?_, ?_⟩⟩
  · intro r
    show (if r = 0 ∨ r = 1 then some Reg.empty else none).isSome = true ↔ r ∈ [0, 1]
    by_cases hr : r = 0 ∨ r = 1
    · rw [if_pos hr]; simp only [List.mem_cons, List.not_mem_nil, or_false]; exact ⟨fun _ => hr, fun _ => rfl⟩
    · rw [if_neg hr]; simp only [List.mem_cons, List.not_mem_nil, or_false]; exact ⟨fun c => (by cases c), fun c => absurd c hr⟩
  · intro r reg hr
    have hr' : (if r = 0 ∨ r = 1 then some Reg.empty else none) = some reg := hr
    split at hr'
    · injection hr' with hr'; subst hr'; exact OZ.Identity.inv_empty
    · cases hr'
  · intro r t
    constructor
    · intro c; cases c
    · rintro ⟨reg, hr, ht⟩
      have hr' : (if r = 0 ∨ r = 1 then some Reg.empty else none) = some reg := hr
      split at hr'
      · injection hr' with hr'; subst hr'; cases ht
      · cases hr'
  · intro r i
    show none = (if r = 0 ∨ r = 1 then some Reg.empty else none).bind (fun reg => reg.issuerTopics i)
    split <;> rfl
  · intro a; rfl
  · intro d
    show (if d = 8 ∨ d = 9 then some IdStore.empty else none).isSome = true ↔ d ∈ [8, 9]
    by_cases hd : d = 8 ∨ d = 9
    · rw [if_pos hd]; simp only [List.mem_cons, List.not_mem_nil, or_false]; exact ⟨fun _ => hd, fun _ => rfl⟩
    · rw [if_neg hd]; simp only [List.mem_cons, List.not_mem_nil, or_false]; exact ⟨fun c => (by cases c), fun c => absurd c hd⟩
  · intro d i t
    show none = (if d = 8 ∨ d = 9 then some (IdStore.empty : IdStore SymSig) else none).bind (fun st => st.claim i t)
    split <;> rfl
  · intro d st hst _
    have hst' : (if d = 8 ∨ d = 9 then some (IdStore.empty : IdStore SymSig) else none) = some st := hst
    split at hst'
    · injection hst' with hst'; subst hst'; exact tight_empty
    · cases hst'
  · intro i
    show (if i = 4 ∨ i = 5 ∨ i = 6 then some Issuer.empty else none).isSome = true ↔ i ∈ [4, 5, 6]
    by_cases hi : i = 4 ∨ i = 5 ∨ i = 6
    · rw [if_pos hi]; simp only [List.mem_cons, List.not_mem_nil, or_false]; exact ⟨fun _ => hi, fun _ => rfl⟩
    · rw [if_neg hi]; simp only [List.mem_cons, List.not_mem_nil, or_false]; exact ⟨fun c => (by cases c), fun c => absurd c hi⟩
  · intro i s hs
    have hs' : (if i = 4 ∨ i = 5 ∨ i = 6 then some Issuer.empty else none) = some s := hs
    split at hs'
    · injection hs' with hs'; subst hs'; exact OZ.ClaimIssuer.inv_empty
    · cases hs'
  · intro i k sc t r
    constructor
    · intro c; cases c
    · rintro ⟨s, hs, ps, hp, _⟩
      have hs' : (if i = 4 ∨ i = 5 ∨ i = 6 then some Issuer.empty else none) = some s := hs
      split at hs'
      · injection hs' with hs'; subst hs'; cases hp
      · cases hs'
  · intro i d t
    show 0 = nonceOf (fun a => if a = 4 ∨ a = 5 ∨ a = 6 then some Issuer.empty else none) i d t
    unfold nonceOf
    split
    · rename_i s hs
      dsimp only at hs
      split at hs
      · injection hs with hs; subst hs; rfl
      · cases hs
    · rfl
  · intro i d t data
    show false = revokedOf (fun a => if a = 4 ∨ a = 5 ∨ a = 6 then some Issuer.empty else none) i d t data
    unfold revokedOf
    split
    · rename_i s hs
      dsimp only at hs
      split at hs
      · injection hs with hs; subst hs; rfl
      · cases hs
    · rfl

/-! ### small facts used by the step theorem -/

/-- one `ver=` entry of the model never counts as a failure -/
theorem verEntry_quiet {g1 : G} {W : World SymSig} (h : AgreeW g1 W) (a : Nat) :
    verBad false g1 (a, (if isOk (verifyIdentity symVerify W a) then 1 else 0), (if g1.verifies a then 1 else 0))
      = false := by
  unfold verBad
  cases hv : verifyIdentity symVerify W a with
  | ok u =>
    cases u
    have := verifies_of_model h a hv
    simp [isOk, this]
  | error e =>
    cases hg : g1.verifies a with
    | false => simp [isOk]
    | true =>
      cases hl : g1.looseAcct a with
      | true => simp [isOk]
      | false => have := model_of_verifies h a hg hl; rw [hv] at this; cases this

theorem zip_maps (l : List Nat) (f e : Nat → Nat) :
    l.zip ((l.map f).zip (l.map e)) = l.map (fun a => (a, f a, e a)) := by
  induction l with
  | nil => rfl
  | cons x xs ih => simp only [List.map_cons, List.zip_cons_cons, ih]

theorem agreeW_prev {g : G} {W : World SymSig} (h : AgreeW g W) (p : String) : AgreeW { g with prev := p } W :=
  ⟨h.ts, h.net, h.cti, h.virs, h.reg, h.irs, h.ids, h.iss⟩

theorem ghostAfter_verify (g : G) (a : Nat) (b : Bool) : ghostAfter g (.verify a) b = g := by
  cases b <;> rfl

/-- the outcome of a `valid` / `verify` query of the model, and what an accepted one leaves -/
theorem stepM_valid (m : M) (i d t scheme : Nat) (sd : SigData SymSig) (data : List Nat) :
    (stepM m (.valid i d t scheme sd data)).2 = issuerConfirms symVerify m.w i d t scheme sd data ∧
    (stepM m (.valid i d t scheme sd data)).1.w = m.w := by
  unfold stepM
  simp only [applyOp, unitOk]
  cases issuerConfirms symVerify m.w i d t scheme sd data <;> exact ⟨rfl, rfl⟩

theorem stepM_verify (m : M) (a : Nat) :
    (stepM m (.verify a)).2 = isOk (verifyIdentity symVerify m.w a) ∧ (stepM m (.verify a)).1.w = m.w := by
  unfold stepM
  simp only [applyOp]
  cases hv : verifyIdentity symVerify m.w a with
  | ok u => cases u; exact ⟨rfl, rfl⟩
  | error e => exact ⟨rfl, rfl⟩

theorem isOk_iff {ε : Type} (x : Except ε Unit) : isOk x = true ↔ x = .ok () := by
  cases x with
  | ok u => cases u; simp [isOk]
  | error e => simp [isOk]

end OZ.Identity.Mon
