import OZ.Lemmas.Fungible
/-
Helper lemmas for C02 (tokens move only with the holder's authorization or a live
allowance): temporary-entry facts, an exact description of `allowance_data`,
`set_allowance`, `spend_allowance`, destructuring of the entry points, and the ghost
bookkeeping ("last approved amount", "spent since", "live_until of the last approval")
with its invariant over arbitrary histories.
-/
namespace OZ.Fungible
open OZ.Host

/-! ### temporary entries -/

theorem temp_get_none {α} (now : Nat) : Temp.get? (none : Option (Temp α)) now = none := rfl

theorem temp_get_live {α} {e : Temp α} {now : Nat} (h : now ≤ e.liveUntil) :
    Temp.get? (some e) now = some e.val := by
  simp only [Temp.get?]; rw [if_pos h]

theorem temp_get_dead {α} {e : Temp α} {now : Nat} (h : ¬ now ≤ e.liveUntil) :
    Temp.get? (some e) now = none := by
  simp only [Temp.get?]; rw [if_neg h]

theorem temp_set_val {α} (c : Cfg) (t : Option (Temp α)) (now : Nat) (v : α) :
    (Temp.set c t now v).val = v := by
  unfold Temp.set
  cases t with
  | none => rfl
  | some e => simp only; split <;> rfl

/-- `set` on a live entry keeps its lifetime -/
theorem temp_set_live {α} (c : Cfg) {e : Temp α} {now : Nat} (v : α) (h : now ≤ e.liveUntil) :
    (Temp.set c (some e) now v).liveUntil = e.liveUntil := by
  simp only [Temp.set]; rw [if_pos h]

/-- a successful `extend_ttl` keeps the value, never shortens the lifetime, and with
`threshold = extend_to` (as `set_allowance` calls it) the entry lives at least until
`now + extend_to` -/
theorem temp_extend_some {α} {c : Cfg} {e e' : Temp α} {now thr ext : Nat}
    (h : Temp.extend c e now thr ext = some e') :
    e'.val = e.val ∧ e.liveUntil ≤ e'.liveUntil ∧ (thr = ext → now + ext ≤ e'.liveUntil) := by
  unfold Temp.extend at h
  split at h
  · cases h
  · dsimp only at h
    split at h
    · cases h
    · split at h
      · rename_i hc
        injection h with h; subst h
        exact ⟨rfl, by simp only; omega, fun _ => by simp only; omega⟩
      · rename_i hc
        injection h with h; subst h
        refine ⟨rfl, Nat.le_refl _, fun ht => ?_⟩
        subst ht
        omega

/-- `extend_ttl(key, n, n)` cannot fail when `now + n` is within the maximum lifetime -/
theorem temp_extend_isSome {α} (c : Cfg) (e : Temp α) (now n : Nat)
    (h : now + n ≤ c.maxLiveUntil now) : ∃ e', Temp.extend c e now n n = some e' := by
  unfold Temp.extend
  rw [if_neg (Nat.lt_irrefl n)]
  dsimp only
  rw [if_neg (by omega)]
  split
  · exact ⟨_, rfl⟩
  · exact ⟨_, rfl⟩

/-! ### `allowance_data` / `allowance` -/

theorem allowanceData_eq (s : State) (o sp : Nat) :
    allowanceData s o sp =
      if ((Temp.get? (s.allow o sp) s.now).getD ⟨0, 0⟩).liveUntilLedger < s.now then ⟨0, 0⟩
      else (Temp.get? (s.allow o sp) s.now).getD ⟨0, 0⟩ := rfl

/-- the allowance getters only look at the allowance map and the ledger -/
theorem allowance_congr {s s' : State} (h1 : s'.allow = s.allow) (h2 : s'.now = s.now)
    (o sp : Nat) : allowance s' o sp = allowance s o sp := by
  unfold allowance; rw [allowanceData_eq, allowanceData_eq, h1, h2]

theorem allowanceData_congr_entry {s s' : State} {o sp : Nat}
    (h1 : s'.allow o sp = s.allow o sp) (h2 : s'.now = s.now) :
    allowanceData s' o sp = allowanceData s o sp := by
  rw [allowanceData_eq, allowanceData_eq, h1, h2]

theorem allowance_congr_entry {s s' : State} {o sp : Nat}
    (h1 : s'.allow o sp = s.allow o sp) (h2 : s'.now = s.now) :
    allowance s' o sp = allowance s o sp := by
  unfold allowance; rw [allowanceData_congr_entry h1 h2]

/-- the allowance entry of `(o, sp)` is readable (the host still keeps it) and its explicit
expiry `live_until_ledger` has not passed -/
def Unexpired (s : State) (o sp : Nat) : Prop :=
  ∃ e, s.allow o sp = some e ∧ s.now ≤ e.liveUntil ∧ s.now ≤ e.val.liveUntilLedger

theorem allowanceData_none {s : State} {o sp : Nat} (h : s.allow o sp = none) :
    allowanceData s o sp = ⟨0, 0⟩ := by
  rw [allowanceData_eq, h, temp_get_none]
  split <;> rfl

theorem allowanceData_dead {s : State} {o sp : Nat} {e : Temp AllowanceData}
    (h : s.allow o sp = some e) (hd : ¬ s.now ≤ e.liveUntil) :
    allowanceData s o sp = ⟨0, 0⟩ := by
  rw [allowanceData_eq, h, temp_get_dead hd]
  split <;> rfl

theorem allowanceData_expired {s : State} {o sp : Nat} {e : Temp AllowanceData}
    (h : s.allow o sp = some e) (hx : e.val.liveUntilLedger < s.now) :
    allowanceData s o sp = ⟨0, 0⟩ := by
  by_cases hl : s.now ≤ e.liveUntil
  · rw [allowanceData_eq, h, temp_get_live hl]
    simp only [Option.getD_some]
    rw [if_pos hx]
  · exact allowanceData_dead h hl

theorem allowanceData_live {s : State} {o sp : Nat} {e : Temp AllowanceData}
    (h : s.allow o sp = some e) (hl : s.now ≤ e.liveUntil) (hx : s.now ≤ e.val.liveUntilLedger) :
    allowanceData s o sp = e.val := by
  rw [allowanceData_eq, h, temp_get_live hl]
  simp only [Option.getD_some]
  rw [if_neg (by omega)]

/-- what `allowance_data` returns is either the zero record or the stored record of a
readable, unexpired entry -/
theorem allowanceData_cases (s : State) (o sp : Nat) :
    allowanceData s o sp = ⟨0, 0⟩ ∨
    ∃ e, s.allow o sp = some e ∧ s.now ≤ e.liveUntil ∧ s.now ≤ e.val.liveUntilLedger ∧
      allowanceData s o sp = e.val := by
  cases h : s.allow o sp with
  | none => exact .inl (allowanceData_none h)
  | some e =>
    by_cases hl : s.now ≤ e.liveUntil
    · by_cases hx : s.now ≤ e.val.liveUntilLedger
      · exact .inr ⟨e, rfl, hl, hx, allowanceData_live h hl hx⟩
      · exact .inl (allowanceData_expired h (by omega))
    · exact .inl (allowanceData_dead h hl)

theorem allowance_ne_zero_unexpired {s : State} {o sp : Nat} (h : allowance s o sp ≠ 0) :
    ∃ e, s.allow o sp = some e ∧ s.now ≤ e.liveUntil ∧ s.now ≤ e.val.liveUntilLedger ∧
      allowanceData s o sp = e.val := by
  rcases allowanceData_cases s o sp with h0 | h1
  · exact absurd (by unfold allowance; rw [h0]) h
  · exact h1

/-! ### `set_allowance` -/

/-- exact outcome of a successful `set_allowance`: the parameters passed the checks and the
entry now holds `{amount, live_until_ledger}`; for a positive amount the host keeps the entry
at least until `live_until_ledger`; a live entry stays live -/
theorem setAllowance_entry {c : Cfg} {s s' : State} {o sp : Nat} {amt : Int} {lu : Nat}
    (h : setAllowance c s o sp amt lu = .ok s') :
    0 ≤ amt ∧ lu ≤ c.maxLiveUntil s.now ∧ (0 < amt → s.now ≤ lu) ∧
    ∃ e', s'.allow o sp = some e' ∧ e'.val = ⟨amt, lu⟩ ∧ (0 < amt → lu ≤ e'.liveUntil) ∧
      (∀ e, s.allow o sp = some e → s.now ≤ e.liveUntil → e.liveUntil ≤ e'.liveUntil) := by
  unfold setAllowance at h
  split at h
  · cases h
  · rename_i h1
    split at h
    · cases h
    · rename_i h2
      split at h
      · rename_i h3
        dsimp only at h
        split at h
        · cases h
        · rename_i e' he'
          injection h with h; subst h
          obtain ⟨hv, hle, hlu⟩ := temp_extend_some he'
          have hnow : s.now ≤ lu := by omega
          refine ⟨by omega, by omega, fun _ => hnow, e', by simp [upd2], ?_, fun _ => ?_, ?_⟩
          · rw [hv, temp_set_val]
          · have := hlu rfl; omega
          · intro e he hl
            rw [he, temp_set_live c _ hl] at hle
            exact hle
      · rename_i h3
        injection h with h; subst h
        refine ⟨by omega, by omega, fun hp => absurd hp h3,
          Temp.set c (s.allow o sp) s.now ⟨amt, lu⟩, by simp [upd2], ?_, fun hp => absurd hp h3, ?_⟩
        · rw [temp_set_val]
        · intro e he hl
          rw [he, temp_set_live c _ hl]
          exact Nat.le_refl _

/-- `set_allowance` succeeds whenever its two explicit checks pass: the `extend_ttl` call
cannot fail ("cannot revert because of the check above" in the code is true) -/
theorem setAllowance_succeeds (c : Cfg) (s : State) (o sp : Nat) (amt : Int) (lu : Nat)
    (h1 : ¬ amt < 0) (h2 : ¬ (lu > c.maxLiveUntil s.now ∨ (amt > 0 ∧ lu < s.now))) :
    ∃ s', setAllowance c s o sp amt lu = .ok s' := by
  unfold setAllowance
  rw [if_neg h1, if_neg h2]
  dsimp only
  by_cases h3 : amt > 0
  · rw [if_pos h3]
    have hle : s.now + (lu - s.now) ≤ c.maxLiveUntil s.now := by omega
    obtain ⟨e', he'⟩ := temp_extend_isSome c
      (Temp.set c (s.allow o sp) s.now (⟨amt, lu⟩ : AllowanceData)) s.now (lu - s.now) hle
    rw [he']
    exact ⟨_, rfl⟩
  · rw [if_neg h3]
    exact ⟨_, rfl⟩

theorem setAllowance_fails_of {c : Cfg} {s : State} {o sp : Nat} {amt : Int} {lu : Nat}
    (h : amt < 0 ∨ lu > c.maxLiveUntil s.now ∨ (amt > 0 ∧ lu < s.now)) :
    ∃ e, setAllowance c s o sp amt lu = .error e := by
  unfold setAllowance
  by_cases h1 : amt < 0
  · rw [if_pos h1]; exact ⟨_, rfl⟩
  · rw [if_neg h1]
    have h2 : lu > c.maxLiveUntil s.now ∨ (amt > 0 ∧ lu < s.now) := by
      rcases h with h | h
      · exact absurd h h1
      · exact h
    rw [if_pos h2]; exact ⟨_, rfl⟩

/-! ### `spend_allowance` -/

theorem spendAllowance_cases {c : Cfg} {s s' : State} {o sp : Nat} {amt : Int}
    (h : spendAllowance c s o sp amt = .ok s') :
    0 ≤ amt ∧ amt ≤ (allowanceData s o sp).amount ∧
    ((0 < amt ∧ setAllowance c s o sp ((allowanceData s o sp).amount - amt)
        (allowanceData s o sp).liveUntilLedger = .ok s') ∨ (amt = 0 ∧ s' = s)) := by
  unfold spendAllowance at h
  split at h
  · cases h
  · rename_i h1
    dsimp only at h
    split at h
    · cases h
    · rename_i h2
      split at h
      · rename_i h3
        exact ⟨by omega, by omega, .inl ⟨h3, h⟩⟩
      · rename_i h3
        injection h with h; subst h
        exact ⟨by omega, by omega, .inr ⟨by omega, rfl⟩⟩

/-- a successful `spend_allowance` of a positive amount: the entry was readable and
unexpired, held at least `amt`, and afterwards `allowance` reads exactly `amt` less; the
stored record keeps its `live_until_ledger` -/
theorem spendAllowance_pos {c : Cfg} {s s' : State} {o sp : Nat} {amt : Int}
    (h : spendAllowance c s o sp amt = .ok s') (hp : 0 < amt) :
    Unexpired s o sp ∧ amt ≤ allowance s o sp ∧ allowance s' o sp = allowance s o sp - amt ∧
    ∃ e e', s.allow o sp = some e ∧ s.now ≤ e.liveUntil ∧ s.now ≤ e.val.liveUntilLedger ∧
      allowance s o sp = e.val.amount ∧
      s'.allow o sp = some e' ∧ e'.val = ⟨e.val.amount - amt, e.val.liveUntilLedger⟩ ∧
      e.liveUntil ≤ e'.liveUntil ∧ (0 < e.val.amount - amt → e.val.liveUntilLedger ≤ e'.liveUntil) := by
  obtain ⟨h0, hle, hc⟩ := spendAllowance_cases h
  rcases hc with ⟨_, hset⟩ | ⟨hz, _⟩
  · have hne : allowance s o sp ≠ 0 := by unfold allowance; omega
    obtain ⟨e, he, hl, hx, hd⟩ := allowance_ne_zero_unexpired hne
    rw [hd] at hset hle
    obtain ⟨_, _, _, e', he', hv', hlu', hmono⟩ := setAllowance_entry hset
    obtain ⟨_, _, hnow, _, _⟩ := setAllowance_ok hset
    have hlive' : s'.now ≤ e'.liveUntil := by rw [hnow]; have := hmono e he hl; omega
    have ha : allowance s o sp = e.val.amount := by unfold allowance; rw [hd]
    have ha' : allowance s' o sp = e.val.amount - amt := by
      unfold allowance
      rw [allowanceData_live he' hlive' (by rw [hv', hnow]; exact hx), hv']
    exact ⟨⟨e, he, hl, hx⟩, by omega, by rw [ha', ha],
      e, e', he, hl, hx, ha, he', hv', hmono e he hl, hlu'⟩
  · omega

/-! ### destructuring the entry points -/

/-- frame of `Base::update`: allowances and the ledger are untouched, the amount is
non-negative, and the only balance that can go down is `from`'s, by a positive amount -/
theorem update_frame {s s' : State} {f t : Option Nat} {amt : Int}
    (h : update s f t amt = .ok s') :
    s'.allow = s.allow ∧ s'.now = s.now ∧ 0 ≤ amt ∧
    ∀ a, s'.bal a < s.bal a → f = some a ∧ 0 < amt := by
  obtain ⟨h0, s1, hd, hc⟩ := update_ok h
  obtain ⟨da, dn, -, hd4⟩ := debit_ok hd
  obtain ⟨ca, cn, -, hc4⟩ := credit_ok hc
  refine ⟨by rw [ca, da], by rw [cn, dn], h0, ?_⟩
  intro a hlt
  -- balances of the intermediate state
  have hb1 : ∀ x, s1.bal x = s.bal x ∨ (f = some x ∧ s1.bal x = s.bal x - amt) := by
    intro x
    cases f with
    | none => exact .inl (by rw [hd4.2.2])
    | some b =>
      obtain ⟨_, _, hb⟩ := hd4
      by_cases hx : x = b
      · subst hx; exact .inr ⟨rfl, by rw [hb, upd_same]⟩
      · exact .inl (by rw [hb, upd_other _ _ _ _ hx])
  have hb2 : s1.bal a ≤ s'.bal a := by
    cases t with
    | none => rw [hc4.2.1]; exact Int.le_refl _
    | some b =>
      obtain ⟨_, hb, _⟩ := hc4
      by_cases hx : a = b
      · subst hx; rw [hb, upd_same]; omega
      · rw [hb, upd_other _ _ _ _ hx]; exact Int.le_refl _
  rcases hb1 a with h1 | ⟨hf, h1⟩
  · omega
  · exact ⟨hf, by omega⟩

theorem emit_allow (s : State) (ev : Event) : (emit s ev).allow = s.allow := rfl
theorem emit_now (s : State) (ev : Event) : (emit s ev).now = s.now := rfl
theorem emit_bal (s : State) (ev : Event) : (emit s ev).bal = s.bal := rfl

theorem mint_ok {s s' : State} {t : Nat} {amt : Int} (h : mint s t amt = .ok s') :
    ∃ s1, update s none (some t) amt = .ok s1 ∧ s' = emit s1 (.mint t amt) := by
  obtain ⟨s1, h1, h2⟩ := bind_eq_ok h
  injection h2 with h2
  exact ⟨s1, h1, h2.symm⟩

theorem transfer_ok {s s' : State} {auth : List Nat} {f t : Nat} {amt : Int}
    (h : transfer s auth f t amt = .ok s') :
    f ∈ auth ∧ ∃ s1, update s (some f) (some t) amt = .ok s1 ∧ s' = emit s1 (.transfer f t amt) := by
  obtain ⟨_, ha, h⟩ := bind_eq_ok h
  obtain ⟨s1, h1, h2⟩ := bind_eq_ok h
  injection h2 with h2
  exact ⟨requireAuth_ok ha, s1, h1, h2.symm⟩

theorem burn_ok {s s' : State} {auth : List Nat} {f : Nat} {amt : Int}
    (h : burn s auth f amt = .ok s') :
    f ∈ auth ∧ ∃ s1, update s (some f) none amt = .ok s1 ∧ s' = emit s1 (.burn f amt) := by
  obtain ⟨_, ha, h⟩ := bind_eq_ok h
  obtain ⟨s1, h1, h2⟩ := bind_eq_ok h
  injection h2 with h2
  exact ⟨requireAuth_ok ha, s1, h1, h2.symm⟩

theorem transferFrom_ok {c : Cfg} {s s' : State} {auth : List Nat} {sp f t : Nat} {amt : Int}
    (h : transferFrom c s auth sp f t amt = .ok s') :
    sp ∈ auth ∧ ∃ s0 s1, spendAllowance c s f sp amt = .ok s0 ∧
      update s0 (some f) (some t) amt = .ok s1 ∧ s' = emit s1 (.transfer f t amt) := by
  obtain ⟨_, ha, h⟩ := bind_eq_ok h
  obtain ⟨s0, h0, h⟩ := bind_eq_ok h
  obtain ⟨s1, h1, h2⟩ := bind_eq_ok h
  injection h2 with h2
  exact ⟨requireAuth_ok ha, s0, s1, h0, h1, h2.symm⟩

theorem burnFrom_ok {c : Cfg} {s s' : State} {auth : List Nat} {sp f : Nat} {amt : Int}
    (h : burnFrom c s auth sp f amt = .ok s') :
    sp ∈ auth ∧ ∃ s0 s1, spendAllowance c s f sp amt = .ok s0 ∧
      update s0 (some f) none amt = .ok s1 ∧ s' = emit s1 (.burn f amt) := by
  obtain ⟨_, ha, h⟩ := bind_eq_ok h
  obtain ⟨s0, h0, h⟩ := bind_eq_ok h
  obtain ⟨s1, h1, h2⟩ := bind_eq_ok h
  injection h2 with h2
  exact ⟨requireAuth_ok ha, s0, s1, h0, h1, h2.symm⟩

theorem approve_ok {c : Cfg} {s s' : State} {auth : List Nat} {o sp : Nat} {amt : Int} {lu : Nat}
    (h : approve c s auth o sp amt lu = .ok s') :
    o ∈ auth ∧ ∃ s0, setAllowance c s o sp amt lu = .ok s0 ∧ s' = emit s0 (.approve o sp amt lu) := by
  obtain ⟨_, ha, h⟩ := bind_eq_ok h
  obtain ⟨s0, h0, h2⟩ := bind_eq_ok h
  injection h2 with h2
  exact ⟨requireAuth_ok ha, s0, h0, h2.symm⟩

theorem upd2_same {β} (f : Nat → Nat → β) (a b : Nat) (v : β) : upd2 f a b v a b = v := by
  simp [upd2]
theorem upd2_other {β} (f : Nat → Nat → β) (a b x y : Nat) (v : β) (h : ¬ (x = a ∧ y = b)) :
    upd2 f a b v x y = f x y := by
  simp only [upd2]; rw [if_neg h]

/-- the allowance an op spends from: `(owner, spender, amount)` for `transfer_from` /
`burn_from` -/
def Op.spend? : Op → Option (Nat × Nat × Int)
  | .transferFrom sp f _ amt => some (f, sp, amt)
  | .burnFrom sp f amt => some (f, sp, amt)
  | _ => none

/-- a successful `transfer_from` / `burn_from`: the spender authorized, `spend_allowance`
succeeded on the pre-state, nothing else touched allowances or the ledger, and only the
owner's balance can have gone down (by a positive amount) -/
theorem apply_spend {c : Cfg} {s s' : State} {auth : List Nat} {op : Op} {f sp : Nat} {amt : Int}
    (h : apply c s auth op = .ok s') (hs : op.spend? = some (f, sp, amt)) :
    sp ∈ auth ∧ ∃ s0, spendAllowance c s f sp amt = .ok s0 ∧ s'.allow = s0.allow ∧
      s'.now = s.now ∧ ∀ a, s'.bal a < s.bal a → a = f ∧ 0 < amt := by
  cases op with
  | transferFrom sp' f' t amt' =>
    simp only [Op.spend?, Option.some.injEq, Prod.mk.injEq] at hs
    obtain ⟨rfl, rfl, rfl⟩ := hs
    obtain ⟨ha, s0, s1, h0, h1, rfl⟩ := transferFrom_ok h
    obtain ⟨ua, un, _, ub⟩ := update_frame h1
    obtain ⟨_, eb, en, _, _⟩ := spendAllowance_ok h0
    refine ⟨ha, s0, h0, by rw [emit_allow, ua], by rw [emit_now, un, en], ?_⟩
    intro a hlt
    rw [emit_bal, ← eb] at hlt
    obtain ⟨hf, hp⟩ := ub a hlt
    exact ⟨by injection hf with hf; exact hf.symm, hp⟩
  | burnFrom sp' f' amt' =>
    simp only [Op.spend?, Option.some.injEq, Prod.mk.injEq] at hs
    obtain ⟨rfl, rfl, rfl⟩ := hs
    obtain ⟨ha, s0, s1, h0, h1, rfl⟩ := burnFrom_ok h
    obtain ⟨ua, un, _, ub⟩ := update_frame h1
    obtain ⟨_, eb, en, _, _⟩ := spendAllowance_ok h0
    refine ⟨ha, s0, h0, by rw [emit_allow, ua], by rw [emit_now, un, en], ?_⟩
    intro a hlt
    rw [emit_bal, ← eb] at hlt
    obtain ⟨hf, hp⟩ := ub a hlt
    exact ⟨by injection hf with hf; exact hf.symm, hp⟩
  | mint _ _ => cases hs
  | transfer _ _ _ => cases hs
  | approve _ _ _ _ => cases hs
  | burn _ _ => cases hs
  | advance _ => cases hs

/-- a successful `approve`: the owner authorized, `set_allowance` succeeded on the
pre-state, balances and ledger untouched -/
theorem apply_approve {c : Cfg} {s s' : State} {auth : List Nat} {o sp : Nat} {amt : Int} {lu : Nat}
    (h : apply c s auth (.approve o sp amt lu) = .ok s') :
    o ∈ auth ∧ ∃ s0, setAllowance c s o sp amt lu = .ok s0 ∧ s'.allow = s0.allow ∧
      s'.now = s.now ∧ s'.bal = s.bal := by
  obtain ⟨ha, s0, h0, rfl⟩ := approve_ok h
  obtain ⟨_, eb, en, _, _⟩ := setAllowance_ok h0
  exact ⟨ha, s0, h0, rfl, by rw [emit_now, en], by rw [emit_bal, eb]⟩

/-- every other successful invocation leaves the allowance map alone, never moves the
ledger backwards, and lowers a balance only as a `transfer` / `burn` of its `from` who
authorized the call -/
theorem apply_other {c : Cfg} {s s' : State} {auth : List Nat} {op : Op}
    (h : apply c s auth op = .ok s') (hs : op.spend? = none)
    (hap : ∀ o sp amt lu, op ≠ .approve o sp amt lu) :
    s'.allow = s.allow ∧ s.now ≤ s'.now ∧ ((∀ n, op ≠ .advance n) → s'.now = s.now) ∧
    ∀ a, s'.bal a < s.bal a →
      a ∈ auth ∧ ((∃ t amt, op = .transfer a t amt) ∨ (∃ amt, op = .burn a amt)) := by
  cases op with
  | mint t amt =>
    obtain ⟨s1, h1, rfl⟩ := mint_ok h
    obtain ⟨ua, un, _, ub⟩ := update_frame h1
    refine ⟨by rw [emit_allow, ua], by rw [emit_now, un]; exact Nat.le_refl _,
      fun _ => by rw [emit_now, un], ?_⟩
    intro a hlt
    rw [emit_bal] at hlt
    obtain ⟨hf, _⟩ := ub a hlt
    cases hf
  | transfer f t amt =>
    obtain ⟨ha, s1, h1, rfl⟩ := transfer_ok h
    obtain ⟨ua, un, _, ub⟩ := update_frame h1
    refine ⟨by rw [emit_allow, ua], by rw [emit_now, un]; exact Nat.le_refl _,
      fun _ => by rw [emit_now, un], ?_⟩
    intro a hlt
    rw [emit_bal] at hlt
    obtain ⟨hf, _⟩ := ub a hlt
    injection hf with hf; subst hf
    exact ⟨ha, .inl ⟨t, amt, rfl⟩⟩
  | burn f amt =>
    obtain ⟨ha, s1, h1, rfl⟩ := burn_ok h
    obtain ⟨ua, un, _, ub⟩ := update_frame h1
    refine ⟨by rw [emit_allow, ua], by rw [emit_now, un]; exact Nat.le_refl _,
      fun _ => by rw [emit_now, un], ?_⟩
    intro a hlt
    rw [emit_bal] at hlt
    obtain ⟨hf, _⟩ := ub a hlt
    injection hf with hf; subst hf
    exact ⟨ha, .inr ⟨amt, rfl⟩⟩
  | advance n =>
    injection h with h; subst h
    exact ⟨rfl, Nat.le_add_right _ _, fun hn => absurd rfl (hn n),
      fun a hlt => absurd hlt (Int.lt_irrefl _)⟩
  | transferFrom _ _ _ _ => cases hs
  | burnFrom _ _ _ => cases hs
  | approve o sp amt lu => exact absurd rfl (hap o sp amt lu)

/-- an op is an approve, a spend, or neither -/
theorem op_trichotomy (op : Op) :
    (∃ o sp amt lu, op = .approve o sp amt lu) ∨ (∃ f sp amt, op.spend? = some (f, sp, amt)) ∨
    (op.spend? = none ∧ ∀ o sp amt lu, op ≠ .approve o sp amt lu) := by
  cases op with
  | approve o sp amt lu => exact .inl ⟨o, sp, amt, lu, rfl⟩
  | transferFrom sp f t amt => exact .inr (.inl ⟨f, sp, amt, rfl⟩)
  | burnFrom sp f amt => exact .inr (.inl ⟨f, sp, amt, rfl⟩)
  | mint _ _ => exact .inr (.inr ⟨rfl, fun _ _ _ _ h => by cases h⟩)
  | transfer _ _ _ => exact .inr (.inr ⟨rfl, fun _ _ _ _ h => by cases h⟩)
  | burn _ _ => exact .inr (.inr ⟨rfl, fun _ _ _ _ h => by cases h⟩)
  | advance _ => exact .inr (.inr ⟨rfl, fun _ _ _ _ h => by cases h⟩)

/-! ### ghost bookkeeping over histories

The ghost state is computed from the history alone: which calls were accepted and what
their arguments were. It never looks at the stored allowances. -/

/-- per (owner, spender): amount of the last accepted `approve`, total spent by accepted
`transfer_from` / `burn_from` since then, and the `live_until_ledger` of that approval -/
structure Ghost where
  approved : Int
  spent : Int
  lu : Nat
  deriving Repr, DecidableEq

def Ghost.rem (g : Ghost) : Int := g.approved - g.spent

def ghost0 : Nat → Nat → Ghost := fun _ _ => ⟨0, 0, 0⟩

/-- ghost update for an ACCEPTED operation -/
def ghostOp (g : Nat → Nat → Ghost) : Op → Nat → Nat → Ghost
  | .approve o sp amt lu => upd2 g o sp ⟨amt, 0, lu⟩
  | .transferFrom sp f _ amt => upd2 g f sp ⟨(g f sp).approved, (g f sp).spent + amt, (g f sp).lu⟩
  | .burnFrom sp f amt => upd2 g f sp ⟨(g f sp).approved, (g f sp).spent + amt, (g f sp).lu⟩
  | _ => g

/-- model step and ghost step side by side; a rejected call changes neither -/
def gstep (c : Cfg) (x : State × (Nat → Nat → Ghost)) (y : List Nat × Op) :
    State × (Nat → Nat → Ghost) :=
  match apply c x.1 y.1 y.2 with
  | .ok s' => (s', ghostOp x.2 y.2)
  | .error _ => x

def grun (c : Cfg) (x : State × (Nat → Nat → Ghost)) (ops : List (List Nat × Op)) :
    State × (Nat → Nat → Ghost) := ops.foldl (gstep c) x

/-- the ghost counters after a history started from the empty token at ledger `now` -/
def ghost (c : Cfg) (now : Nat) (ops : List (List Nat × Op)) : Nat → Nat → Ghost :=
  (grun c (init now, ghost0) ops).2

theorem gstep_fst (c : Cfg) (x : State × (Nat → Nat → Ghost)) (y : List Nat × Op) :
    (gstep c x y).1 = step c x.1 y := by
  unfold gstep step
  cases apply c x.1 y.1 y.2 <;> rfl

/-- the state component of the ghost-instrumented run is the plain run -/
theorem grun_fst (c : Cfg) (x : State × (Nat → Nat → Ghost)) (ops : List (List Nat × Op)) :
    (grun c x ops).1 = run c x.1 ops := by
  induction ops generalizing x with
  | nil => rfl
  | cons y ys ih =>
    simp only [grun, run, List.foldl_cons] at *
    rw [ih, gstep_fst]

/-- relation between the ghost record and the stored entry of one (owner, spender) pair -/
def GRel (g : Ghost) (t : Option (Temp AllowanceData)) : Prop :=
  0 ≤ g.rem ∧ (t = none → g.rem = 0) ∧
  ∀ e, t = some e → e.val.amount = g.rem ∧
    (0 < g.rem → e.val.liveUntilLedger = g.lu ∧ g.lu ≤ e.liveUntil)

def GInv (s : State) (g : Nat → Nat → Ghost) : Prop := ∀ o sp, GRel (g o sp) (s.allow o sp)

theorem ginv_init (now : Nat) : GInv (init now) ghost0 := by
  intro o sp
  refine ⟨by simp [ghost0, Ghost.rem], fun _ => by simp [ghost0, Ghost.rem], ?_⟩
  intro e he
  simp [init] at he

/-- under the ghost relation the getter is determined by the ghost record and the ledger -/
theorem allowance_of_grel {s : State} {o sp : Nat} {g : Ghost} (h : GRel g (s.allow o sp)) :
    allowance s o sp = if s.now ≤ g.lu then g.rem else 0 := by
  obtain ⟨h0, hn, hs⟩ := h
  cases ht : s.allow o sp with
  | none =>
    have := hn ht
    unfold allowance; rw [allowanceData_none ht]
    split <;> simp only <;> omega
  | some e =>
    obtain ⟨ha, hp⟩ := hs e ht
    by_cases hr : 0 < g.rem
    · obtain ⟨hlu, hlive⟩ := hp hr
      by_cases hnow : s.now ≤ g.lu
      · rw [if_pos hnow]
        unfold allowance
        rw [allowanceData_live ht (by omega) (by omega), ha]
      · rw [if_neg hnow]
        unfold allowance
        rw [allowanceData_expired ht (by omega)]
    · have hz : g.rem = 0 := by omega
      have : allowance s o sp = 0 := by
        rcases allowanceData_cases s o sp with h1 | ⟨e1, he1, _, _, hd⟩
        · unfold allowance; rw [h1]
        · rw [ht] at he1; injection he1 with he1; subst he1
          unfold allowance; rw [hd, ha, hz]
      rw [this, hz]; split <;> rfl

theorem ginv_setAllowance {c : Cfg} {s s0 : State} {g : Nat → Nat → Ghost} {o sp : Nat}
    {amt : Int} {lu : Nat} (hi : GInv s g) (h : setAllowance c s o sp amt lu = .ok s0)
    (a b : Int) (hab : a - b = amt) : GInv s0 (upd2 g o sp ⟨a, b, lu⟩) := by
  intro x y
  by_cases hxy : x = o ∧ y = sp
  · obtain ⟨rfl, rfl⟩ := hxy
    rw [upd2_same]
    obtain ⟨h0, _, _, e', he', hv', hlu', _⟩ := setAllowance_entry h
    refine ⟨?_, ?_, ?_⟩
    · simp only [Ghost.rem]; omega
    · intro hn; rw [he'] at hn; cases hn
    · intro e he
      rw [he'] at he; injection he with he; subst he
      rw [hv']
      have hr : (Ghost.mk a b lu).rem = a - b := rfl
      rw [hr]
      exact ⟨by show amt = a - b; omega, fun hp => ⟨rfl, hlu' (by omega)⟩⟩
  · rw [upd2_other _ _ _ _ _ _ hxy]
    obtain ⟨_, _, _, _, hother⟩ := setAllowance_ok h
    rw [hother x y hxy]
    exact hi x y

theorem ginv_spend {c : Cfg} {s s0 : State} {g : Nat → Nat → Ghost} {f sp : Nat} {amt : Int}
    (hi : GInv s g) (h : spendAllowance c s f sp amt = .ok s0) :
    GInv s0 (upd2 g f sp ⟨(g f sp).approved, (g f sp).spent + amt, (g f sp).lu⟩) := by
  obtain ⟨h0, hle, hc⟩ := spendAllowance_cases h
  rcases hc with ⟨hp, hset⟩ | ⟨hz, rfl⟩
  · obtain ⟨_, _, _, e, e', he, hl, hx, ha, _, _, _, _⟩ := spendAllowance_pos h hp
    have hd : allowanceData s f sp = e.val := allowanceData_live he hl hx
    obtain ⟨_, _, hs⟩ := hi f sp
    obtain ⟨hamt, hpos⟩ := hs e he
    rw [hd] at hset hle
    have hr : 0 < (g f sp).rem := by omega
    obtain ⟨hlu, _⟩ := hpos hr
    rw [hlu] at hset
    apply ginv_setAllowance hi hset
    simp only [Ghost.rem] at hamt
    omega
  · subst hz
    intro x y
    by_cases hxy : x = f ∧ y = sp
    · obtain ⟨rfl, rfl⟩ := hxy
      rw [upd2_same]
      obtain ⟨a0, a1, a2⟩ := hi x y
      simp only [Ghost.rem, Int.add_zero] at *
      exact ⟨a0, a1, a2⟩
    · rw [upd2_other _ _ _ _ _ _ hxy]; exact hi x y

theorem GInv.congr {s s' : State} {g : Nat → Nat → Ghost} (hi : GInv s g) (h : s'.allow = s.allow) :
    GInv s' g := by
  intro o sp; rw [h]; exact hi o sp

/-- one accepted invocation preserves the ghost relation -/
theorem ginv_apply {c : Cfg} {s s' : State} {g : Nat → Nat → Ghost} {auth : List Nat} {op : Op}
    (hi : GInv s g) (h : apply c s auth op = .ok s') : GInv s' (ghostOp g op) := by
  rcases op_trichotomy op with ⟨o, sp, amt, lu, rfl⟩ | ⟨f, sp, amt, hs⟩ | ⟨hs, hap⟩
  · obtain ⟨_, s0, h0, ha, _, _⟩ := apply_approve h
    exact (ginv_setAllowance hi h0 amt 0 (by omega)).congr ha
  · obtain ⟨_, s0, h0, ha, _, _⟩ := apply_spend h hs
    have hg := (ginv_spend (g := g) hi h0).congr ha
    cases op with
    | transferFrom sp' f' t amt' =>
      simp only [Op.spend?, Option.some.injEq, Prod.mk.injEq] at hs
      obtain ⟨rfl, rfl, rfl⟩ := hs
      exact hg
    | burnFrom sp' f' amt' =>
      simp only [Op.spend?, Option.some.injEq, Prod.mk.injEq] at hs
      obtain ⟨rfl, rfl, rfl⟩ := hs
      exact hg
    | mint _ _ => cases hs
    | transfer _ _ _ => cases hs
    | approve _ _ _ _ => cases hs
    | burn _ _ => cases hs
    | advance _ => cases hs
  · obtain ⟨ha, _, _, _⟩ := apply_other h hs hap
    have hg : ghostOp g op = g := by
      cases op with
      | approve o sp amt lu => exact absurd rfl (hap o sp amt lu)
      | transferFrom _ _ _ _ => cases hs
      | burnFrom _ _ _ => cases hs
      | mint _ _ => rfl
      | transfer _ _ _ => rfl
      | burn _ _ => rfl
      | advance _ => rfl
    rw [hg]; exact hi.congr ha

/-- the ghost relation holds after every history, from any related starting point -/
theorem ginv_grun (c : Cfg) (x : State × (Nat → Nat → Ghost)) (ops : List (List Nat × Op))
    (hi : GInv x.1 x.2) : GInv (grun c x ops).1 (grun c x ops).2 := by
  induction ops generalizing x with
  | nil => exact hi
  | cons y ys ih =>
    simp only [grun, List.foldl_cons] at *
    apply ih
    unfold gstep
    cases hx : apply c x.1 y.1 y.2 with
    | error e => exact hi
    | ok s' => exact ginv_apply hi hx

/-! ### further consequences used by the property theorems -/

theorem spend?_eq {op : Op} {f sp : Nat} {amt : Int} (h : op.spend? = some (f, sp, amt)) :
    (∃ t, op = .transferFrom sp f t amt) ∨ op = .burnFrom sp f amt := by
  cases op with
  | transferFrom sp' f' t amt' =>
    simp only [Op.spend?, Option.some.injEq, Prod.mk.injEq] at h
    obtain ⟨rfl, rfl, rfl⟩ := h
    exact .inl ⟨t, rfl⟩
  | burnFrom sp' f' amt' =>
    simp only [Op.spend?, Option.some.injEq, Prod.mk.injEq] at h
    obtain ⟨rfl, rfl, rfl⟩ := h
    exact .inr rfl
  | mint _ _ => cases h
  | transfer _ _ _ => cases h
  | approve _ _ _ _ => cases h
  | burn _ _ => cases h
  | advance _ => cases h

/-- after a successful `set_allowance` the getter reads exactly the amount written -/
theorem setAllowance_allowance {c : Cfg} {s s0 : State} {o sp : Nat} {amt : Int} {lu : Nat}
    (h : setAllowance c s o sp amt lu = .ok s0) : allowance s0 o sp = amt := by
  obtain ⟨h0, _, hnow, e', he', hv', hlu', _⟩ := setAllowance_entry h
  obtain ⟨_, _, en, _, _⟩ := setAllowance_ok h
  by_cases hp : 0 < amt
  · unfold allowance
    rw [allowanceData_live he' (by rw [en]; have := hlu' hp; have := hnow hp; omega)
      (by rw [hv', en]; exact hnow hp), hv']
  · have hz : amt = 0 := by omega
    rcases allowanceData_cases s0 o sp with h1 | ⟨e1, he1, _, _, hd⟩
    · unfold allowance; rw [h1, hz]
    · rw [he'] at he1; injection he1 with he1; subst he1
      unfold allowance; rw [hd, hv', hz]

/-- with the allowance map unchanged, a later ledger reads the same allowance or zero -/
theorem allowance_later {s s' : State} (ha : s'.allow = s.allow) (hn : s.now ≤ s'.now) (o sp : Nat) :
    allowance s' o sp = allowance s o sp ∨ allowance s' o sp = 0 := by
  rcases allowanceData_cases s' o sp with h1 | ⟨e, he, hl, hx, hd⟩
  · exact .inr (by unfold allowance; rw [h1])
  · rw [ha] at he
    refine .inl ?_
    unfold allowance
    rw [hd, allowanceData_live he (by omega) (by omega)]

theorem approve_eq_of_auth {c : Cfg} {s : State} {auth : List Nat} {o sp : Nat} {amt : Int} {lu : Nat}
    (h : o ∈ auth) : approve c s auth o sp amt lu =
      (setAllowance c s o sp amt lu >>= fun s0 => pure (emit s0 (.approve o sp amt lu))) := by
  unfold approve requireAuth
  rw [if_pos h]
  rfl

theorem approve_err_of_not_auth {c : Cfg} {s : State} {auth : List Nat} {o sp : Nat} {amt : Int}
    {lu : Nat} (h : o ∉ auth) : approve c s auth o sp amt lu = .error .auth := by
  unfold approve requireAuth
  rw [if_neg h]
  rfl

end OZ.Fungible
