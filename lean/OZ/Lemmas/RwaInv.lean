import OZ.Lemmas.Rwa
/-
Invariants of the RWA model, one successful invocation at a time:
`FrozenInv` (0 ≤ frozen ≤ balance), the fungible invariant of the embedded base token, the
notification log, and "replaying the emitted mint / burn / transfer events gives the balances".
-/
namespace OZ.Rwa
open OZ.Host OZ.Fungible

/-- the holder-initiated movements: `(from, to, amount)` of a `transfer` / `transfer_from` -/
def Op.holderMove : Op → Option (Nat × Nat × Int)
  | .transfer f t a => some (f, t, a)
  | .transferFrom _ f t a => some (f, t, a)
  | _ => none

/-- the compliance notifications owed by a whole history: those of the accepted operations,
in order, each computed in the state the operation started from -/
def owedRun (c : Cfg) : State → List (List Nat × Op) → List Note
  | _, [] => []
  | s, x :: xs =>
    match apply c s x.1 x.2 with
    | .ok s' => x.2.owedNotes s ++ owedRun c s' xs
    | .error _ => owedRun c s xs

def isOk {α} : Except Err α → Bool
  | .ok _ => true
  | .error _ => false

/-- for every account, `0 ≤ frozen tokens ≤ balance` -/
def FrozenInv (s : State) : Prop := ∀ a, 0 ≤ s.frozen a ∧ s.frozen a ≤ s.base.bal a

theorem FrozenInv.congr {s s' : State} (h : FrozenInv s) (hb : s'.base.bal = s.base.bal)
    (hf : s'.frozen = s.frozen) : FrozenInv s' := by
  intro a; rw [hb, hf]; exact h a

theorem move_frozenInv {s s' : State} {f t : Nat} {amt : Int} (hi : FrozenInv s)
    (p : MovePost s s' f t amt) : FrozenInv s' := by
  intro x
  have hx := hi x; have hf := hi f; have ht := hi t
  have hfree := p.gates.free; have h0 := p.nonneg
  rw [p.frozen, p.bal x]
  by_cases hxt : x = t
  · subst hxt
    rw [if_pos rfl]
    by_cases hxf : x = f
    · subst hxf; rw [if_pos rfl]; omega
    · rw [if_neg hxf]; omega
  · rw [if_neg hxt]
    by_cases hxf : x = f
    · subst hxf; rw [if_pos rfl]; omega
    · rw [if_neg hxf]; omega

theorem mint_frozenInv {s s' : State} {t : Nat} {amt : Int} (hi : FrozenInv s)
    (p : MintPost s s' t amt) : FrozenInv s' := by
  intro x
  have hx := hi x
  obtain ⟨h0, -, -, -, hb⟩ := update_mint p.update
  rw [p.frozen, hb x]
  by_cases hxt : x = t
  · subst hxt; rw [if_pos rfl]; omega
  · rw [if_neg hxt]; omega

theorem burn_frozenInv {s s' : State} {a : Nat} {amt : Int} (hi : FrozenInv s)
    (p : BurnPost s s' a amt) : FrozenInv s' := by
  intro x
  have hx := hi x
  obtain ⟨h0, hle, -, -, -, hb⟩ := update_burn p.update
  rw [p.frozen x, hb x]
  by_cases hxa : x = a
  · subst hxa; rw [if_pos rfl, if_pos rfl]; unfold frozenAfter; split <;> omega
  · rw [if_neg hxa, if_neg hxa]; omega

theorem forced_frozenInv {s s' : State} {f t : Nat} {amt : Int} (hi : FrozenInv s)
    (p : ForcedPost s s' f t amt) : FrozenInv s' := by
  intro x
  have hx := hi x; have hf := hi f; have ht := hi t
  obtain ⟨h0, hle, -, -, -, hb⟩ := update_move p.update
  rw [p.frozen x, hb x]
  by_cases hxt : x = t
  · subst hxt
    rw [if_pos rfl]
    by_cases hxf : x = f
    · subst hxf; rw [if_pos rfl, if_pos rfl]; unfold frozenAfter; split <;> omega
    · rw [if_neg hxf, if_neg hxf]; omega
  · rw [if_neg hxt]
    by_cases hxf : x = f
    · subst hxf; rw [if_pos rfl, if_pos rfl]; unfold frozenAfter; split <;> omega
    · rw [if_neg hxf, if_neg hxf]; omega

theorem frozenAfter_all {s : State} {a : Nat} (h0 : 0 ≤ s.frozen a) :
    frozenAfter s a (s.base.bal a) = 0 := by
  unfold frozenAfter; split <;> omega

theorem recover_frozenInv {s s' : State} {old new : Nat} (hi : FrozenInv s)
    (p : RecoverPost s s' old new) : FrozenInv s' := by
  intro x
  have hx := hi x; have ho := hi old; have hn := hi new
  obtain ⟨h0, hle, -, -, -, hb⟩ := update_move p.update
  have hfa := frozenAfter_all ho.1
  rw [p.frozen x, hb x, hfa]
  by_cases hpos : s.frozen old > 0
  · rw [if_pos hpos]
    by_cases hxn : x = new
    · subst hxn
      rw [if_pos rfl, if_pos rfl]
      by_cases hno : x = old
      · subst hno; rw [if_pos rfl, if_pos rfl]; omega
      · rw [if_neg hno, if_neg hno]; omega
    · rw [if_neg hxn, if_neg hxn]
      by_cases hxo : x = old
      · subst hxo; rw [if_pos rfl, if_pos rfl]; omega
      · rw [if_neg hxo, if_neg hxo]; omega
  · rw [if_neg hpos]
    by_cases hxn : x = new
    · subst hxn
      rw [if_pos rfl]
      by_cases hno : x = old
      · subst hno; rw [if_pos rfl, if_pos rfl]; omega
      · rw [if_neg hno, if_neg hno]; omega
    · rw [if_neg hxn]
      by_cases hxo : x = old
      · subst hxo; rw [if_pos rfl, if_pos rfl]; omega
      · rw [if_neg hxo, if_neg hxo]; omega

/-- one successful invocation keeps `0 ≤ frozen ≤ balance` for every account -/
theorem apply_frozenInv_aux (c : Cfg) {s s' : State} (hi : FrozenInv s) (auth : List Nat) (op : Op)
    (h : apply c s auth op = .ok s') : FrozenInv s' := by
  cases op with
  | transfer f t a => exact move_frozenInv hi (transfer_ok (apply_transfer h)).2
  | transferFrom sp f t a => exact move_frozenInv hi (transferFrom_ok (apply_transferFrom h)).2.2
  | approve o sp a lu =>
    obtain ⟨-, e1, -, e2, -⟩ := approve_ok (apply_approve h)
    exact hi.congr e1 e2
  | mint t a op => exact mint_frozenInv hi (mint_ok (apply_mint h).2)
  | burn x a op => exact burn_frozenInv hi (burn_ok (apply_burn h).2)
  | forcedTransfer f t a op => exact forced_frozenInv hi (forcedTransfer_ok (apply_forcedTransfer h).2)
  | recover old new op =>
    obtain ⟨-, r, hr⟩ := apply_recover h
    obtain ⟨-, -, hcase⟩ := recoverBalance_ok hr
    rcases hcase with ⟨-, -, e⟩ | ⟨-, -, p⟩
    · subst e; exact hi.congr rfl rfl
    · exact recover_frozenInv hi p
  | freezePartial x a op =>
    obtain ⟨h0, hle, eb, -, -, -, -, ef, -⟩ := freezePartial_ok (apply_freezePartial h).2
    intro y
    have hy := hi y
    rw [ef y, eb]
    by_cases hyx : y = x
    · subst hyx; rw [if_pos rfl]; omega
    · rw [if_neg hyx]; exact hy
  | unfreezePartial x a op =>
    obtain ⟨h0, hle, eb, -, -, -, -, ef, -⟩ := unfreezePartial_ok (apply_unfreezePartial h).2
    intro y
    have hy := hi y
    rw [ef y, eb]
    by_cases hyx : y = x
    · subst hyx; rw [if_pos rfl]; omega
    · rw [if_neg hyx]; exact hy
  | setAddressFrozen x b op =>
    obtain ⟨-, e⟩ := apply_setAddressFrozen h
    subst e; exact hi.congr rfl rfl
  | pause op =>
    obtain ⟨-, e⟩ := pause_ok (apply_pause h).2
    subst e; exact hi.congr rfl rfl
  | unpause op =>
    obtain ⟨-, e⟩ := unpause_ok (apply_unpause h).2
    subst e; exact hi.congr rfl rfl
  | advance n => have e := apply_advance h; subst e; exact hi.congr rfl rfl
  | envIdOk a ok => have e := apply_envIdOk h; subst e; exact hi.congr rfl rfl
  | envRecTarget a t => have e := apply_envRecTarget h; subst e; exact hi.congr rfl rfl
  | envModule m ct cc => have e := apply_envModule h; subst e; exact hi.congr rfl rfl
  | addModule hk m op =>
    obtain ⟨-, -, e⟩ := addModule_ok (apply_addModule h).2
    subst e; exact hi.congr rfl rfl
  | removeModule hk m op =>
    obtain ⟨-, e⟩ := removeModule_ok (apply_removeModule h).2
    subst e; exact hi.congr rfl rfl
  | bindToken op =>
    obtain ⟨-, e⟩ := bindToken_ok (apply_bindToken h).2
    subst e; exact hi.congr rfl rfl
  | unbindToken op =>
    obtain ⟨-, e⟩ := unbindToken_ok (apply_unbindToken h).2
    subst e; exact hi.congr rfl rfl

/-! ### the notification log -/

theorem apply_notes_aux (c : Cfg) {s s' : State} (auth : List Nat) (op : Op)
    (h : apply c s auth op = .ok s') : s'.notes = s.notes ++ op.owedNotes s := by
  cases op with
  | transfer f t a => exact (transfer_ok (apply_transfer h)).2.notes
  | transferFrom sp f t a => exact (transferFrom_ok (apply_transferFrom h)).2.2.notes
  | approve o sp a lu =>
    obtain ⟨-, -, -, -, -, -, e, -⟩ := approve_ok (apply_approve h)
    simp [Op.owedNotes, e]
  | mint t a op => exact (mint_ok (apply_mint h).2).notes
  | burn x a op => exact (burn_ok (apply_burn h).2).notes
  | forcedTransfer f t a op => exact (forcedTransfer_ok (apply_forcedTransfer h).2).notes
  | recover old new op =>
    obtain ⟨-, r, hr⟩ := apply_recover h
    obtain ⟨-, -, hcase⟩ := recoverBalance_ok hr
    rcases hcase with ⟨-, hz, e⟩ | ⟨-, hnz, p⟩
    · subst e; simp [Op.owedNotes, hz, logId]
    · simp only [Op.owedNotes]; rw [if_neg hnz]; exact p.notes
  | freezePartial x a op =>
    obtain ⟨-, -, -, -, -, e, -⟩ := freezePartial_ok (apply_freezePartial h).2
    simp [Op.owedNotes, e]
  | unfreezePartial x a op =>
    obtain ⟨-, -, -, -, -, e, -⟩ := unfreezePartial_ok (apply_unfreezePartial h).2
    simp [Op.owedNotes, e]
  | setAddressFrozen x b op =>
    obtain ⟨-, e⟩ := apply_setAddressFrozen h
    subst e; simp [Op.owedNotes, setAddressFrozen, emit]
  | pause op =>
    obtain ⟨-, e⟩ := pause_ok (apply_pause h).2
    subst e; simp [Op.owedNotes, emit]
  | unpause op =>
    obtain ⟨-, e⟩ := unpause_ok (apply_unpause h).2
    subst e; simp [Op.owedNotes, emit]
  | advance n => have e := apply_advance h; subst e; simp [Op.owedNotes]
  | envIdOk a ok => have e := apply_envIdOk h; subst e; simp [Op.owedNotes]
  | envRecTarget a t => have e := apply_envRecTarget h; subst e; simp [Op.owedNotes]
  | envModule m ct cc => have e := apply_envModule h; subst e; simp [Op.owedNotes]
  | addModule hk m op =>
    obtain ⟨-, -, e⟩ := addModule_ok (apply_addModule h).2
    subst e; simp [Op.owedNotes, emit]
  | removeModule hk m op =>
    obtain ⟨-, e⟩ := removeModule_ok (apply_removeModule h).2
    subst e; simp [Op.owedNotes, emit]
  | bindToken op =>
    obtain ⟨-, e⟩ := bindToken_ok (apply_bindToken h).2
    subst e; simp [Op.owedNotes]
  | unbindToken op =>
    obtain ⟨-, e⟩ := unbindToken_ok (apply_unbindToken h).2
    subst e; simp [Op.owedNotes]

/-! ### conservation (C01) for the embedded base token -/

/-- what one successful invocation does to the supply -/
def supplyDelta : Op → Int
  | .mint _ a _ => a
  | .burn _ a _ => -a
  | _ => 0

theorem apply_inv_aux {U : List Nat} (hn : U.Nodup) (c : Cfg) {s s' : State} (hi : Inv U s.base)
    (auth : List Nat) (op : Op) (hU : ∀ a ∈ op.addrs, a ∈ U)
    (h : apply c s auth op = .ok s') :
    Inv U s'.base ∧ s'.base.supply = s.base.supply + supplyDelta op := by
  have keep : ∀ {s' : State}, s'.base.supply = s.base.supply → s'.base.bal = s.base.bal →
      Inv U s'.base ∧ s'.base.supply = s.base.supply + 0 := by
    intro s' e1 e2; exact ⟨hi.congr e1 e2, by omega⟩
  cases op with
  | transfer f t a =>
    obtain ⟨b1, e1, e2, hu⟩ := (transfer_ok (apply_transfer h)).2.update
    obtain ⟨i, hs⟩ := update_inv hn (hi.congr e1 e2) (by intro x e; cases e; exact hU _ (by simp [Op.addrs]))
      (by intro x e; cases e; exact hU _ (by simp [Op.addrs])) hu
    exact ⟨i, by simp [supplyDelta] at *; rw [hs, e1]⟩
  | transferFrom sp f t a =>
    obtain ⟨b1, e1, e2, hu⟩ := (transferFrom_ok (apply_transferFrom h)).2.2.update
    obtain ⟨i, hs⟩ := update_inv hn (hi.congr e1 e2) (by intro x e; cases e; exact hU _ (by simp [Op.addrs]))
      (by intro x e; cases e; exact hU _ (by simp [Op.addrs])) hu
    exact ⟨i, by simp [supplyDelta] at *; rw [hs, e1]⟩
  | approve o sp a lu =>
    obtain ⟨-, e1, e2, -⟩ := approve_ok (apply_approve h)
    exact keep e2 e1
  | mint t a op =>
    obtain ⟨i, hs⟩ := update_inv hn hi (by intro x e; cases e)
      (by intro x e; cases e; exact hU _ (by simp [Op.addrs])) (mint_ok (apply_mint h).2).update
    exact ⟨i, by simp [supplyDelta] at *; rw [hs]⟩
  | burn x a op =>
    obtain ⟨i, hs⟩ := update_inv hn hi (by intro y e; cases e; exact hU _ (by simp [Op.addrs]))
      (by intro y e; cases e) (burn_ok (apply_burn h).2).update
    exact ⟨i, by simp [supplyDelta] at *; rw [hs]; omega⟩
  | forcedTransfer f t a op =>
    obtain ⟨i, hs⟩ := update_inv hn hi (by intro x e; cases e; exact hU _ (by simp [Op.addrs]))
      (by intro x e; cases e; exact hU _ (by simp [Op.addrs])) (forcedTransfer_ok (apply_forcedTransfer h).2).update
    exact ⟨i, by simp [supplyDelta] at *; rw [hs]⟩
  | recover old new op =>
    obtain ⟨-, r, hr⟩ := apply_recover h
    obtain ⟨-, -, hcase⟩ := recoverBalance_ok hr
    rcases hcase with ⟨-, -, e⟩ | ⟨-, -, p⟩
    · subst e; exact keep rfl rfl
    · obtain ⟨i, hs⟩ := update_inv hn hi (by intro x e; cases e; exact hU _ (by simp [Op.addrs]))
        (by intro x e; cases e; exact hU _ (by simp [Op.addrs])) p.update
      exact ⟨i, by simp [supplyDelta] at *; rw [hs]⟩
  | freezePartial x a op =>
    obtain ⟨-, -, eb, -⟩ := freezePartial_ok (apply_freezePartial h).2
    exact keep (by rw [eb]) (by rw [eb])
  | unfreezePartial x a op =>
    obtain ⟨-, -, eb, -⟩ := unfreezePartial_ok (apply_unfreezePartial h).2
    exact keep (by rw [eb]) (by rw [eb])
  | setAddressFrozen x b op =>
    obtain ⟨-, e⟩ := apply_setAddressFrozen h
    subst e; exact keep rfl rfl
  | pause op =>
    obtain ⟨-, e⟩ := pause_ok (apply_pause h).2
    subst e; exact keep rfl rfl
  | unpause op =>
    obtain ⟨-, e⟩ := unpause_ok (apply_unpause h).2
    subst e; exact keep rfl rfl
  | advance n => have e := apply_advance h; subst e; exact keep rfl rfl
  | envIdOk a ok => have e := apply_envIdOk h; subst e; exact keep rfl rfl
  | envRecTarget a t => have e := apply_envRecTarget h; subst e; exact keep rfl rfl
  | envModule m ct cc => have e := apply_envModule h; subst e; exact keep rfl rfl
  | addModule hk m op =>
    obtain ⟨-, -, e⟩ := addModule_ok (apply_addModule h).2
    subst e; exact keep rfl rfl
  | removeModule hk m op =>
    obtain ⟨-, e⟩ := removeModule_ok (apply_removeModule h).2
    subst e; exact keep rfl rfl
  | bindToken op =>
    obtain ⟨-, e⟩ := bindToken_ok (apply_bindToken h).2
    subst e; exact keep rfl rfl
  | unbindToken op =>
    obtain ⟨-, e⟩ := unbindToken_ok (apply_unbindToken h).2
    subst e; exact keep rfl rfl

theorem ok_bind {α β} (v : α) (f : α → Except Err β) : (Except.ok v >>= f) = f v := rfl

theorem chk_in {x : Int} (h : in128 x) : chk x = .ok x := by unfold chk; rw [if_pos h]

theorem base_init_inv (U : List Nat) (now : Nat) : Inv U (Fungible.init now) := by
  refine ⟨?_, ?_, ?_, ?_, ?_⟩
  · induction U with
    | nil => rfl
    | cons x xs ih => simp only [total, List.map_cons, List.sum_cons, Fungible.init] at *; omega
  · intro a; simp [Fungible.init]
  · intro a _; simp [Fungible.init]
  · simp [Fungible.init]
  · simp [Fungible.init, I128_MAX]

/-! ### replay of the emitted mint / burn / transfer events -/

/-- replaying the token's events from the empty map gives the current balances -/
def ReplayOK (s : State) : Prop := replay s.events = s.base.bal

theorem apply_replay_aux (c : Cfg) {s s' : State} (hr : ReplayOK s) (auth : List Nat) (op : Op)
    (h : apply c s auth op = .ok s') : ReplayOK s' := by
  unfold ReplayOK at *
  cases op with
  | transfer f t a =>
    have p := (transfer_ok (apply_transfer h)).2
    obtain ⟨b1, -, e2, hu⟩ := p.update
    rw [p.replay, hr, ← e2]; exact update_replay_transfer hu
  | transferFrom sp f t a =>
    have p := (transferFrom_ok (apply_transferFrom h)).2.2
    obtain ⟨b1, -, e2, hu⟩ := p.update
    rw [p.replay, hr, ← e2]; exact update_replay_transfer hu
  | approve o sp a lu =>
    obtain ⟨-, e1, -, -, -, -, -, -, er, -⟩ := approve_ok (apply_approve h)
    rw [er, hr, e1]
  | mint t a op =>
    have p := mint_ok (apply_mint h).2
    rw [p.replay, hr]; exact update_replay_mint p.update
  | burn x a op =>
    have p := burn_ok (apply_burn h).2
    rw [p.replay, hr]; exact update_replay_burn p.update
  | forcedTransfer f t a op =>
    have p := forcedTransfer_ok (apply_forcedTransfer h).2
    rw [p.replay, hr]; exact update_replay_transfer p.update
  | recover old new op =>
    obtain ⟨-, r, hrec⟩ := apply_recover h
    obtain ⟨-, -, hcase⟩ := recoverBalance_ok hrec
    rcases hcase with ⟨-, -, e⟩ | ⟨-, -, p⟩
    · subst e; exact hr
    · rw [p.replay, hr]; exact update_replay_transfer p.update
  | freezePartial x a op =>
    obtain ⟨-, -, eb, -, -, -, -, -, er, -⟩ := freezePartial_ok (apply_freezePartial h).2
    rw [er, hr, eb]
  | unfreezePartial x a op =>
    obtain ⟨-, -, eb, -, -, -, -, -, er, -⟩ := unfreezePartial_ok (apply_unfreezePartial h).2
    rw [er, hr, eb]
  | setAddressFrozen x b op =>
    obtain ⟨-, e⟩ := apply_setAddressFrozen h
    subst e; simp only [setAddressFrozen, emit]; rw [replay_snoc]; exact hr
  | pause op =>
    obtain ⟨-, e⟩ := pause_ok (apply_pause h).2
    subst e; simp only [emit]; rw [replay_snoc]; exact hr
  | unpause op =>
    obtain ⟨-, e⟩ := unpause_ok (apply_unpause h).2
    subst e; simp only [emit]; rw [replay_snoc]; exact hr
  | advance n => have e := apply_advance h; subst e; exact hr
  | envIdOk a ok => have e := apply_envIdOk h; subst e; exact hr
  | envRecTarget a t => have e := apply_envRecTarget h; subst e; exact hr
  | envModule m ct cc => have e := apply_envModule h; subst e; exact hr
  | addModule hk m op =>
    obtain ⟨-, -, e⟩ := addModule_ok (apply_addModule h).2
    subst e; simp only [emit]; rw [replay_snoc]; exact hr
  | removeModule hk m op =>
    obtain ⟨-, e⟩ := removeModule_ok (apply_removeModule h).2
    subst e; simp only [emit]; rw [replay_snoc]; exact hr
  | bindToken op =>
    obtain ⟨-, e⟩ := bindToken_ok (apply_bindToken h).2
    subst e; exact hr
  | unbindToken op =>
    obtain ⟨-, e⟩ := unbindToken_ok (apply_unbindToken h).2
    subst e; exact hr

end OZ.Rwa
