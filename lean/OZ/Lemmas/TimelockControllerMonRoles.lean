import OZ.Lemmas.TimelockControllerMon
/-
Soundness of the C09 monitor, role part: the displayed role lists of the model's observation
(`modelRoles`, `modelRadm`) against role membership of the model (C06's `memb`), and the exact
effect of grant / revoke / renounce_role on them (`expdRoles`).
-/
namespace OZ.TimelockController.Mon
open OZ.Host OZ.Timelock OZ.TimelockController

theorem hasRole_memb (c : CState) (r a : Nat) : c.hasRole r a = OZ.Access.memb c.ac a r := rfl

theorem heldBy_lt (c : CState) (r : Nat) : List.Pairwise (· < ·) (heldBy c r) :=
  List.Pairwise.filter _ List.pairwise_lt_range

theorem heldBy_nodup (c : CState) (r : Nat) : (heldBy c r).Nodup :=
  (heldBy_lt c r).imp (fun h => Nat.ne_of_lt h)

theorem sortNat_of_lt {l : List Nat} (h : List.Pairwise (· < ·) l) : sortNat l = l := by
  unfold sortNat
  apply List.mergeSort_of_pairwise
  exact h.imp (fun h => by simpa using Nat.le_of_lt h)

theorem sortNat_heldBy (c : CState) (r : Nat) : sortNat (heldBy c r) = heldBy c r :=
  sortNat_of_lt (heldBy_lt c r)

theorem mem_heldBy {c : CState} {r a : Nat} : a ∈ heldBy c r ↔ a ≤ NACC ∧ c.hasRole r a = true := by
  unfold heldBy
  rw [List.mem_filter, List.mem_range]
  constructor
  · rintro ⟨h1, h2⟩; exact ⟨by omega, h2⟩
  · rintro ⟨h1, h2⟩; exact ⟨by omega, h2⟩

theorem modelRoles_length (c : CState) : (modelRoles c).length = NROLES := by
  unfold modelRoles; simp

theorem modelRoles_get (c : CState) (r : Nat) :
    (modelRoles c)[r]? = if r < NROLES then some (heldBy c r) else none := by
  unfold modelRoles
  rw [List.getElem?_map]
  by_cases h : r < NROLES
  · rw [if_pos h, List.getElem?_range h]; simp [sortNat_heldBy]
  · rw [if_neg h, List.getElem?_eq_none (by simpa using h)]; rfl

/-- the displayed members of role `r` as the monitor reads them from the model's observation -/
theorem members_model (c : CState) (defs : List Operation) (ok : Bool) (eq : Option (List Nat)) (r : Nat) :
    members (modelObs c defs ok eq) r = if r < NROLES then heldBy c r else [] := by
  unfold members
  show ((modelRoles c)[r]?).getD [] = _
  rw [modelRoles_get]
  by_cases h : r < NROLES
  · rw [if_pos h, if_pos h]; rfl
  · rw [if_neg h, if_neg h]; rfl

/-- a displayed account is listed for a displayed role iff it holds the role -/
theorem members_contains (c : CState) (defs : List Operation) (ok : Bool) (eq : Option (List Nat)) {r a : Nat}
    (hr : r < NROLES) (ha : a ≤ NACC) :
    (members (modelObs c defs ok eq) r).contains a = c.hasRole r a := by
  rw [members_model, if_pos hr]
  cases h : c.hasRole r a with
  | true => simpa using mem_heldBy.mpr ⟨ha, h⟩
  | false =>
    simp only [List.contains_eq_mem, decide_eq_false_iff_not]
    intro hm
    rw [(mem_heldBy.mp hm).2] at h; cases h

/-- whoever is listed holds the role -/
theorem members_sub (c : CState) (defs : List Operation) (ok : Bool) (eq : Option (List Nat)) {r a : Nat}
    (h : a ∈ members (modelObs c defs ok eq) r) : c.hasRole r a = true := by
  rw [members_model] at h
  by_cases hr : r < NROLES
  · rw [if_pos hr] at h; exact (mem_heldBy.mp h).2
  · rw [if_neg hr] at h; cases h

theorem modelRadm_get (c : CState) (r : Nat) :
    ((modelRadm c)[r]?).join = if r < NROLES then OZ.Access.getRoleAdmin c.ac r else none := by
  unfold modelRadm
  rw [List.getElem?_map]
  by_cases h : r < NROLES
  · rw [if_pos h, List.getElem?_range h]; rfl
  · rw [if_neg h, List.getElem?_eq_none (by simpa using h)]; rfl

/-- the displayed membership depends on `has_role` only -/
theorem modelRoles_congr {c c' : CState} (h : ∀ r a, c'.hasRole r a = c.hasRole r a) :
    modelRoles c' = modelRoles c := by
  unfold modelRoles heldBy
  apply List.map_congr_left
  intro r _
  congr 1
  apply List.filter_congr
  intro a _
  exact h r a

theorem modelRoles_of_ac {c c' : CState} (h : c'.ac.hasRole = c.ac.hasRole) : modelRoles c' = modelRoles c := by
  apply modelRoles_congr
  intro r a
  unfold CState.hasRole OZ.Access.hasRoleQ
  rw [h]

theorem modelRadm_of_ac {c c' : CState} (h : c'.ac.roleAdmin = c.ac.roleAdmin) : modelRadm c' = modelRadm c := by
  unfold modelRadm OZ.Access.getRoleAdmin
  rw [h]

/-! ### the exact membership effect -/

/-- switching one account on in a filter over a sorted duplicate-free range -/
theorem filter_insert (p p' : Nat → Bool) (n acct : Nat) (ha : acct < n) (hp : p acct = false)
    (h' : ∀ a, p' a = if a = acct then true else p a) :
    (List.range n).filter p' = sortNat (acct :: (List.range n).filter p) := by
  have hlt : ∀ q : Nat → Bool, List.Pairwise (· < ·) ((List.range n).filter q) :=
    fun q => List.Pairwise.filter _ List.pairwise_lt_range
  have hnd : ∀ q : Nat → Bool, ((List.range n).filter q).Nodup := fun q => (hlt q).imp (fun h => Nat.ne_of_lt h)
  have hperm : ((List.range n).filter p').Perm (sortNat (acct :: (List.range n).filter p)) := by
    refine List.Perm.trans ?_ (List.mergeSort_perm _ _).symm
    rw [List.perm_ext_iff_of_nodup (hnd p')]
    · intro a
      simp only [List.mem_filter, List.mem_range, List.mem_cons, h']
      by_cases e : a = acct
      · subst e; simp [ha]
      · simp [e]
    · rw [List.nodup_cons]
      refine ⟨?_, hnd p⟩
      simp [hp]
  apply List.Perm.eq_of_pairwise (le := fun a b => a ≤ b) ?_ ?_ ?_ hperm
  · intro a b _ _ h1 h2; omega
  · exact (hlt p').imp (fun h => Nat.le_of_lt h)
  · have := List.pairwise_mergeSort (le := fun a b : Nat => decide (a ≤ b))
      (by intro a b c; simp; omega) (by intro a b; simp; omega) (acct :: (List.range n).filter p)
    unfold sortNat
    exact this.imp (fun h => by simpa using h)

/-- switching one account off -/
theorem filter_erase (p p' : Nat → Bool) (n acct : Nat)
    (h' : ∀ a, p' a = if a = acct then false else p a) :
    (List.range n).filter p' = ((List.range n).filter p).erase acct := by
  have hnd : ((List.range n).filter p).Nodup :=
    (List.Pairwise.filter _ List.pairwise_lt_range).imp (fun h => Nat.ne_of_lt h)
  rw [hnd.erase_eq_filter, List.filter_filter]
  apply List.filter_congr
  intro a _
  rw [h']
  by_cases e : a = acct
  · subst e; simp
  · simp [e]

/-- nothing visible changes when the switched account is not displayed or already in that state -/
theorem filter_same (p p' : Nat → Bool) (n acct : Nat) (v : Bool)
    (h' : ∀ a, p' a = if a = acct then v else p a) (hs : n ≤ acct ∨ p acct = v) :
    (List.range n).filter p' = (List.range n).filter p := by
  apply List.filter_congr
  intro a ha
  rw [h']
  by_cases e : a = acct
  · subst e
    rcases hs with hs | hs
    · rw [List.mem_range] at ha; omega
    · rw [if_pos rfl, hs]
  · rw [if_neg e]

theorem prev_roles_length (c : CState) (defs : List Operation) (ok : Bool) (eq : Option (List Nat)) :
    (modelObs c defs ok eq).roles.length = NROLES := modelRoles_length c

/-- the membership lists after a grant are exactly what the monitor expects -/
theorem expdRoles_grant {c c' : CState} (defs : List Operation) (ok : Bool) (eq : Option (List Nat))
    (acct role k : Nat)
    (hm : OZ.Access.memb c'.ac = upd2 (OZ.Access.memb c.ac) acct role true) :
    modelRoles c' = expdRoles (modelObs c defs ok eq) (.grant acct role k) acct role := by
  unfold expdRoles
  rw [prev_roles_length]
  unfold modelRoles
  apply List.map_congr_left
  intro r hr
  rw [List.mem_range] at hr
  rw [sortNat_heldBy]
  have hp' : ∀ a, c'.hasRole r a = if a = acct ∧ r = role then true else c.hasRole r a := by
    intro a
    rw [hasRole_memb, hm, hasRole_memb]
    rfl
  by_cases hrr : r = role
  · subst hrr
    rw [if_neg (fun h => h rfl)]
    unfold expdMembers
    simp only
    rw [members_model, if_pos hr]
    have hp'' : ∀ a, c'.hasRole r a = if a = acct then true else c.hasRole r a := by
      intro a; rw [hp']; simp
    by_cases hin : (heldBy c r).contains acct || !inU acct
    · rw [if_pos hin]
      unfold heldBy
      apply filter_same _ _ _ acct true hp''
      simp only [Bool.or_eq_true, List.contains_eq_mem, decide_eq_true_eq, Bool.not_eq_eq_eq_not,
        Bool.not_true] at hin
      rcases hin with hin | hin
      · exact Or.inr (mem_heldBy.mp hin).2
      · left; unfold inU at hin; simp at hin; omega
    · rw [if_neg hin]
      simp only [Bool.or_eq_true, List.contains_eq_mem, decide_eq_true_eq, Bool.not_eq_eq_eq_not,
        Bool.not_true, not_or] at hin
      obtain ⟨h1, h2⟩ := hin
      have hu : acct ≤ NACC := by unfold inU at h2; simpa using h2
      have hf : c.hasRole r acct = false := by
        cases hh : c.hasRole r acct with
        | false => rfl
        | true => exact absurd (mem_heldBy.mpr ⟨hu, hh⟩) h1
      unfold heldBy
      exact filter_insert _ _ _ acct (by omega) hf hp''
  · rw [if_pos hrr, members_model, if_pos hr]
    unfold heldBy
    apply List.filter_congr
    intro a _
    rw [hp', if_neg (fun h => hrr h.2)]

/-- … after a revoke / renounce_role likewise -/
theorem expdRoles_remove {c c' : CState} (defs : List Operation) (ok : Bool) (eq : Option (List Nat))
    (cl : Call) (hcl : ∀ a r k, cl ≠ .grant a r k) (acct role : Nat)
    (hm : OZ.Access.memb c'.ac = upd2 (OZ.Access.memb c.ac) acct role false) :
    modelRoles c' = expdRoles (modelObs c defs ok eq) cl acct role := by
  unfold expdRoles
  rw [prev_roles_length]
  unfold modelRoles
  apply List.map_congr_left
  intro r hr
  rw [List.mem_range] at hr
  rw [sortNat_heldBy]
  have hp' : ∀ a, c'.hasRole r a = if a = acct ∧ r = role then false else c.hasRole r a := by
    intro a
    rw [hasRole_memb, hm, hasRole_memb]
    rfl
  by_cases hrr : r = role
  · subst hrr
    rw [if_neg (fun h => h rfl)]
    have : expdMembers (modelObs c defs ok eq) cl acct r = (members (modelObs c defs ok eq) r).erase acct := by
      unfold expdMembers
      cases cl with
      | grant a r' k => exact absurd rfl (hcl a r' k)
      | _ => rfl
    rw [this, members_model, if_pos hr]
    unfold heldBy
    apply filter_erase
    intro a; rw [hp']; simp
  · rw [if_pos hrr, members_model, if_pos hr]
    unfold heldBy
    apply List.filter_congr
    intro a _
    rw [hp', if_neg (fun h => hrr h.2)]

end OZ.TimelockController.Mon
