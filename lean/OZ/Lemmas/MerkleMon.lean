import OZ.Lemmas.Merkle
import OZ.Model.MerkleMon
/-
Helper lemmas for the soundness of the C17 monitor (OZ/Props/C17Mon.lean):
  * the monitor's own folds (big-endian number comparison / bit tests) coincide with the model's
    (lexicographic comparison / parity and halving) — the sorted one on 32-byte nodes with a
    32-byte hash, the positional one on all inputs;
  * SHA-256 and Keccak-256 as implemented in Lean return 32 bytes;
  * the list manipulations of the distributor monitor (`unmarked`, `spurious`, `newFlags`,
    `wasClaimed`) on the flag lists the model prints (`claimedList`);
  * each verdict piece is silent under plain conditions on its arguments.
-/
namespace OZ.Merkle.Mon
open OZ.Merkle

theorem foldl_be (xs : Node) (acc : Nat) :
    xs.foldl (fun acc x => acc * 256 + x.toNat) acc = acc * 256 ^ xs.length + beNat xs := by
  induction xs generalizing acc with
  | nil => simp [beNat]
  | cons x xs ih =>
    simp only [List.foldl_cons, List.length_cons, beNat]
    rw [ih, ih (0 * 256 + x.toNat)]
    simp only [Nat.zero_mul, Nat.zero_add, Nat.pow_succ, Nat.add_mul]
    have : acc * 256 * 256 ^ xs.length = acc * (256 ^ xs.length * 256) := by
      rw [Nat.mul_assoc, Nat.mul_comm 256]
    omega

theorem beNat_cons (x : UInt8) (xs : Node) : beNat (x :: xs) = x.toNat * 256 ^ xs.length + beNat xs := by
  have := foldl_be xs (0 * 256 + x.toNat)
  simp only [Nat.zero_mul, Nat.zero_add] at this
  simpa [beNat] using this

theorem beNat_lt (xs : Node) : beNat xs < 256 ^ xs.length := by
  induction xs with
  | nil => simp [beNat]
  | cons x xs ih =>
    rw [beNat_cons, List.length_cons, Nat.pow_succ]
    have hx : x.toNat < 256 := UInt8.toNat_lt x
    have h1 : (x.toNat + 1) * 256 ^ xs.length ≤ 256 * 256 ^ xs.length := Nat.mul_le_mul_right _ (by omega)
    rw [Nat.add_mul, Nat.one_mul] at h1
    rw [Nat.mul_comm (256 ^ xs.length)]
    omega

/-- on byte strings of EQUAL length the lexicographic order is the order of the big-endian numbers -/
theorem bytesGt_iff_beNat (a b : Node) (h : a.length = b.length) :
    bytesGt a b = true ↔ beNat b < beNat a := by
  induction a generalizing b with
  | nil =>
    cases b with
    | nil => simp [bytesGt, beNat]
    | cons y ys => simp at h
  | cons x xs ih =>
    cases b with
    | nil => simp at h
    | cons y ys =>
      have hl : xs.length = ys.length := by simpa using h
      have hx := beNat_lt xs
      have hy := beNat_lt ys
      rw [beNat_cons, beNat_cons, hl]
      rw [hl] at hx
      simp only [bytesGt]
      by_cases h1 : x.toNat > y.toNat
      · rw [if_pos h1]
        have : (y.toNat + 1) * 256 ^ ys.length ≤ x.toNat * 256 ^ ys.length := Nat.mul_le_mul_right _ h1
        rw [Nat.add_mul, Nat.one_mul] at this
        constructor
        · intro _; omega
        · intro _; rfl
      · rw [if_neg h1]
        by_cases h2 : x.toNat < y.toNat
        · rw [if_pos h2]
          have : (x.toNat + 1) * 256 ^ ys.length ≤ y.toNat * 256 ^ ys.length := Nat.mul_le_mul_right _ h2
          rw [Nat.add_mul, Nat.one_mul] at this
          constructor
          · intro h'; cases h'
          · intro _; omega
        · rw [if_neg h2]
          have : x.toNat = y.toNat := by omega
          rw [this, ih ys hl]
          omega

theorem monPairSorted_eq (H : Node → Node) (a b : Node) (h : a.length = b.length) :
    monPairSorted H a b = chp (bytesOps H) a b := by
  unfold monPairSorted chp bytesOps
  simp only
  by_cases hg : bytesGt a b = true
  · rw [if_pos hg, if_neg (by have := (bytesGt_iff_beNat a b h).mp hg; omega)]
  · rw [if_neg hg, if_pos (by
      have := mt (bytesGt_iff_beNat a b h).mpr hg; omega)]

theorem chp_length (H : Node → Node) (hH : ∀ x, (H x).length = 32) (a b : Node) :
    (chp (bytesOps H) a b).length = 32 := by
  unfold chp bytesOps; simp only; split <;> exact hH _

/-- the monitor's sorted fold is the model's, on 32-byte nodes with a 32-byte hash -/
theorem monFoldSorted_eq (H : Node → Node) (hH : ∀ x, (H x).length = 32) (leaf : Node) (proof : List Node)
    (hl : leaf.length = 32) (hp : ∀ x ∈ proof, x.length = 32) :
    monFoldSorted H leaf proof = foldSorted (bytesOps H) leaf proof := by
  unfold monFoldSorted
  induction proof generalizing leaf with
  | nil => rfl
  | cons h rest ih =>
    have hh : h.length = 32 := hp h (by simp)
    simp only [List.foldl_cons, foldSorted]
    rw [monPairSorted_eq H leaf h (by rw [hl, hh])]
    exact ih _ (chp_length H hH _ _) (fun x hx => hp x (by simp [hx]))

theorem monFoldIndexed_aux (H : Node → Node) (index : Nat) (proof : List Node) (k : Nat) (acc : Node) :
    ((List.range' k proof.length).zip proof).foldl (monStepIndexed H index) acc =
      foldIndexed (bytesOps H) acc (index / 2 ^ k) proof := by
  induction proof generalizing k acc with
  | nil => rfl
  | cons h rest ih =>
    simp only [List.length_cons, List.range'_succ, List.zip_cons_cons, List.foldl_cons, foldIndexed]
    rw [ih (k + 1)]
    have e1 : index / 2 ^ (k + 1) = index / 2 ^ k / 2 := by
      rw [Nat.pow_succ, Nat.div_div_eq_div_mul]
    have e2 : monStepIndexed H index acc (k, h) = stepIndexed (bytesOps H) acc (index / 2 ^ k) h := by
      unfold monStepIndexed stepIndexed bytesOps
      simp only [Nat.testBit_eq_decide_div_mod_eq, decide_eq_true_eq]
      by_cases hb : index / 2 ^ k % 2 = 1
      · rw [if_pos hb, if_neg (by omega)]
      · rw [if_neg hb, if_pos (by omega)]
    rw [e1, e2]

/-- the monitor's positional fold (bit tests) is the model's (parity, halving) — all inputs -/
theorem monFoldIndexed_eq (H : Node → Node) (leaf : Node) (index : Nat) (proof : List Node) :
    monFoldIndexed H leaf index proof = foldIndexed (bytesOps H) leaf index proof := by
  unfold monFoldIndexed
  rw [List.range_eq_range', monFoldIndexed_aux H index proof 0 leaf]
  simp


theorem monVerify_sorted (H : Node → Node) (root leaf : Node) (index : Nat) (proof : List Node)
    (h : monFoldSorted H leaf proof = foldSorted (bytesOps H) leaf proof) :
    monVerify H false root leaf index proof = some (verify (bytesOps H) proof root leaf) := by
  unfold monVerify verify
  rw [if_neg (by simp), h]
  congr 1
  rw [Bool.eq_iff_iff]; simp

theorem mem_univ (w i : Nat) : i ∈ univ w ↔ inU w i = true := by
  simp [univ, inU, or_assoc]

theorem univ_nodup (w : Nat) (hw : w ≤ 4294967294) : (univ w).Nodup := by
  unfold univ
  rw [List.nodup_append]
  refine ⟨List.nodup_range, by decide, ?_⟩
  intro a ha b hb
  simp at ha hb
  omega

theorem contains_filter (U : List Nat) (f : Nat → Bool) (i : Nat) :
    (U.filter f).contains i = (U.contains i && f i) := by
  rw [Bool.eq_iff_iff]
  simp [List.mem_filter]

theorem unmarked_filter (U : List Nat) (f g : Nat → Bool) (h : ∀ i, f i = true → g i = true) :
    unmarked (U.filter f) (U.filter g) = false := by
  unfold unmarked
  rw [List.any_eq_false]
  intro i hi
  have := List.mem_filter.mp hi
  simp [List.mem_filter, this.1, h i this.2]

theorem spurious_filter (U : List Nat) (f g : Nat → Bool) (acc : Option Nat)
    (h : ∀ i, g i = true → f i = true ∨ acc = some i) :
    spurious (U.filter f) (U.filter g) acc = [] := by
  unfold spurious
  rw [List.filter_eq_nil_iff]
  intro i hi
  have hm := List.mem_filter.mp hi
  rcases h i hm.2 with h1 | h1
  · simp [List.mem_filter, hm.1, h1]
  · simp [h1]

theorem newFlags_filter (U : List Nat) (f g : Nat → Bool) :
    newFlags (U.filter f) (U.filter g) = U.filter (fun i => g i && !f i) := by
  unfold newFlags
  rw [List.filter_filter]
  apply List.filter_congr
  intro i hi
  simp [List.mem_filter, hi]
  rw [Bool.and_comm]

theorem filter_eq_single (U : List Nat) (hn : U.Nodup) (a : Nat) :
    U.filter (fun i => decide (i = a)) = if a ∈ U then [a] else [] := by
  induction U with
  | nil => rfl
  | cons x xs ih =>
    have hn' := List.nodup_cons.mp hn
    rw [List.filter_cons, ih hn'.2]
    by_cases hx : x = a
    · subst hx
      simp [hn'.1]
    · have : ¬ a = x := fun e => hx e.symm
      simp [hx, this]

/-- the flags newly shown after `a` (clear before) was set: `a` itself if it is observed -/
theorem newFlags_set (U : List Nat) (hn : U.Nodup) (f g : Nat → Bool) (a : Nat) (hfa : f a = false)
    (hg : ∀ i, g i = (decide (i = a) || f i)) :
    newFlags (U.filter f) (U.filter g) = if a ∈ U then [a] else [] := by
  rw [newFlags_filter, ← filter_eq_single U hn a]
  apply List.filter_congr
  intro i _
  rw [hg i]
  by_cases hia : i = a
  · subst hia; simp [hfa]
  · simp [hia]

theorem newFlags_same (U : List Nat) (f : Nat → Bool) : newFlags (U.filter f) (U.filter f) = [] := by
  rw [newFlags_filter, List.filter_eq_nil_iff]
  intro i _; simp


/-! ### the hash functions of the driver return 32 bytes -/

theorem sha256_length (m : Node) : (OZ.Sha256.sha256 m).length = 32 := by
  simp [OZ.Sha256.sha256, OZ.Sha256.wordBytes]

theorem keccak256_length (m : Node) : (OZ.Keccak.keccak256 m).length = 32 := by
  simp [OZ.Keccak.keccak256, OZ.Keccak.laneBytes, Id.run]
  rfl

theorem hashOf_length (alg : String) (m : Node) : (hashOf alg m).length = 32 := by
  unfold hashOf
  split
  · exact keccak256_length m
  · exact sha256_length m

/-! ### the monitor's `monVerify` against the model's verifier -/

/-- leaf and proof elements are `BytesN<32>` values -/
def Nodes32 (leaf : Node) (proof : List Node) : Prop := leaf.length = 32 ∧ ∀ x ∈ proof, x.length = 32

/-- the MODEL's verifier accepts (`verify` = true resp. `verify_with_index` = Ok(true)) -/
def accepts (H : Node → Node) (indexed : Bool) (root leaf : Node) (index : Nat) (proof : List Node) : Bool :=
  if indexed then decide (verifyWithIndex (bytesOps H) proof root leaf index = .ok true)
  else verify (bytesOps H) proof root leaf

theorem monVerify_indexed (H : Node → Node) (root leaf : Node) (index : Nat) (proof : List Node) :
    monVerify H true root leaf index proof = (verifyWithIndex (bytesOps H) proof root leaf index).toOption := by
  unfold monVerify verifyWithIndex
  rw [if_pos rfl, monFoldIndexed_eq]
  by_cases h1 : proof.length ≥ 32
  · rw [if_pos (Or.inl h1), if_pos h1]; rfl
  · rw [if_neg h1]
    by_cases h2 : index ≥ 2 ^ proof.length
    · rw [if_pos (Or.inr h2), if_pos h2]; rfl
    · rw [if_neg (by intro h; rcases h with h | h; exact h1 h; exact h2 h), if_neg h2]
      show some _ = some _
      congr 1
      rw [Bool.eq_iff_iff]; simp

theorem monVerify_sorted32 (H : Node → Node) (hH : ∀ x, (H x).length = 32) (root leaf : Node) (index : Nat)
    (proof : List Node) (h32 : Nodes32 leaf proof) :
    monVerify H false root leaf index proof = some (verify (bytesOps H) proof root leaf) :=
  monVerify_sorted H root leaf index proof (monFoldSorted_eq H hH leaf proof h32.1 h32.2)

/-- the monitor's `valid` is the model's acceptance -/
theorem monVerify_accepts (H : Node → Node) (hH : ∀ x, (H x).length = 32) (indexed : Bool) (root leaf : Node)
    (index : Nat) (proof : List Node) (h32 : indexed = false → Nodes32 leaf proof) :
    (monVerify H indexed root leaf index proof == some true) = accepts H indexed root leaf index proof := by
  cases indexed with
  | true =>
    rw [monVerify_indexed]
    unfold accepts
    rw [if_pos rfl]
    cases hv : verifyWithIndex (bytesOps H) proof root leaf index with
    | error e => simp [Except.toOption]
    | ok b => cases b <;> simp [Except.toOption]
  | false =>
    rw [monVerify_sorted32 H hH root leaf index proof (h32 rfl)]
    unfold accepts
    rw [if_neg (by simp)]
    cases verify (bytesOps H) proof root leaf <;> rfl

theorem validAgainst_none (H : Node → Node) (indexed : Bool) (leaf : Node) (index : Nat) (proof : List Node) :
    validAgainst H none indexed leaf index proof = false := rfl

theorem validAgainst_some (H : Node → Node) (hH : ∀ x, (H x).length = 32) (indexed : Bool) (r leaf : Node)
    (index : Nat) (proof : List Node) (h32 : indexed = false → Nodes32 leaf proof) :
    validAgainst H (some r) indexed leaf index proof = accepts H indexed r leaf index proof :=
  monVerify_accepts H hH indexed r leaf index proof h32

/-! ### the model's claim step in terms of `accepts` -/

/-- the distributor operation of a `claim mode=sorted|indexed` line -/
def claimOp (indexed : Bool) (leaf : Node) (index : Nat) (proof : List Node) : DOp Node :=
  if indexed then .claimIndexed leaf index proof else .claim leaf index proof

theorem step_claim_ok (H : Node → Node) (d d' : Dist Node) (indexed : Bool) (leaf : Node) (index : Nat)
    (proof : List Node) :
    d.step (bytesOps H) (claimOp indexed leaf index proof) = .ok d' ↔
      ∃ root, d.root = some root ∧ d.claimed index = false ∧ accepts H indexed root leaf index proof = true ∧
        d' = d.setClaimed index := by
  cases indexed with
  | true =>
    show d.verifyWithIndexAndSetClaimed (bytesOps H) leaf index proof = .ok d' ↔ _
    rw [claimIndexed_ok]
    simp [accepts]
  | false =>
    show d.verifyAndSetClaimed (bytesOps H) leaf index proof = .ok d' ↔ _
    rw [claim_ok]
    simp [accepts]

/-! ### flag lists -/

theorem univ_contains (w i : Nat) : (univ w).contains i = inU w i := by
  rw [Bool.eq_iff_iff, List.contains_iff_mem]
  exact mem_univ w i

theorem claimedList_contains (d : Dist Node) (w i : Nat) :
    (claimedList d w).contains i = (inU w i && d.claimed i) := by
  unfold claimedList
  rw [contains_filter, univ_contains]

theorem claimedList_empty (r : Option Node) (w : Nat) :
    claimedList { root := r, claimed := fun _ => false } w = [] := by
  unfold claimedList
  rw [List.filter_eq_nil_iff]
  intro i _; simp

theorem expectNew_eq (w index : Nat) : expectNew w index = if index ∈ univ w then [index] else [] := by
  unfold expectNew
  by_cases h : inU w index = true
  · rw [if_pos h, if_pos ((mem_univ w index).mpr h)]
  · rw [if_neg h, if_neg (fun hm => h ((mem_univ w index).mp hm))]

/-- the ghost of far claims: exactly the claimed indices outside the observed universe -/
def FarOk (w : Nat) (far : List Nat) (d : Dist Node) : Prop :=
  ∀ i, far.contains i = (!inU w i && d.claimed i)

theorem wasClaimed_eq (m : Mon) (d : Dist Node) (hc : m.claimed = claimedList d m.w) (hf : FarOk m.w m.far d)
    (index : Nat) : wasClaimed m index = d.claimed index := by
  unfold wasClaimed
  rw [hc, claimedList_contains, hf index]
  cases inU m.w index <;> cases d.claimed index <;> rfl

theorem farStep_ok (m : Mon) (d : Dist Node) (hf : FarOk m.w m.far d) (index : Nat) (hc : d.claimed index = false) :
    FarOk m.w (farStep m index true) (d.setClaimed index) := by
  intro i
  rw [setClaimed_claimed]
  unfold farStep
  by_cases hu : inU m.w index = true
  · rw [if_neg (by simp [hu]), hf i]
    by_cases hi : i = index
    · subst hi; simp [hu]
    · simp [hi]
  · rw [if_pos (by simp [hu]), List.contains_cons, hf i]
    by_cases hi : i = index
    · subst hi; simp [hu]
    · simp [hi]

theorem farStep_err (m : Mon) (index : Nat) : farStep m index false = m.far := by
  unfold farStep; simp

/-! ### each verdict piece is silent under plain conditions -/

theorem corruptAlarm_none (site : String) (tag : Tag) (tail : String) (h : ∀ c, tag ≠ .corrupt c) :
    corruptAlarm site tag tail = none := by
  cases tag with
  | honest => rfl
  | other => rfl
  | corrupt c => exact absurd rfl (h c)

theorem verdictClaim_accepted_quiet (m : Mon) (index : Nat) (tag : Tag) (o : DObs) (hok : o.ok = true)
    (hsp : spurious m.claimed o.claimed (some index) = []) (hwas : wasClaimed m index = false)
    (htag : ∀ c, tag ≠ .corrupt c) (hnew : newFlags m.claimed o.claimed = expectNew m.w index)
    (hroot : o.root = m.root) : verdictClaim m true index tag o = none := by
  unfold verdictClaim
  rw [hok]
  rw [if_neg (by simp [hsp]), if_pos rfl, hwas]
  unfold verdictClaimAccepted
  rw [if_neg (by simp), corruptAlarm_none _ _ _ htag]
  show claimAcceptedTail m true index o = none
  unfold claimAcceptedTail
  rw [if_neg (by simp), if_neg (by simp [hnew]), if_neg (by simp [hroot])]

theorem verdictClaim_refused_quiet (m : Mon) (valid : Bool) (index : Nat) (tag : Tag) (o : DObs) (hok : o.ok = false)
    (hsp : spurious m.claimed o.claimed none = []) (hnew : newFlags m.claimed o.claimed = [])
    (hroot : o.root = m.root) (hv : valid = true → wasClaimed m index = true) :
    verdictClaim m valid index tag o = none := by
  unfold verdictClaim
  rw [hok]
  rw [if_neg (by simp [hsp]), if_neg (by simp)]
  unfold verdictClaimRefused
  rw [if_neg (by simp [hnew, hroot])]
  cases valid with
  | false => rw [if_neg (by simp)]
  | true => rw [hv rfl, if_neg (by simp)]

theorem verdictAir_accepted_quiet (m : Mon) (index rcv : Nat) (amount : Int) (tag : Tag) (o : AObs) (hok : o.ok = true)
    (hsp : spurious m.claimed o.claimed (some index) = []) (hwas : wasClaimed m index = false)
    (htag : ∀ c, tag ≠ .corrupt c) (hnew : newFlags m.claimed o.claimed = expectNew m.w index)
    (hpool : o.pool = m.pool - amount) (hbal : o.bal = paidOut m.bal rcv amount) :
    verdictAirClaim m true index rcv amount tag o = none := by
  unfold verdictAirClaim
  rw [hok]
  rw [if_neg (by simp [hsp]), if_pos rfl, hwas]
  unfold verdictAirAccepted
  rw [if_neg (by simp), corruptAlarm_none _ _ _ htag]
  show airAcceptedTail m true index rcv amount o = none
  unfold airAcceptedTail
  rw [if_neg (by simp), if_neg (by simp [hnew]), if_neg (by simp [hpool, hbal])]

theorem verdictAir_refused_quiet (m : Mon) (valid : Bool) (index rcv : Nat) (amount : Int) (tag : Tag) (o : AObs)
    (hok : o.ok = false) (hsp : spurious m.claimed o.claimed none = []) (hnew : newFlags m.claimed o.claimed = [])
    (hpool : o.pool = m.pool) (hbal : o.bal = m.bal)
    (hv : valid = true → wasClaimed m index = false → 0 ≤ amount → amount ≤ m.pool → False) :
    verdictAirClaim m valid index rcv amount tag o = none := by
  unfold verdictAirClaim
  rw [hok]
  rw [if_neg (by simp [hsp]), if_neg (by simp)]
  unfold verdictAirRefused
  rw [if_neg (by simp [hnew, hpool, hbal])]
  rw [if_neg]
  rintro ⟨h1, h2, h3, h4⟩
  exact hv h1 (by simpa using h2) h3 h4

/-- the balances the model writes after a payment are the ones the monitor expects -/
theorem paidOut_eq (bal : List Int) (rcv : Nat) (amount : Int) :
    (List.range bal.length).map (fun j => if j = rcv then bal.getD j 0 + amount else bal.getD j 0) =
      paidOut bal rcv amount := by
  unfold paidOut
  apply List.map_congr_left
  intro j _
  by_cases h : j = rcv
  · rw [if_pos h, if_pos h]
  · rw [if_neg h, if_neg h]; omega

theorem range_map_getD (bal : List Int) : (List.range bal.length).map (fun j => bal.getD j 0) = bal := by
  apply List.ext_getElem
  · simp
  · intro i h1 h2
    simp at h1
    simp [List.getD, h1]

end OZ.Merkle.Mon
