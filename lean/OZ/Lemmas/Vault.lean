import OZ.Model.Vault
import OZ.Props.C01
import OZ.Props.C12
import OZ.Lemmas.FungibleAuth
import Mathlib.Tactic.Ring
import Mathlib.Tactic.Linarith
/-
Helper lemmas for the vault model (C05): destructuring of the `Except` blocks, the exact
value of a successful conversion (through the C12 theorems), exact descriptions of what
the token calls made by the vault do, and the well-formedness invariant.
-/
namespace OZ.Vault
open OZ.Host

/-! ### plumbing -/

theorem bind_eq_ok {ε α β} {x : Except ε α} {f : α → Except ε β} {v : β}
    (h : (x >>= f) = .ok v) : ∃ a, x = .ok a ∧ f a = .ok v := OZ.Fungible.bind_eq_ok h

theorem guard_ok {p : Prop} [Decidable p] {e : Err} {u : Unit} (h : guard p e = .ok u) : p := by
  unfold guard at h
  split at h
  · assumption
  · cases h

theorem requireAuth_ok {auth : List Nat} {a : Nat} {u : Unit} (h : requireAuth auth a = .ok u) :
    a ∈ auth := guard_ok h

theorem liftS_ok {α} {x : Except OZ.Fungible.Err α} {v : α} (h : liftS x = .ok v) : x = .ok v := by
  cases x with
  | ok a => simp only [liftS] at h; injection h with h; rw [h]
  | error e => simp only [liftS] at h; cases h

theorem liftA_ok {α} {x : Except OZ.Fungible.Err α} {v : α} (h : liftA x = .ok v) : x = .ok v := by
  cases x with
  | ok a => simp only [liftA] at h; injection h with h; rw [h]
  | error e => simp only [liftA] at h; cases h

theorem ofChk_ok {x : Int} {v : Int} (h : ofChk (OZ.MulDiv.chk128 x) = .ok v) :
    v = x ∧ OZ.MulDiv.in128 x := by
  unfold OZ.MulDiv.chk128 at h
  split at h
  · simp only [ofChk] at h; injection h with h; exact ⟨h.symm, by assumption⟩
  · simp only [ofChk] at h; cases h

theorem ofRes_ok {r : OZ.MulDiv.Res} {v : Int} (h : ofRes r = .ok v) : r = .ok v := by
  cases r with
  | ok a => simp only [ofRes] at h; injection h with h; rw [h]
  | none => simp only [ofRes] at h; cases h
  | panic => simp only [ofRes] at h; cases h

theorem in128_host_iff (x : Int) : OZ.Host.in128 x ↔ OZ.MulDiv.in128 x := Iff.rfl

/-- `10^offset` for an offset up to `MAX_DECIMALS_OFFSET` is a positive i128 -/
theorem pow10_bounds (o : Nat) (h : o ≤ 10) : 1 ≤ (10 : Int) ^ o ∧ (10 : Int) ^ o ≤ 10000000000 := by
  have : o = 0 ∨ o = 1 ∨ o = 2 ∨ o = 3 ∨ o = 4 ∨ o = 5 ∨ o = 6 ∨ o = 7 ∨ o = 8 ∨ o = 9 ∨ o = 10 := by
    omega
  rcases this with h | h | h | h | h | h | h | h | h | h | h <;> subst h <;> decide

theorem virtualShares_eq (s : State) (h : s.offset ≤ 10) : virtualShares s = .ok (10 ^ s.offset) := by
  obtain ⟨h1, h2⟩ := pow10_bounds s.offset h
  unfold virtualShares OZ.MulDiv.chk128
  rw [if_pos]
  · rfl
  · unfold OZ.MulDiv.in128 OZ.MulDiv.I128_MIN OZ.MulDiv.I128_MAX; omega

/-! ### the exactly rounded quotient of non-negative operands -/

theorem exactQ_zero (rd : Rounding) (y d : Int) : OZ.MulDiv.exactQ rd 0 y d = 0 := by
  cases rd <;> simp [OZ.MulDiv.exactQ, OZ.MulDiv.Int.cdiv]

/-- floor: `d·q ≤ x·y < d·q + d` -/
theorem exactQ_floor_bounds (x y d : Int) (hd : 0 < d) :
    d * OZ.MulDiv.exactQ .floor x y d ≤ x * y ∧ x * y < d * OZ.MulDiv.exactQ .floor x y d + d := by
  have := OZ.MulDiv.floor_is_floor (x * y) d hd
  simp only [OZ.MulDiv.exactQ]
  constructor
  · exact this.1
  · have h2 := this.2; rw [Int.mul_add, Int.mul_one] at h2; exact h2

/-- ceiling: `d·q - d < x·y ≤ d·q` -/
theorem exactQ_ceil_bounds (x y d : Int) (hd : 0 < d) :
    x * y ≤ d * OZ.MulDiv.exactQ .ceil x y d ∧ d * OZ.MulDiv.exactQ .ceil x y d < x * y + d := by
  have := OZ.MulDiv.ceil_is_ceil (x * y) d hd
  simp only [OZ.MulDiv.exactQ]
  constructor
  · exact this.2
  · have h1 := this.1; rw [Int.mul_sub, Int.mul_one] at h1; omega

/-- the rounded quotient of non-negative operands is non-negative -/
theorem exactQ_nonneg (rd : Rounding) (x y d : Int) (hx : 0 ≤ x) (hy : 0 ≤ y) (hd : 0 < d)
    (hrd : rd ≠ .trunc) : 0 ≤ OZ.MulDiv.exactQ rd x y d := by
  have hxy : 0 ≤ x * y := Int.mul_nonneg hx hy
  cases rd with
  | floor =>
    have h := (exactQ_floor_bounds x y d hd).2
    by_contra hneg
    have : OZ.MulDiv.exactQ .floor x y d ≤ -1 := by omega
    nlinarith
  | ceil =>
    have h := (exactQ_ceil_bounds x y d hd).1
    by_contra hneg
    have : OZ.MulDiv.exactQ .ceil x y d ≤ -1 := by omega
    nlinarith
  | trunc => exact absurd rfl hrd

/-! ### conversions -/

/-- the property's right-hand side for a conversion `x·y/d`: the exactly rounded quotient if it
fits in i128, an overflow error otherwise -/
def roundedOrOverflow (rd : Rounding) (x y d : Int) : Except Err Int :=
  if OZ.MulDiv.in128 (OZ.MulDiv.exactQ rd x y d) then .ok (OZ.MulDiv.exactQ rd x y d)
  else .error .fixedPoint

theorem ofRes_mulDiv (rd : Rounding) (x y d : Int) (hx : OZ.MulDiv.in128 x) (hy : OZ.MulDiv.in128 y)
    (hd : OZ.MulDiv.in128 d) (hd0 : d ≠ 0) :
    ofRes (OZ.MulDiv.mulDiv128 rd x y d) = roundedOrOverflow rd x y d := by
  rw [OZ.MulDiv.mul_div_i128_spec rd x y d hx hy hd]
  unfold OZ.MulDiv.spec128 roundedOrOverflow
  rw [if_neg hd0]
  split <;> rfl

theorem ok_bind {α β} (a : α) (f : α → Except Err β) : (Except.ok a >>= f) = f a := rfl
theorem err_bind {α β} (e : Err) (f : α → Except Err β) : ((Except.error e : Except Err α) >>= f) = .error e := rfl

theorem ofChk_chk128 (x : Int) :
    ofChk (OZ.MulDiv.chk128 x) = if OZ.MulDiv.in128 x then .ok x else .error .mathOverflow := by
  unfold OZ.MulDiv.chk128
  split <;> rfl

theorem convertToShares_eq (s : State) (a : Int) (rd : Rounding) (ha : OZ.MulDiv.in128 a)
    (hoff : s.offset ≤ 10) (hA : 0 ≤ totalAssets s) :
    convertToShares s a rd =
      if a < 0 then .error .invalidAssets
      else if a = 0 then .ok 0
      else if ¬ OZ.MulDiv.in128 (totalShares s + 10 ^ s.offset) ∨ ¬ OZ.MulDiv.in128 (totalAssets s + 1) then
        .error .mathOverflow
      else roundedOrOverflow rd a (totalShares s + 10 ^ s.offset) (totalAssets s + 1) := by
  unfold convertToShares
  by_cases h1 : a < 0
  · rw [if_pos h1, if_pos h1]
  rw [if_neg h1, if_neg h1]
  by_cases h2 : a = 0
  · rw [if_pos h2, if_pos h2]
  rw [if_neg h2, if_neg h2, virtualShares_eq s hoff, ok_bind, ofChk_chk128]
  by_cases hy : OZ.MulDiv.in128 (totalShares s + 10 ^ s.offset)
  · rw [if_pos hy, ok_bind, ofChk_chk128]
    by_cases hd : OZ.MulDiv.in128 (totalAssets s + 1)
    · rw [if_pos hd, ok_bind, if_neg (by simp [hy, hd])]
      exact ofRes_mulDiv rd a _ _ ha hy hd (by omega)
    · rw [if_neg hd, err_bind, if_pos (Or.inr hd)]
  · rw [if_neg hy, err_bind, if_pos (Or.inl hy)]

theorem convertToAssets_eq (s : State) (x : Int) (rd : Rounding) (hx : OZ.MulDiv.in128 x)
    (hoff : s.offset ≤ 10) (hS : 0 ≤ totalShares s) :
    convertToAssets s x rd =
      if x < 0 then .error .invalidShares
      else if x = 0 then .ok 0
      else if ¬ OZ.MulDiv.in128 (totalAssets s + 1) ∨ ¬ OZ.MulDiv.in128 (totalShares s + 10 ^ s.offset) then
        .error .mathOverflow
      else roundedOrOverflow rd x (totalAssets s + 1) (totalShares s + 10 ^ s.offset) := by
  unfold convertToAssets
  have hV := pow10_bounds s.offset hoff
  by_cases h1 : x < 0
  · rw [if_pos h1, if_pos h1]
  rw [if_neg h1, if_neg h1]
  by_cases h2 : x = 0
  · rw [if_pos h2, if_pos h2]
  rw [if_neg h2, if_neg h2, ofChk_chk128]
  by_cases hy : OZ.MulDiv.in128 (totalAssets s + 1)
  · rw [if_pos hy, ok_bind, virtualShares_eq s hoff, ok_bind, ofChk_chk128]
    by_cases hd : OZ.MulDiv.in128 (totalShares s + 10 ^ s.offset)
    · rw [if_pos hd, ok_bind, if_neg (by simp [hy, hd])]
      exact ofRes_mulDiv rd x _ _ hx hy hd (by omega)
    · rw [if_neg hd, err_bind, if_pos (Or.inr hd)]
  · rw [if_neg hy, err_bind, if_pos (Or.inl hy)]

/-- a successful conversion returns the exactly rounded quotient (also for a zero amount) -/
theorem convertToShares_ok {s : State} {a v : Int} {rd : Rounding} (ha : OZ.MulDiv.in128 a)
    (hoff : s.offset ≤ 10) (hA : 0 ≤ totalAssets s)
    (h : convertToShares s a rd = .ok v) :
    0 ≤ a ∧ v = OZ.MulDiv.exactQ rd a (totalShares s + 10 ^ s.offset) (totalAssets s + 1) ∧
    OZ.MulDiv.in128 v := by
  rw [convertToShares_eq s a rd ha hoff hA] at h
  split at h
  · cases h
  split at h
  · rename_i h0; injection h with h; subst h; subst h0
    exact ⟨by omega, (exactQ_zero _ _ _).symm, by decide⟩
  split at h
  · cases h
  unfold roundedOrOverflow at h
  split at h
  · rename_i hin; injection h with h; subst h; exact ⟨by omega, rfl, hin⟩
  · cases h

theorem convertToAssets_ok {s : State} {x v : Int} {rd : Rounding} (hx : OZ.MulDiv.in128 x)
    (hoff : s.offset ≤ 10) (hS : 0 ≤ totalShares s)
    (h : convertToAssets s x rd = .ok v) :
    0 ≤ x ∧ v = OZ.MulDiv.exactQ rd x (totalAssets s + 1) (totalShares s + 10 ^ s.offset) ∧
    OZ.MulDiv.in128 v := by
  rw [convertToAssets_eq s x rd hx hoff hS] at h
  split at h
  · cases h
  split at h
  · rename_i h0; injection h with h; subst h; subst h0
    exact ⟨by omega, (exactQ_zero _ _ _).symm, by decide⟩
  split at h
  · cases h
  unfold roundedOrOverflow at h
  split at h
  · rename_i hin; injection h with h; subst h; exact ⟨by omega, rfl, hin⟩
  · cases h


/-! ### exact effect of the token calls the vault makes -/

/-- balances after moving `a` from `f` to `t` (as `Base::update` computes them) -/
def moved (b : Nat → Int) (f t : Nat) (a : Int) : Nat → Int :=
  upd (upd b f (b f - a)) t (upd b f (b f - a) t + a)

set_option linter.unnecessarySeqFocus false in
theorem moved_apply (b : Nat → Int) (f t : Nat) (a : Int) (x : Nat) :
    moved b f t a x = b x - (if x = f then a else 0) + (if x = t then a else 0) := by
  unfold moved upd
  by_cases h1 : x = t <;> by_cases h2 : x = f <;> by_cases h3 : t = f <;> simp [h1, h2, h3] <;> omega

theorem update_move_ok {s s' : Tok} {f t : Nat} {a : Int}
    (h : OZ.Fungible.update s (some f) (some t) a = .ok s') :
    0 ≤ a ∧ a ≤ s.bal f ∧ s'.supply = s.supply ∧ s'.allow = s.allow ∧ s'.now = s.now ∧
    s'.events = s.events ∧ s'.bal = moved s.bal f t a := by
  obtain ⟨h0, s1, hd, hc⟩ := OZ.Fungible.update_ok h
  obtain ⟨d1, d2, d3, d4⟩ := OZ.Fungible.debit_ok hd
  obtain ⟨c1, c2, c3, c4⟩ := OZ.Fungible.credit_ok hc
  simp only at d4 c4
  obtain ⟨d5, d6, d7⟩ := d4
  obtain ⟨c5, c6, -⟩ := c4
  refine ⟨h0, by omega, by rw [c5, d6], by rw [c1, d1], by rw [c2, d2], by rw [c3, d3], ?_⟩
  rw [c6, d7]; rfl

theorem update_mint_ok {s s' : Tok} {t : Nat} {a : Int}
    (h : OZ.Fungible.update s none (some t) a = .ok s') :
    0 ≤ a ∧ s'.supply = s.supply + a ∧ s'.allow = s.allow ∧ s'.now = s.now ∧
    s'.events = s.events ∧ s'.bal = upd s.bal t (s.bal t + a) ∧ s'.supply ≤ I128_MAX := by
  obtain ⟨h0, s1, hd, hc⟩ := OZ.Fungible.update_ok h
  obtain ⟨d1, d2, d3, d4⟩ := OZ.Fungible.debit_ok hd
  obtain ⟨c1, c2, c3, c4⟩ := OZ.Fungible.credit_ok hc
  simp only at d4 c4
  obtain ⟨d5, d6, d7⟩ := d4
  obtain ⟨c5, c6, -⟩ := c4
  refine ⟨h0, by rw [c5, d5], by rw [c1, d1], by rw [c2, d2], by rw [c3, d3], ?_, ?_⟩
  · rw [c6, d7]
  · rw [c5, d5]; exact d6.2

theorem update_burn_ok {s s' : Tok} {f : Nat} {a : Int}
    (h : OZ.Fungible.update s (some f) none a = .ok s') :
    0 ≤ a ∧ a ≤ s.bal f ∧ s'.supply = s.supply - a ∧ s'.allow = s.allow ∧ s'.now = s.now ∧
    s'.events = s.events ∧ s'.bal = upd s.bal f (s.bal f - a) := by
  obtain ⟨h0, s1, hd, hc⟩ := OZ.Fungible.update_ok h
  obtain ⟨d1, d2, d3, d4⟩ := OZ.Fungible.debit_ok hd
  obtain ⟨c1, c2, c3, c4⟩ := OZ.Fungible.credit_ok hc
  simp only at d4 c4
  obtain ⟨d5, d6, d7⟩ := d4
  obtain ⟨c5, c6, -⟩ := c4
  refine ⟨h0, by omega, by rw [c5, d6], by rw [c1, d1], by rw [c2, d2], by rw [c3, d3], ?_⟩
  rw [c6, d7]

theorem transfer_ok {s s' : Tok} {auth : List Nat} {f t : Nat} {a : Int}
    (h : OZ.Fungible.transfer s auth f t a = .ok s') :
    f ∈ auth ∧ 0 ≤ a ∧ a ≤ s.bal f ∧ s'.supply = s.supply ∧ s'.allow = s.allow ∧ s'.now = s.now ∧
    s'.bal = moved s.bal f t a := by
  obtain ⟨u, hu, h⟩ := OZ.Fungible.bind_eq_ok h
  obtain ⟨s1, h1, h2⟩ := OZ.Fungible.bind_eq_ok h
  injection h2 with h2; subst h2
  obtain ⟨m1, m2, m3, m4, m5, -, m7⟩ := update_move_ok h1
  exact ⟨OZ.Fungible.requireAuth_ok hu, m1, m2, m3, m4, m5, m7⟩

/-- a successful `spend_allowance` had at least `a` of live allowance -/
theorem spendAllowance_ge {c : Cfg} {s s' : Tok} {o sp : Nat} {a : Int}
    (h : OZ.Fungible.spendAllowance c s o sp a = .ok s') :
    0 ≤ a ∧ a ≤ OZ.Fungible.allowance s o sp ∧ (a = 0 → s' = s) := by
  unfold OZ.Fungible.spendAllowance at h
  split at h
  · cases h
  · dsimp only at h
    split at h
    · cases h
    · split at h
      · exact ⟨by omega, by unfold OZ.Fungible.allowance; omega, by omega⟩
      · injection h with h
        exact ⟨by omega, by unfold OZ.Fungible.allowance; omega, fun _ => h.symm⟩

theorem transferFrom_ok {c : Cfg} {s s' : Tok} {auth : List Nat} {sp f t : Nat} {a : Int}
    (h : OZ.Fungible.transferFrom c s auth sp f t a = .ok s') :
    sp ∈ auth ∧ 0 ≤ a ∧ a ≤ s.bal f ∧ a ≤ OZ.Fungible.allowance s f sp ∧ s'.supply = s.supply ∧
    s'.now = s.now ∧ s'.bal = moved s.bal f t a ∧
    (∀ x y, ¬ (x = f ∧ y = sp) → s'.allow x y = s.allow x y) ∧ (a = 0 → s'.allow = s.allow) := by
  obtain ⟨u, hu, h⟩ := OZ.Fungible.bind_eq_ok h
  obtain ⟨s0, h0, h⟩ := OZ.Fungible.bind_eq_ok h
  obtain ⟨s1, h1, h2⟩ := OZ.Fungible.bind_eq_ok h
  injection h2 with h2; subst h2
  obtain ⟨e1, e2, e3, -, e5⟩ := OZ.Fungible.spendAllowance_ok h0
  obtain ⟨g1, g2, g3⟩ := spendAllowance_ge h0
  obtain ⟨m1, m2, m3, m4, m5, -, m7⟩ := update_move_ok h1
  refine ⟨OZ.Fungible.requireAuth_ok hu, m1, by rw [← e2]; exact m2, g2, by rw [← e1]; exact m3,
    by rw [← e3]; exact m5, by rw [← e2]; exact m7, ?_, ?_⟩
  · intro x y hxy; show s1.allow x y = _; rw [m4]; exact e5 x y hxy
  · intro ha; show s1.allow = _; rw [m4, g3 ha]


/-! ### what the two internal movers do, exactly -/

/-- effect of `deposit_internal` (shared by `deposit` and `mint`): `assets` go from `frm` to
the vault on the asset token, `shares` are minted to `receiver`, nothing else changes except
the asset allowance `frm → operator` when the operator is not the payer -/
structure Inflow (s s' : State) (tauth : List Nat) (r f o : Nat) (assets shares : Int) : Prop where
  a0 : 0 ≤ assets
  v0 : 0 ≤ shares
  afford : assets ≤ s.ast.bal f
  astBal : s'.ast.bal = moved s.ast.bal f s.vault assets
  astSup : s'.ast.supply = s.ast.supply
  astNow : s'.ast.now = s.ast.now
  shBal : s'.sh.bal = upd s.sh.bal r (s.sh.bal r + shares)
  shSup : s'.sh.supply = s.sh.supply + shares
  shSupHi : s'.sh.supply ≤ I128_MAX
  shAllow : s'.sh.allow = s.sh.allow
  shNow : s'.sh.now = s.sh.now
  vault : s'.vault = s.vault
  offset : s'.offset = s.offset
  direct : o = f → f ∈ tauth ∧ s'.ast.allow = s.ast.allow
  via : o ≠ f → o ∈ tauth ∧ assets ≤ OZ.Fungible.allowance s.ast f o ∧
    (∀ x y, ¬ (x = f ∧ y = o) → s'.ast.allow x y = s.ast.allow x y) ∧
    (assets = 0 → s'.ast.allow = s.ast.allow)

/-- effect of `withdraw_internal` (shared by `withdraw` and `redeem`): `shares` are burned from
`owner` (spending the share allowance `owner → operator` iff the operator is not the owner),
`assets` go from the vault to `receiver` -/
structure Outflow (s s' : State) (r ow o : Nat) (assets shares : Int) : Prop where
  a0 : 0 ≤ assets
  v0 : 0 ≤ shares
  hasShares : shares ≤ s.sh.bal ow
  hasAssets : assets ≤ s.ast.bal s.vault
  astBal : s'.ast.bal = moved s.ast.bal s.vault r assets
  astSup : s'.ast.supply = s.ast.supply
  astAllow : s'.ast.allow = s.ast.allow
  astNow : s'.ast.now = s.ast.now
  shBal : s'.sh.bal = upd s.sh.bal ow (s.sh.bal ow - shares)
  shSup : s'.sh.supply = s.sh.supply - shares
  shNow : s'.sh.now = s.sh.now
  vault : s'.vault = s.vault
  offset : s'.offset = s.offset
  own : o = ow → s'.sh.allow = s.sh.allow
  spent : o ≠ ow → shares ≤ OZ.Fungible.allowance s.sh ow o ∧
    (∀ x y, ¬ (x = ow ∧ y = o) → s'.sh.allow x y = s.sh.allow x y)

theorem depositInternal_ok {c : Cfg} {s s' : State} {tauth : List Nat} {r f o : Nat} {a v : Int}
    (h : depositInternal c s tauth r a v f o = .ok s') :
    Inflow s s' tauth r f o a v ∧ s'.events = s.events := by
  obtain ⟨ast, h1, h⟩ := bind_eq_ok h
  obtain ⟨sh, h2, h3⟩ := bind_eq_ok h
  injection h3 with h3; subst h3
  obtain ⟨m1, m2, m3, m4, m5, m6, m7⟩ := update_mint_ok (liftS_ok h2)
  unfold pullAssets at h1
  by_cases hof : o = f
  · rw [if_pos hof] at h1
    obtain ⟨t1, t2, t3, t4, t5, t6, t7⟩ := transfer_ok (liftA_ok h1)
    exact ⟨⟨t2, m1, t3, t7, t4, t6, m6, m2, m7, m3, m4, rfl, rfl, fun _ => ⟨t1, t5⟩,
      fun hne => absurd hof hne⟩, rfl⟩
  · rw [if_neg hof] at h1
    obtain ⟨t1, t2, t3, t4, t5, t6, t7, t8, t9⟩ := transferFrom_ok (liftA_ok h1)
    exact ⟨⟨t2, m1, t3, t7, t5, t6, m6, m2, m7, m3, m4, rfl, rfl, fun he => absurd he hof,
      fun _ => ⟨t1, t4, t8, t9⟩⟩, rfl⟩

theorem withdrawInternal_ok {c : Cfg} {s s' : State} {r ow o : Nat} {a v : Int}
    (h : withdrawInternal c s r ow a v o = .ok s') :
    Outflow s s' r ow o a v ∧ s'.events = s.events := by
  obtain ⟨sh1, h1, h⟩ := bind_eq_ok h
  obtain ⟨sh2, h2, h⟩ := bind_eq_ok h
  obtain ⟨ast, h3, h4⟩ := bind_eq_ok h
  injection h4 with h4; subst h4
  obtain ⟨b1, b2, b3, b4, b5, -, b7⟩ := update_burn_ok (liftS_ok h2)
  obtain ⟨t1, t2, t3, t4, t5, t6, t7⟩ := transfer_ok (liftA_ok h3)
  unfold spendShares at h1
  by_cases hoo : o = ow
  · rw [if_pos hoo] at h1
    injection h1 with h1; subst h1
    exact ⟨⟨t2, b1, b2, t3, t7, t4, t5, t6, b7, b3, b5, rfl, rfl, fun _ => b4,
      fun hne => absurd hoo hne⟩, rfl⟩
  · rw [if_neg hoo] at h1
    have h1 := liftS_ok h1
    obtain ⟨e1, e2, e3, -, e5⟩ := OZ.Fungible.spendAllowance_ok h1
    obtain ⟨g1, g2, -⟩ := spendAllowance_ge h1
    refine ⟨⟨t2, b1, by rw [← e2]; exact b2, t3, t7, t4, t5, t6, by rw [← e2]; exact b7,
      by rw [← e1]; exact b3, by rw [← e3]; exact b5, rfl, rfl, fun he => absurd he hoo, ?_⟩, rfl⟩
    intro _
    refine ⟨g2, ?_⟩
    intro x y hxy; show sh2.allow x y = _; rw [b4]; exact e5 x y hxy

/-! ### the four entry points: authorization, value, movement, event -/

theorem deposit_ok {c : Cfg} {s s' : State} {auth : List Nat} {sub : Bool} {a v : Int} {r f o : Nat}
    (h : deposit c s auth sub a r f o = .ok (s', v)) :
    o ∈ auth ∧ a ≤ I128_MAX ∧ previewDeposit s a = .ok v ∧
    Inflow s s' (tokenAuth s auth sub) r f o a v ∧ s'.events = s.events ++ [.deposit o f r a v] := by
  obtain ⟨_, h1, h⟩ := bind_eq_ok h
  obtain ⟨_, h2, h⟩ := bind_eq_ok h
  obtain ⟨v', h3, h⟩ := bind_eq_ok h
  obtain ⟨s1, h4, h5⟩ := bind_eq_ok h
  injection h5 with h5; injection h5 with h5 h6; subst h5; subst h6
  obtain ⟨hin, hev⟩ := depositInternal_ok h4
  refine ⟨requireAuth_ok h1, guard_ok h2, h3, ?_, ?_⟩
  · exact ⟨hin.a0, hin.v0, hin.afford, hin.astBal, hin.astSup, hin.astNow, hin.shBal, hin.shSup,
      hin.shSupHi, hin.shAllow, hin.shNow, hin.vault, hin.offset, hin.direct, hin.via⟩
  · show s1.events ++ _ = _; rw [hev]

theorem mint_ok {c : Cfg} {s s' : State} {auth : List Nat} {sub : Bool} {x a : Int} {r f o : Nat}
    (h : mint c s auth sub x r f o = .ok (s', a)) :
    o ∈ auth ∧ x ≤ I128_MAX ∧ previewMint s x = .ok a ∧
    Inflow s s' (tokenAuth s auth sub) r f o a x ∧ s'.events = s.events ++ [.deposit o f r a x] := by
  obtain ⟨_, h1, h⟩ := bind_eq_ok h
  obtain ⟨_, h2, h⟩ := bind_eq_ok h
  obtain ⟨a', h3, h⟩ := bind_eq_ok h
  obtain ⟨s1, h4, h5⟩ := bind_eq_ok h
  injection h5 with h5; injection h5 with h5 h6; subst h5; subst h6
  obtain ⟨hin, hev⟩ := depositInternal_ok h4
  refine ⟨requireAuth_ok h1, guard_ok h2, h3, ?_, ?_⟩
  · exact ⟨hin.a0, hin.v0, hin.afford, hin.astBal, hin.astSup, hin.astNow, hin.shBal, hin.shSup,
      hin.shSupHi, hin.shAllow, hin.shNow, hin.vault, hin.offset, hin.direct, hin.via⟩
  · show s1.events ++ _ = _; rw [hev]

theorem withdraw_ok {c : Cfg} {s s' : State} {auth : List Nat} {a v : Int} {r ow o : Nat}
    (h : withdraw c s auth a r ow o = .ok (s', v)) :
    o ∈ auth ∧ (∃ m, maxWithdraw s ow = .ok m ∧ a ≤ m) ∧ previewWithdraw s a = .ok v ∧
    Outflow s s' r ow o a v ∧ s'.events = s.events ++ [.withdraw o r ow a v] := by
  obtain ⟨_, h1, h⟩ := bind_eq_ok h
  obtain ⟨m, hm, h⟩ := bind_eq_ok h
  obtain ⟨_, h2, h⟩ := bind_eq_ok h
  obtain ⟨v', h3, h⟩ := bind_eq_ok h
  obtain ⟨s1, h4, h5⟩ := bind_eq_ok h
  injection h5 with h5; injection h5 with h5 h6; subst h5; subst h6
  obtain ⟨hout, hev⟩ := withdrawInternal_ok h4
  refine ⟨requireAuth_ok h1, ⟨m, hm, guard_ok h2⟩, h3, ?_, ?_⟩
  · exact ⟨hout.a0, hout.v0, hout.hasShares, hout.hasAssets, hout.astBal, hout.astSup, hout.astAllow,
      hout.astNow, hout.shBal, hout.shSup, hout.shNow, hout.vault, hout.offset, hout.own, hout.spent⟩
  · show s1.events ++ _ = _; rw [hev]

theorem redeem_ok {c : Cfg} {s s' : State} {auth : List Nat} {x a : Int} {r ow o : Nat}
    (h : redeem c s auth x r ow o = .ok (s', a)) :
    o ∈ auth ∧ x ≤ maxRedeem s ow ∧ previewRedeem s x = .ok a ∧
    Outflow s s' r ow o a x ∧ s'.events = s.events ++ [.withdraw o r ow a x] := by
  obtain ⟨_, h1, h⟩ := bind_eq_ok h
  obtain ⟨_, h2, h⟩ := bind_eq_ok h
  obtain ⟨a', h3, h⟩ := bind_eq_ok h
  obtain ⟨s1, h4, h5⟩ := bind_eq_ok h
  injection h5 with h5; injection h5 with h5 h6; subst h5; subst h6
  obtain ⟨hout, hev⟩ := withdrawInternal_ok h4
  refine ⟨requireAuth_ok h1, guard_ok h2, h3, ?_, ?_⟩
  · exact ⟨hout.a0, hout.v0, hout.hasShares, hout.hasAssets, hout.astBal, hout.astSup, hout.astAllow,
      hout.astNow, hout.shBal, hout.shSup, hout.shNow, hout.vault, hout.offset, hout.own, hout.spent⟩
  · show s1.events ++ _ = _; rw [hev]


/-! ### well-formed states -/

/-- both tokens satisfy the C01 invariant over the universe `U`, the offset is within its
bound, and the vault never approved anybody on the asset token (it cannot: it has no
`__check_auth`, so it never authorizes anything except as the direct invoker) -/
structure WF (U : List Nat) (s : State) : Prop where
  sh : OZ.Fungible.Inv U s.sh
  ast : OZ.Fungible.Inv U s.ast
  off : s.offset ≤ 10
  vin : s.vault ∈ U
  noVaultAllow : ∀ sp, s.ast.allow s.vault sp = none

theorem allowance_none {t : Tok} {o sp : Nat} (h : t.allow o sp = none) :
    OZ.Fungible.allowance t o sp = 0 := by
  simp [OZ.Fungible.allowance, OZ.Fungible.allowanceData, h, Temp.get?]

theorem inv_of_mint {U : List Nat} (hn : U.Nodup) {s s' : Tok} (hi : OZ.Fungible.Inv U s) {r : Nat}
    {v : Int} (hr : r ∈ U) (hb : s'.bal = upd s.bal r (s.bal r + v)) (hs : s'.supply = s.supply + v)
    (h0 : 0 ≤ v) (hhi : s'.supply ≤ I128_MAX) : OZ.Fungible.Inv U s' := by
  refine ⟨?_, ?_, ?_, ?_, hhi⟩
  · rw [hb, OZ.Fungible.total_upd_in _ _ _ _ hn hr, hs, ← hi.sum]; omega
  · intro x; rw [hb]
    by_cases hx : x = r
    · subst hx; rw [OZ.Fungible.upd_same]; have := hi.nonneg x; omega
    · rw [OZ.Fungible.upd_other _ _ _ _ hx]; exact hi.nonneg x
  · intro x hx; rw [hb]
    have hxr : x ≠ r := fun e => hx (e ▸ hr)
    rw [OZ.Fungible.upd_other _ _ _ _ hxr]; exact hi.outside x hx
  · rw [hs]; have := hi.supLo; omega

theorem inv_of_burn {U : List Nat} (hn : U.Nodup) {s s' : Tok} (hi : OZ.Fungible.Inv U s) {ow : Nat}
    {v : Int} (ho : ow ∈ U) (hb : s'.bal = upd s.bal ow (s.bal ow - v)) (hs : s'.supply = s.supply - v)
    (h0 : 0 ≤ v) (hle : v ≤ s.bal ow) : OZ.Fungible.Inv U s' := by
  have hsup := OZ.Fungible.bal_le_supply hn hi ow
  refine ⟨?_, ?_, ?_, ?_, ?_⟩
  · rw [hb, OZ.Fungible.total_upd_in _ _ _ _ hn ho, hs, ← hi.sum]; omega
  · intro x; rw [hb]
    by_cases hx : x = ow
    · subst hx; rw [OZ.Fungible.upd_same]; omega
    · rw [OZ.Fungible.upd_other _ _ _ _ hx]; exact hi.nonneg x
  · intro x hx; rw [hb]
    have hxr : x ≠ ow := fun e => hx (e ▸ ho)
    rw [OZ.Fungible.upd_other _ _ _ _ hxr]; exact hi.outside x hx
  · rw [hs]; omega
  · rw [hs]; have := hi.supHi; omega

theorem inv_of_move {U : List Nat} (hn : U.Nodup) {s s' : Tok} (hi : OZ.Fungible.Inv U s) {f t : Nat}
    {a : Int} (hf : f ∈ U) (ht : t ∈ U) (hb : s'.bal = moved s.bal f t a) (hs : s'.supply = s.supply)
    (h0 : 0 ≤ a) (hle : a ≤ s.bal f) : OZ.Fungible.Inv U s' := by
  refine ⟨?_, ?_, ?_, ?_, ?_⟩
  · rw [hb, hs, ← hi.sum]; unfold moved
    rw [OZ.Fungible.total_upd_in _ _ _ _ hn ht, OZ.Fungible.total_upd_in _ _ _ _ hn hf]; omega
  · intro x; rw [hb, moved_apply]
    have := hi.nonneg x
    by_cases h1 : x = f <;> by_cases h2 : x = t <;> simp [h1, h2] <;> (try subst h1) <;> (try subst h2) <;> omega
  · intro x hx; rw [hb, moved_apply]
    have hxf : x ≠ f := fun e => hx (e ▸ hf)
    have hxt : x ≠ t := fun e => hx (e ▸ ht)
    simp [hxf, hxt]; exact hi.outside x hx
  · rw [hs]; exact hi.supLo
  · rw [hs]; exact hi.supHi


theorem inflow_wf {U : List Nat} (hn : U.Nodup) {s s' : State} (hw : WF U s) {tauth : List Nat}
    {r f o : Nat} {a v : Int} (hr : r ∈ U) (hf : f ∈ U) (h : Inflow s s' tauth r f o a v) : WF U s' := by
  refine ⟨?_, ?_, ?_, ?_, ?_⟩
  · exact inv_of_mint hn hw.sh hr h.shBal h.shSup h.v0 h.shSupHi
  · exact inv_of_move hn hw.ast hf hw.vin h.astBal h.astSup h.a0 h.afford
  · rw [h.offset]; exact hw.off
  · rw [h.vault]; exact hw.vin
  · intro sp; rw [h.vault]
    by_cases hof : o = f
    · rw [(h.direct hof).2]; exact hw.noVaultAllow sp
    · obtain ⟨-, h2, h3, h4⟩ := h.via hof
      by_cases hfv : f = s.vault
      · have h0 : OZ.Fungible.allowance s.ast f o = 0 := by
          rw [hfv]; exact allowance_none (hw.noVaultAllow o)
        have ha : a = 0 := by have := h.a0; omega
        rw [h4 ha]; exact hw.noVaultAllow sp
      · rw [h3 s.vault sp (fun e => hfv e.1.symm)]; exact hw.noVaultAllow sp

theorem outflow_wf {U : List Nat} (hn : U.Nodup) {s s' : State} (hw : WF U s)
    {r ow o : Nat} {a v : Int} (hr : r ∈ U) (ho : ow ∈ U) (h : Outflow s s' r ow o a v) : WF U s' := by
  refine ⟨?_, ?_, ?_, ?_, ?_⟩
  · exact inv_of_burn hn hw.sh ho h.shBal h.shSup h.v0 h.hasShares
  · exact inv_of_move hn hw.ast hw.vin hr h.astBal h.astSup h.a0 h.hasAssets
  · rw [h.offset]; exact hw.off
  · rw [h.vault]; exact hw.vin
  · intro sp; rw [h.vault, h.astAllow]; exact hw.noVaultAllow sp

theorem shareOp_ok {c : Cfg} {s s' : State} {auth : List Nat} {op : OZ.Fungible.Op}
    (h : shareOp c s auth op = .ok s') :
    shareOpAllowed op = true ∧ ∃ sh, OZ.Fungible.apply c s.sh auth op = .ok sh ∧
      s' = emitOpt { s with sh := sh } (shareEvent op) := by
  unfold shareOp at h
  split at h
  · rename_i ha
    split at h
    · rename_i sh hsh
      injection h with h
      exact ⟨ha, sh, liftS_ok hsh, h.symm⟩
    · cases h
  · cases h

theorem emitOpt_fields (s : State) (o : Option OZ.Fungible.Event) :
    (emitOpt s o).sh = s.sh ∧ (emitOpt s o).ast = s.ast ∧ (emitOpt s o).vault = s.vault ∧
    (emitOpt s o).offset = s.offset := by
  cases o <;> exact ⟨rfl, rfl, rfl, rfl⟩

theorem assetOp_ok {c : Cfg} {s s' : State} {auth : List Nat} {op : OZ.Fungible.Op}
    (h : assetOp c s auth op = .ok s') :
    ∃ a, OZ.Fungible.apply c s.ast auth op = .ok a ∧ s' = { s with ast := a } := by
  unfold assetOp at h
  split at h
  · rename_i a ha
    injection h with h
    exact ⟨a, liftA_ok ha, h.symm⟩
  · cases h

/-- an address that does not authorize and has no allowance entries as owner still has none
after any token operation -/
theorem apply_allow_frame {c : Cfg} {t t' : Tok} {auth : List Nat} {op : OZ.Fungible.Op}
    (h : OZ.Fungible.apply c t auth op = .ok t') (v : Nat) (hv : v ∉ auth)
    (hnone : ∀ sp, t.allow v sp = none) : ∀ sp, t'.allow v sp = none := by
  intro sp0
  cases op with
  | mint dst amt =>
    obtain ⟨s1, h1, h2⟩ := OZ.Fungible.bind_eq_ok h
    injection h2 with h2; subst h2
    obtain ⟨-, -, m3, -⟩ := update_mint_ok h1
    show s1.allow v sp0 = none; rw [m3]; exact hnone sp0
  | transfer f dst amt =>
    obtain ⟨-, -, -, -, m5, -, -⟩ := transfer_ok h
    rw [m5]; exact hnone sp0
  | transferFrom sp f dst amt =>
    obtain ⟨-, t2, -, t4, -, -, -, t8, t9⟩ := transferFrom_ok h
    by_cases hfv : f = v
    · have h0 : OZ.Fungible.allowance t f sp = 0 := by rw [hfv]; exact allowance_none (hnone sp)
      rw [t9 (by omega)]; exact hnone sp0
    · rw [t8 v sp0 (fun e => hfv e.1.symm)]; exact hnone sp0
  | approve o sp amt lu =>
    obtain ⟨_, hu, h⟩ := OZ.Fungible.bind_eq_ok h
    obtain ⟨s0, h0, h2⟩ := OZ.Fungible.bind_eq_ok h
    injection h2 with h2; subst h2
    have ho := OZ.Fungible.requireAuth_ok hu
    obtain ⟨-, -, -, -, e5⟩ := OZ.Fungible.setAllowance_ok h0
    have : o ≠ v := fun e => hv (e ▸ ho)
    show s0.allow v sp0 = none
    rw [e5 v sp0 (fun e => this e.1.symm)]; exact hnone sp0
  | burn f amt =>
    obtain ⟨_, _, h⟩ := OZ.Fungible.bind_eq_ok h
    obtain ⟨s1, h1, h2⟩ := OZ.Fungible.bind_eq_ok h
    injection h2 with h2; subst h2
    obtain ⟨-, -, -, b4, -⟩ := update_burn_ok h1
    show s1.allow v sp0 = none; rw [b4]; exact hnone sp0
  | burnFrom sp f amt =>
    obtain ⟨_, _, h⟩ := OZ.Fungible.bind_eq_ok h
    obtain ⟨s0, h0, h⟩ := OZ.Fungible.bind_eq_ok h
    obtain ⟨s1, h1, h2⟩ := OZ.Fungible.bind_eq_ok h
    injection h2 with h2; subst h2
    obtain ⟨-, -, -, b4, -⟩ := update_burn_ok h1
    obtain ⟨-, -, -, -, e5⟩ := OZ.Fungible.spendAllowance_ok h0
    obtain ⟨g1, g2, g3⟩ := spendAllowance_ge h0
    show s1.allow v sp0 = none; rw [b4]
    by_cases hfv : f = v
    · have h0' : OZ.Fungible.allowance t f sp = 0 := by rw [hfv]; exact allowance_none (hnone sp)
      rw [g3 (by omega)]; exact hnone sp0
    · rw [e5 v sp0 (fun e => hfv e.1.symm)]; exact hnone sp0
  | advance n =>
    injection h with h; subst h; exact hnone sp0

/-- **every successful invocation preserves well-formedness**, provided nobody signs for the
vault contract and the addresses involved lie in the universe -/
theorem apply_wf {U : List Nat} (hn : U.Nodup) (c : Cfg) {s s' : State} {ret : Int} (hw : WF U s)
    (auth : List Nat) (op : Op) (hU : ∀ a ∈ op.addrs, a ∈ U) (hv : s.vault ∉ auth)
    (h : apply c s auth op = .ok (s', ret)) : WF U s' := by
  cases op with
  | deposit sub a r f o =>
    obtain ⟨-, -, -, hin, -⟩ := deposit_ok h
    exact inflow_wf hn hw (hU r (by simp [Op.addrs])) (hU f (by simp [Op.addrs])) hin
  | mint sub x r f o =>
    obtain ⟨-, -, -, hin, -⟩ := mint_ok h
    exact inflow_wf hn hw (hU r (by simp [Op.addrs])) (hU f (by simp [Op.addrs])) hin
  | withdraw a r ow o =>
    obtain ⟨-, -, -, hout, -⟩ := withdraw_ok h
    exact outflow_wf hn hw (hU r (by simp [Op.addrs])) (hU ow (by simp [Op.addrs])) hout
  | redeem x r ow o =>
    obtain ⟨-, -, -, hout, -⟩ := redeem_ok h
    exact outflow_wf hn hw (hU r (by simp [Op.addrs])) (hU ow (by simp [Op.addrs])) hout
  | share op =>
    simp only [apply, withRet] at h
    split at h
    · rename_i s1 h1
      injection h with h; injection h with h _; subst h
      obtain ⟨-, sh, hsh, rfl⟩ := shareOp_ok h1
      obtain ⟨e1, e2, e3, e4⟩ := emitOpt_fields { s with sh := sh } (shareEvent op)
      have hi := (OZ.Fungible.apply_inv hn c hw.sh auth op hU hsh).1
      refine ⟨by rw [e1]; exact hi, by rw [e2]; exact hw.ast, by rw [e4]; exact hw.off,
        by rw [e3]; exact hw.vin, ?_⟩
      intro sp; rw [e2, e3]; exact hw.noVaultAllow sp
    · cases h
  | asset op =>
    simp only [apply, withRet] at h
    split at h
    · rename_i s1 h1
      injection h with h; injection h with h _; subst h
      obtain ⟨a, ha, rfl⟩ := assetOp_ok h1
      have hi := (OZ.Fungible.apply_inv hn c hw.ast auth op hU ha).1
      exact ⟨hw.sh, hi, hw.off, hw.vin, apply_allow_frame ha s.vault hv hw.noVaultAllow⟩
    · cases h
  | advance n =>
    simp only [apply] at h
    injection h with h; injection h with h _; subst h
    exact ⟨hw.sh.congr rfl rfl, hw.ast.congr rfl rfl, hw.off, hw.vin, hw.noVaultAllow⟩

theorem construct_wf {U : List Nat} {vault offset now : Nat} {s : State} (hv : vault ∈ U)
    (h : construct vault offset now = .ok s) : WF U s := by
  unfold construct at h
  split at h
  · cases h
  · rename_i ho
    injection h with h; subst h
    exact ⟨OZ.Fungible.init_inv U now, OZ.Fungible.init_inv U now,
      by unfold MAX_DECIMALS_OFFSET at ho; show offset ≤ 10; omega, hv, fun _ => rfl⟩


/-- an address that does not authorize and has approved nobody never loses balance in a
token operation -/
theorem apply_bal_frame {c : Cfg} {t t' : Tok} {auth : List Nat} {op : OZ.Fungible.Op}
    (h : OZ.Fungible.apply c t auth op = .ok t') (v : Nat) (hv : v ∉ auth)
    (hnone : ∀ sp, t.allow v sp = none) : t.bal v ≤ t'.bal v := by
  cases op with
  | mint dst amt =>
    obtain ⟨s1, h1, h2⟩ := OZ.Fungible.bind_eq_ok h
    injection h2 with h2; subst h2
    obtain ⟨m1, -, -, -, -, m6, -⟩ := update_mint_ok h1
    show _ ≤ s1.bal v; rw [m6]
    by_cases hx : v = dst
    · subst hx; rw [OZ.Fungible.upd_same]; omega
    · rw [OZ.Fungible.upd_other _ _ _ _ hx]
  | transfer f dst amt =>
    obtain ⟨t1, t2, -, -, -, -, t7⟩ := transfer_ok h
    have : v ≠ f := fun e => hv (e ▸ t1)
    rw [t7, moved_apply, if_neg this]; split <;> omega
  | transferFrom sp f dst amt =>
    obtain ⟨-, t2, -, t4, -, -, t7, -, -⟩ := transferFrom_ok h
    rw [t7, moved_apply]
    by_cases hfv : v = f
    · have h0 : OZ.Fungible.allowance t f sp = 0 := by rw [← hfv]; exact allowance_none (hnone sp)
      have : amt = 0 := by omega
      subst this; simp
    · rw [if_neg hfv]; split <;> omega
  | approve o sp amt lu =>
    obtain ⟨_, hu, h⟩ := OZ.Fungible.bind_eq_ok h
    obtain ⟨s0, h0, h2⟩ := OZ.Fungible.bind_eq_ok h
    injection h2 with h2; subst h2
    obtain ⟨-, e2, -, -, -⟩ := OZ.Fungible.setAllowance_ok h0
    show _ ≤ s0.bal v; rw [e2]
  | burn f amt =>
    obtain ⟨_, hu, h⟩ := OZ.Fungible.bind_eq_ok h
    obtain ⟨s1, h1, h2⟩ := OZ.Fungible.bind_eq_ok h
    injection h2 with h2; subst h2
    have hf := OZ.Fungible.requireAuth_ok hu
    obtain ⟨-, -, -, -, -, -, b7⟩ := update_burn_ok h1
    have : v ≠ f := fun e => hv (e ▸ hf)
    show _ ≤ s1.bal v; rw [b7, OZ.Fungible.upd_other _ _ _ _ this]
  | burnFrom sp f amt =>
    obtain ⟨_, _, h⟩ := OZ.Fungible.bind_eq_ok h
    obtain ⟨s0, h0, h⟩ := OZ.Fungible.bind_eq_ok h
    obtain ⟨s1, h1, h2⟩ := OZ.Fungible.bind_eq_ok h
    injection h2 with h2; subst h2
    obtain ⟨b1, -, -, -, -, -, b7⟩ := update_burn_ok h1
    obtain ⟨-, e2, -, -, -⟩ := OZ.Fungible.spendAllowance_ok h0
    obtain ⟨g1, g2, g3⟩ := spendAllowance_ge h0
    show _ ≤ s1.bal v; rw [b7, e2]
    by_cases hfv : v = f
    · have h0' : OZ.Fungible.allowance t f sp = 0 := by rw [← hfv]; exact allowance_none (hnone sp)
      have : amt = 0 := by omega
      subst this; subst hfv; rw [OZ.Fungible.upd_same]; omega
    · rw [OZ.Fungible.upd_other _ _ _ _ hfv]
  | advance n =>
    injection h with h; subst h; exact Int.le_refl _

/-- the vault's address and its decimals offset never change -/
theorem apply_static {c : Cfg} {s s' : State} {ret : Int} {auth : List Nat} {op : Op}
    (h : apply c s auth op = .ok (s', ret)) : s'.vault = s.vault ∧ s'.offset = s.offset := by
  cases op with
  | deposit sub a r f o => obtain ⟨-, -, -, hin, -⟩ := deposit_ok h; exact ⟨hin.vault, hin.offset⟩
  | mint sub x r f o => obtain ⟨-, -, -, hin, -⟩ := mint_ok h; exact ⟨hin.vault, hin.offset⟩
  | withdraw a r ow o => obtain ⟨-, -, -, hout, -⟩ := withdraw_ok h; exact ⟨hout.vault, hout.offset⟩
  | redeem x r ow o => obtain ⟨-, -, -, hout, -⟩ := redeem_ok h; exact ⟨hout.vault, hout.offset⟩
  | share op =>
    simp only [apply, withRet] at h
    split at h
    · rename_i s1 h1
      injection h with h; injection h with h _; subst h
      obtain ⟨-, sh, -, rfl⟩ := shareOp_ok h1
      obtain ⟨-, -, e3, e4⟩ := emitOpt_fields { s with sh := sh } (shareEvent op)
      exact ⟨e3, e4⟩
    · cases h
  | asset op =>
    simp only [apply, withRet] at h
    split at h
    · rename_i s1 h1
      injection h with h; injection h with h _; subst h
      obtain ⟨a, -, rfl⟩ := assetOp_ok h1
      exact ⟨rfl, rfl⟩
    · cases h
  | advance n =>
    simp only [apply] at h
    injection h with h; injection h with h _; subst h
    exact ⟨rfl, rfl⟩

/-- positivity of the two virtual totals in a well-formed state -/
theorem wf_pos {U : List Nat} {s : State} (hw : WF U s) :
    0 ≤ totalAssets s ∧ 0 ≤ totalShares s ∧ 1 ≤ (10 : Int) ^ s.offset ∧ totalShares s ≤ I128_MAX :=
  ⟨hw.ast.nonneg s.vault, hw.sh.supLo, (pow10_bounds s.offset hw.off).1, hw.sh.supHi⟩

/-- the payer of a successful deposit / mint is never the vault itself unless nothing is paid -/
theorem inflow_assets {U : List Nat} {s s' : State} (hw : WF U s) {auth : List Nat} {sub : Bool}
    {r f o : Nat} {a v : Int} (ho : o ∈ auth) (hv : s.vault ∉ auth)
    (h : Inflow s s' (tokenAuth s auth sub) r f o a v) : totalAssets s' = totalAssets s + a := by
  unfold totalAssets
  rw [h.vault, h.astBal, moved_apply]
  by_cases hfv : s.vault = f
  · have hof : o ≠ f := fun e => hv (hfv ▸ e ▸ ho)
    obtain ⟨-, h2, -, -⟩ := h.via hof
    have h0 : OZ.Fungible.allowance s.ast f o = 0 := by
      rw [← hfv]; exact allowance_none (hw.noVaultAllow o)
    have := h.a0
    have ha : a = 0 := by omega
    subst ha; simp
  · simp [hfv]

theorem outflow_assets {s s' : State} {r ow o : Nat} {a v : Int} (h : Outflow s s' r ow o a v) :
    totalAssets s' = totalAssets s - a + (if s.vault = r then a else 0) := by
  unfold totalAssets
  rw [h.vault, h.astBal, moved_apply]; simp

/-! ### vocabulary of the C05 statements (`MovedIn`, `MovedOut`, `RateLe`) and small facts about it -/

/-- an amount of shares that some holder owns is a valid i128 -/
theorem shares_in128 {U : List Nat} (hn : U.Nodup) {s : State} (hw : WF U s) {x : Int} {ow : Nat}
    (h0 : 0 ≤ x) (hle : x ≤ s.sh.bal ow) : OZ.MulDiv.in128 x := by
  have h1 := OZ.Fungible.bal_le_supply hn hw.sh ow
  have h2 := hw.sh.supHi
  unfold OZ.MulDiv.in128 OZ.MulDiv.I128_MIN OZ.MulDiv.I128_MAX; unfold I128_MAX at h2; omega

/-- `assets` moved from `payer` to the vault on the asset token and `shares` were minted to
`receiver`; no other balance, no supply other than the share supply, no share allowance and
no asset allowance other than `payer → operator` (when they differ) changed -/
def MovedIn (s s' : State) (receiver payer operator : Nat) (assets shares : Int) : Prop :=
  (∀ x, s'.ast.bal x = s.ast.bal x - (if x = payer then assets else 0) + (if x = s.vault then assets else 0)) ∧
  (∀ x, s'.sh.bal x = s.sh.bal x + (if x = receiver then shares else 0)) ∧
  s'.sh.supply = s.sh.supply + shares ∧ s'.ast.supply = s.ast.supply ∧ s'.sh.allow = s.sh.allow ∧
  (∀ x y, ¬ (x = payer ∧ y = operator ∧ operator ≠ payer) → s'.ast.allow x y = s.ast.allow x y) ∧
  (operator ≠ payer → assets ≤ OZ.Fungible.allowance s.ast payer operator) ∧
  0 ≤ assets ∧ 0 ≤ shares ∧ assets ≤ s.ast.bal payer

/-- `shares` were burned from `owner`, `assets` moved from the vault to `receiver`; the share
allowance `owner → operator` is required (and is the only one touched) iff they differ -/
def MovedOut (s s' : State) (receiver owner operator : Nat) (assets shares : Int) : Prop :=
  (∀ x, s'.ast.bal x = s.ast.bal x - (if x = s.vault then assets else 0) + (if x = receiver then assets else 0)) ∧
  (∀ x, s'.sh.bal x = s.sh.bal x - (if x = owner then shares else 0)) ∧
  s'.sh.supply = s.sh.supply - shares ∧ s'.ast.supply = s.ast.supply ∧ s'.ast.allow = s.ast.allow ∧
  (∀ x y, ¬ (x = owner ∧ y = operator ∧ operator ≠ owner) → s'.sh.allow x y = s.sh.allow x y) ∧
  (operator ≠ owner → shares ≤ OZ.Fungible.allowance s.sh owner operator) ∧
  0 ≤ assets ∧ 0 ≤ shares ∧ shares ≤ s.sh.bal owner ∧ assets ≤ s.ast.bal s.vault

theorem inflow_movedIn {s s' : State} {tauth : List Nat} {r f o : Nat} {a v : Int}
    (h : Inflow s s' tauth r f o a v) : MovedIn s s' r f o a v := by
  refine ⟨fun x => by rw [h.astBal, moved_apply], ?_, h.shSup, h.astSup, h.shAllow, ?_, ?_,
    h.a0, h.v0, h.afford⟩
  · intro x; rw [h.shBal]
    by_cases hx : x = r
    · subst hx; rw [OZ.Fungible.upd_same, if_pos rfl]
    · rw [OZ.Fungible.upd_other _ _ _ _ hx, if_neg hx]; omega
  · intro x y hxy
    by_cases hof : o = f
    · rw [(h.direct hof).2]
    · exact (h.via hof).2.2.1 x y (fun e => hxy ⟨e.1, e.2, hof⟩)
  · intro hof; exact (h.via hof).2.1

theorem outflow_movedOut {s s' : State} {r ow o : Nat} {a v : Int}
    (h : Outflow s s' r ow o a v) : MovedOut s s' r ow o a v := by
  refine ⟨fun x => by rw [h.astBal, moved_apply], ?_, h.shSup, h.astSup, h.astAllow, ?_, ?_,
    h.a0, h.v0, h.hasShares, h.hasAssets⟩
  · intro x; rw [h.shBal]
    by_cases hx : x = ow
    · subst hx; rw [OZ.Fungible.upd_same, if_pos rfl]
    · rw [OZ.Fungible.upd_other _ _ _ _ hx, if_neg hx]; omega
  · intro x y hxy
    by_cases hoo : o = ow
    · rw [h.own hoo]
    · exact (h.spent hoo).2 x y (fun e => hxy ⟨e.1, e.2, hoo⟩)
  · intro hoo; exact (h.spent hoo).1

/-- `(A+1)/(S+V)` of `s` is at most that of `s'`, by cross-multiplication -/
def RateLe (s s' : State) : Prop :=
  (totalAssets s + 1) * (totalShares s' + 10 ^ s'.offset) ≤
  (totalAssets s' + 1) * (totalShares s + 10 ^ s.offset)

theorem rateLe_refl (s : State) : RateLe s s := Int.le_refl _

/-- the rate order is transitive on well-formed states with the same offset -/
theorem rateLe_trans {U : List Nat} {s1 s2 s3 : State} (h1 : WF U s1) (h2 : WF U s2) (h3 : WF U s3)
    (o12 : s2.offset = s1.offset) (o23 : s3.offset = s2.offset)
    (r12 : RateLe s1 s2) (r23 : RateLe s2 s3) : RateLe s1 s3 := by
  obtain ⟨a1, t1, v1, -⟩ := wf_pos h1
  obtain ⟨a2, t2, v2, -⟩ := wf_pos h2
  obtain ⟨a3, t3, v3, -⟩ := wf_pos h3
  unfold RateLe at *
  rw [o23, o12] at *
  rw [o12] at r12 v2
  generalize (10 : Int) ^ s1.offset = V at *
  generalize totalAssets s1 = A1 at *
  generalize totalAssets s2 = A2 at *
  generalize totalAssets s3 = A3 at *
  generalize totalShares s1 = S1 at *
  generalize totalShares s2 = S2 at *
  generalize totalShares s3 = S3 at *
  by_contra hlt
  have hlt : (A3 + 1) * (S1 + V) < (A1 + 1) * (S3 + V) := by omega
  have k1 := Int.mul_le_mul_of_nonneg_right r12 (show 0 ≤ S3 + V by omega)
  have k2 := Int.mul_le_mul_of_nonneg_right r23 (show 0 ≤ S1 + V by omega)
  have k3 := Int.mul_lt_mul_of_pos_right hlt (show 0 < S2 + V by omega)
  nlinarith

/-- summing floors: `(S+V)·Σ ⌊b_u·(A+1)/(S+V)⌋ ≤ (A+1)·Σ b_u` -/
theorem sum_floor_le (L : List Nat) (b : Nat → Int) (y d : Int) (hd : 0 < d) :
    d * OZ.Fungible.total L (fun u => OZ.MulDiv.exactQ .floor (b u) y d) ≤ y * OZ.Fungible.total L b := by
  induction L with
  | nil => simp [OZ.Fungible.total]
  | cons u us ih =>
    simp only [OZ.Fungible.total, List.map_cons, List.sum_cons] at *
    have := (exactQ_floor_bounds (b u) y d hd).1
    nlinarith

theorem replay_append (evs : List Event) (ev : Event) :
    replay (evs ++ [ev]) = replayEvent (replay evs) ev := by
  simp [replay, List.foldl_append]



/-! ### exact allowance bookkeeping (reusing the C02 lemmas) -/

/-- the getter after a successful `spend_allowance` reads exactly `amt` less -/
theorem spendAllowance_exact {c : Cfg} {s s' : Tok} {o sp : Nat} {amt : Int}
    (h : OZ.Fungible.spendAllowance c s o sp amt = .ok s') :
    OZ.Fungible.allowance s' o sp = OZ.Fungible.allowance s o sp - amt := by
  obtain ⟨h0, -, hc⟩ := OZ.Fungible.spendAllowance_cases h
  rcases hc with ⟨hp, -⟩ | ⟨hz, rfl⟩
  · exact (OZ.Fungible.spendAllowance_pos h hp).2.2.1
  · omega

/-- ... and every other pair reads what it read before -/
theorem spendAllowance_others {c : Cfg} {s s' : Tok} {o sp : Nat} {amt : Int}
    (h : OZ.Fungible.spendAllowance c s o sp amt = .ok s') (x y : Nat) (hxy : ¬ (x = o ∧ y = sp)) :
    OZ.Fungible.allowance s' x y = OZ.Fungible.allowance s x y := by
  obtain ⟨-, -, e3, -, e5⟩ := OZ.Fungible.spendAllowance_ok h
  exact OZ.Fungible.allowance_congr_entry (e5 x y hxy) e3

/-- `spend_allowance(owner, spender, amt)` gets through exactly when: the amount is not
negative, the live allowance covers it, and (for a positive amount) re-writing the entry with
its old `live_until_ledger` passes `set_allowance`'s own bound -/
def CanSpend (c : Cfg) (t : Tok) (o sp : Nat) (amt : Int) : Prop :=
  0 ≤ amt ∧ amt ≤ OZ.Fungible.allowance t o sp ∧
  (0 < amt → (OZ.Fungible.allowanceData t o sp).liveUntilLedger ≤ c.maxLiveUntil t.now)

theorem spendAllowance_succeeds_iff (c : Cfg) (s : Tok) (o sp : Nat) (amt : Int) :
    (∃ s', OZ.Fungible.spendAllowance c s o sp amt = .ok s') ↔ CanSpend c s o sp amt := by
  constructor
  · rintro ⟨s', h⟩
    obtain ⟨h0, hle, hc⟩ := OZ.Fungible.spendAllowance_cases h
    refine ⟨h0, hle, fun hp => ?_⟩
    rcases hc with ⟨-, hset⟩ | ⟨hz, -⟩
    · exact (OZ.Fungible.setAllowance_entry hset).2.1
    · omega
  · rintro ⟨h0, hle, hlu⟩
    unfold OZ.Fungible.allowance at hle
    unfold OZ.Fungible.spendAllowance
    rw [if_neg (by omega)]
    dsimp only
    rw [if_neg (by omega)]
    by_cases hp : amt > 0
    · rw [if_pos hp]
      have hne : OZ.Fungible.allowance s o sp ≠ 0 := by unfold OZ.Fungible.allowance; omega
      obtain ⟨e, -, -, hx, hd⟩ := OZ.Fungible.allowance_ne_zero_unexpired hne
      have hnow : s.now ≤ (OZ.Fungible.allowanceData s o sp).liveUntilLedger := by rw [hd]; exact hx
      have := hlu hp
      exact OZ.Fungible.setAllowance_succeeds c s o sp _ _ (by omega) (by omega)
    · rw [if_neg hp]; exact ⟨s, rfl⟩

/-! ### the token updates succeed exactly when the balances suffice (no overflow is possible
under the C01 invariant) -/

theorem update_move_succeeds_iff {U : List Nat} (hn : U.Nodup) {s : Tok} (hi : OZ.Fungible.Inv U s)
    (f t : Nat) (a : Int) :
    (∃ s', OZ.Fungible.update s (some f) (some t) a = .ok s') ↔ 0 ≤ a ∧ a ≤ s.bal f := by
  constructor
  · rintro ⟨s', h⟩
    obtain ⟨m1, m2, -⟩ := update_move_ok h
    exact ⟨m1, m2⟩
  · rintro ⟨h0, hle⟩
    have hin : in128 (upd s.bal f (s.bal f - a) t + a) := by
      by_cases htf : t = f
      · subst htf; rw [OZ.Fungible.upd_same]
        have := OZ.Fungible.bal_le_supply hn hi t; have := hi.nonneg t; have := hi.supHi
        unfold in128 I128_MIN; unfold I128_MAX at *; constructor <;> omega
      · rw [OZ.Fungible.upd_other _ _ _ _ htf]
        have := OZ.Fungible.bal_add_le_supply hn hi f t (Ne.symm htf)
        have := hi.nonneg t; have := hi.supHi
        unfold in128 I128_MIN; unfold I128_MAX at *; constructor <;> omega
    unfold OZ.Fungible.update
    rw [if_neg (by omega)]
    simp only [OZ.Fungible.debit]
    rw [if_neg (by omega)]
    simp only [OZ.Fungible.credit]
    rw [if_pos hin]
    exact ⟨_, rfl⟩

theorem update_mint_succeeds_iff {U : List Nat} (hn : U.Nodup) {s : Tok} (hi : OZ.Fungible.Inv U s)
    (t : Nat) (a : Int) :
    (∃ s', OZ.Fungible.update s none (some t) a = .ok s') ↔ 0 ≤ a ∧ s.supply + a ≤ I128_MAX := by
  constructor
  · rintro ⟨s', h⟩
    obtain ⟨m1, m2, -, -, -, -, m7⟩ := update_mint_ok h
    exact ⟨m1, by rw [← m2]; exact m7⟩
  · rintro ⟨h0, hle⟩
    have hs : in128 (s.supply + a) := by
      have := hi.supLo
      unfold in128 I128_MIN; unfold I128_MAX at *; constructor <;> omega
    have hb : in128 (s.bal t + a) := by
      have := OZ.Fungible.bal_le_supply hn hi t; have := hi.nonneg t
      unfold in128 I128_MIN; unfold I128_MAX at *; constructor <;> omega
    unfold OZ.Fungible.update
    rw [if_neg (by omega)]
    simp only [OZ.Fungible.debit]
    rw [if_pos hs]
    simp only [OZ.Fungible.credit]
    rw [if_pos hb]
    exact ⟨_, rfl⟩

theorem update_burn_succeeds_iff {U : List Nat} (hn : U.Nodup) {s : Tok} (hi : OZ.Fungible.Inv U s)
    (f : Nat) (a : Int) :
    (∃ s', OZ.Fungible.update s (some f) none a = .ok s') ↔ 0 ≤ a ∧ a ≤ s.bal f := by
  constructor
  · rintro ⟨s', h⟩
    obtain ⟨m1, m2, -⟩ := update_burn_ok h
    exact ⟨m1, m2⟩
  · rintro ⟨h0, hle⟩
    have hs : in128 (s.supply - a) := by
      have := OZ.Fungible.bal_le_supply hn hi f; have := hi.supHi
      unfold in128 I128_MIN; unfold I128_MAX at *; constructor <;> omega
    unfold OZ.Fungible.update
    rw [if_neg (by omega)]
    simp only [OZ.Fungible.debit]
    rw [if_neg (by omega)]
    simp only [OZ.Fungible.credit]
    rw [if_pos hs]
    exact ⟨_, rfl⟩

theorem ok_bind' {ε α β} (a : α) (f : α → Except ε β) : (Except.ok a >>= f) = f a := rfl

theorem transfer_succeeds_iff {U : List Nat} (hn : U.Nodup) {s : Tok} (hi : OZ.Fungible.Inv U s)
    (auth : List Nat) (f t : Nat) (a : Int) :
    (∃ s', OZ.Fungible.transfer s auth f t a = .ok s') ↔ f ∈ auth ∧ 0 ≤ a ∧ a ≤ s.bal f := by
  constructor
  · rintro ⟨s', h⟩
    obtain ⟨t1, t2, t3, -⟩ := transfer_ok h
    exact ⟨t1, t2, t3⟩
  · rintro ⟨h1, h2, h3⟩
    obtain ⟨s1, hs1⟩ := (update_move_succeeds_iff hn hi f t a).2 ⟨h2, h3⟩
    unfold OZ.Fungible.transfer OZ.Fungible.requireAuth
    rw [if_pos h1, ok_bind', hs1]
    exact ⟨_, rfl⟩

theorem transferFrom_succeeds_iff {U : List Nat} (hn : U.Nodup) {c : Cfg} {s : Tok}
    (hi : OZ.Fungible.Inv U s) (auth : List Nat) (sp f t : Nat) (a : Int) :
    (∃ s', OZ.Fungible.transferFrom c s auth sp f t a = .ok s') ↔
      sp ∈ auth ∧ CanSpend c s f sp a ∧ a ≤ s.bal f := by
  constructor
  · rintro ⟨s', h⟩
    obtain ⟨u, hu, h⟩ := OZ.Fungible.bind_eq_ok h
    obtain ⟨s0, h0, h⟩ := OZ.Fungible.bind_eq_ok h
    obtain ⟨s1, h1, -⟩ := OZ.Fungible.bind_eq_ok h
    obtain ⟨-, e2, -⟩ := OZ.Fungible.spendAllowance_ok h0
    obtain ⟨-, m2, -⟩ := update_move_ok h1
    exact ⟨OZ.Fungible.requireAuth_ok hu, (spendAllowance_succeeds_iff c s f sp a).1 ⟨s0, h0⟩,
      by rw [← e2]; exact m2⟩
  · rintro ⟨h1, h2, h3⟩
    obtain ⟨s0, hs0⟩ := (spendAllowance_succeeds_iff c s f sp a).2 h2
    obtain ⟨e1, e2, -⟩ := OZ.Fungible.spendAllowance_ok hs0
    obtain ⟨s1, hs1⟩ := (update_move_succeeds_iff hn (hi.congr e1 e2) f t a).2 ⟨h2.1, by rw [e2]; exact h3⟩
    unfold OZ.Fungible.transferFrom OZ.Fungible.requireAuth
    rw [if_pos h1, ok_bind', hs0, ok_bind', hs1]
    exact ⟨_, rfl⟩


/-! ### allowances across the two internal movers, as the getters read them -/

/-- `withdraw_internal`: operator ≠ owner ⇒ the share allowance `owner → operator` reads
exactly `shares` less and every other pair reads the same; operator = owner ⇒ every pair
reads the same. Asset allowances are never touched. -/
theorem withdrawInternal_allowances {c : Cfg} {s s' : State} {r ow o : Nat} {a v : Int}
    (h : withdrawInternal c s r ow a v o = .ok s') :
    (o ≠ ow → OZ.Fungible.allowance s'.sh ow o = OZ.Fungible.allowance s.sh ow o - v) ∧
    (∀ x y, ¬ (x = ow ∧ y = o ∧ o ≠ ow) →
      OZ.Fungible.allowance s'.sh x y = OZ.Fungible.allowance s.sh x y) ∧
    (∀ x y, OZ.Fungible.allowance s'.ast x y = OZ.Fungible.allowance s.ast x y) ∧
    (v = 0 → s'.sh.allow = s.sh.allow) := by
  obtain ⟨sh1, h1, h⟩ := bind_eq_ok h
  obtain ⟨sh2, h2, h⟩ := bind_eq_ok h
  obtain ⟨ast, h3, h4⟩ := bind_eq_ok h
  injection h4 with h4; subst h4
  obtain ⟨-, -, -, b4, b5, -, -⟩ := update_burn_ok (liftS_ok h2)
  obtain ⟨-, -, -, -, t5, t6, -⟩ := transfer_ok (liftA_ok h3)
  have hast : ∀ x y, OZ.Fungible.allowance ast x y = OZ.Fungible.allowance s.ast x y :=
    fun x y => OZ.Fungible.allowance_congr t5 t6 x y
  have h21 : ∀ x y, OZ.Fungible.allowance sh2 x y = OZ.Fungible.allowance sh1 x y :=
    fun x y => OZ.Fungible.allowance_congr b4 b5 x y
  unfold spendShares at h1
  by_cases hoo : o = ow
  · rw [if_pos hoo] at h1
    injection h1 with h1; subst h1
    exact ⟨fun hne => absurd hoo hne, fun x y _ => h21 x y, hast, fun _ => b4⟩
  · rw [if_neg hoo] at h1
    have h1 := liftS_ok h1
    refine ⟨fun _ => ?_, fun x y hxy => ?_, hast, fun hv => ?_⟩
    · show OZ.Fungible.allowance sh2 ow o = _
      rw [h21, spendAllowance_exact h1]
    · show OZ.Fungible.allowance sh2 x y = _
      rw [h21, spendAllowance_others h1 x y (fun e => hxy ⟨e.1, e.2, hoo⟩)]
    · show sh2.allow = _
      rw [b4, (spendAllowance_ge h1).2.2 hv]

/-- `deposit_internal`: operator ≠ payer ⇒ the ASSET allowance `payer → operator` reads
exactly `assets` less; nothing else moves; share allowances are never touched -/
theorem depositInternal_allowances {c : Cfg} {s s' : State} {tauth : List Nat} {r f o : Nat}
    {a v : Int} (h : depositInternal c s tauth r a v f o = .ok s') :
    (o ≠ f → OZ.Fungible.allowance s'.ast f o = OZ.Fungible.allowance s.ast f o - a) ∧
    (∀ x y, ¬ (x = f ∧ y = o ∧ o ≠ f) →
      OZ.Fungible.allowance s'.ast x y = OZ.Fungible.allowance s.ast x y) ∧
    (∀ x y, OZ.Fungible.allowance s'.sh x y = OZ.Fungible.allowance s.sh x y) := by
  obtain ⟨ast, h1, h⟩ := bind_eq_ok h
  obtain ⟨sh, h2, h3⟩ := bind_eq_ok h
  injection h3 with h3; subst h3
  obtain ⟨-, -, m3, m4, -⟩ := update_mint_ok (liftS_ok h2)
  have hsh : ∀ x y, OZ.Fungible.allowance sh x y = OZ.Fungible.allowance s.sh x y :=
    fun x y => OZ.Fungible.allowance_congr m3 m4 x y
  unfold pullAssets at h1
  by_cases hof : o = f
  · rw [if_pos hof] at h1
    obtain ⟨-, -, -, -, t5, t6, -⟩ := transfer_ok (liftA_ok h1)
    exact ⟨fun hne => absurd hof hne, fun x y _ => OZ.Fungible.allowance_congr t5 t6 x y, hsh⟩
  · rw [if_neg hof] at h1
    have h1 := liftA_ok h1
    obtain ⟨u, hu, h1'⟩ := OZ.Fungible.bind_eq_ok h1
    obtain ⟨s0, h0, h1'⟩ := OZ.Fungible.bind_eq_ok h1'
    obtain ⟨s1, hs1, h1'⟩ := OZ.Fungible.bind_eq_ok h1'
    injection h1' with h1'; subst h1'
    obtain ⟨-, -, -, u4, u5, -, -⟩ := update_move_ok hs1
    have h10 : ∀ x y, OZ.Fungible.allowance (OZ.Fungible.emit s1 (.transfer f s.vault a)) x y =
        OZ.Fungible.allowance s0 x y := fun x y => OZ.Fungible.allowance_congr u4 u5 x y
    refine ⟨fun _ => ?_, fun x y hxy => ?_, hsh⟩
    · show OZ.Fungible.allowance (OZ.Fungible.emit s1 _) f o = _
      rw [h10, spendAllowance_exact h0]
    · show OZ.Fungible.allowance (OZ.Fungible.emit s1 _) x y = _
      rw [h10, spendAllowance_others h0 x y (fun e => hxy ⟨e.1, e.2, hof⟩)]

/-! ### the internal movers succeed exactly when ... -/

theorem bind_ok_iff {ε α β} (x : Except ε α) (f : α → Except ε β) :
    (∃ v, (x >>= f) = .ok v) ↔ ∃ a, x = .ok a ∧ ∃ v, f a = .ok v := by
  constructor
  · rintro ⟨v, h⟩
    obtain ⟨a, h1, h2⟩ := OZ.Fungible.bind_eq_ok h
    exact ⟨a, h1, v, h2⟩
  · rintro ⟨a, h1, v, h2⟩
    exact ⟨v, by rw [h1]; exact h2⟩

theorem liftS_ok_iff {α} (x : Except OZ.Fungible.Err α) (v : α) : liftS x = .ok v ↔ x = .ok v :=
  ⟨liftS_ok, fun h => by rw [h]; rfl⟩

theorem liftA_ok_iff {α} (x : Except OZ.Fungible.Err α) (v : α) : liftA x = .ok v ↔ x = .ok v :=
  ⟨liftA_ok, fun h => by rw [h]; rfl⟩

theorem guard_ok_iff (p : Prop) [Decidable p] (e : Err) : guard p e = .ok () ↔ p := by
  unfold guard
  constructor
  · intro h; split at h
    · assumption
    · cases h
  · intro h; rw [if_pos h]

/-- who has to be in the asset token's authorizing set, and what the payer needs -/
def CanPull (c : Cfg) (s : State) (tauth : List Nat) (f o : Nat) (assets : Int) : Prop :=
  0 ≤ assets ∧ assets ≤ s.ast.bal f ∧
  (if o = f then f ∈ tauth else o ∈ tauth ∧ CanSpend c s.ast f o assets)

theorem pullAssets_succeeds_iff {U : List Nat} (hn : U.Nodup) {c : Cfg} {s : State} (hw : WF U s)
    (tauth : List Nat) (f o : Nat) (a : Int) :
    (∃ t, pullAssets c s tauth f o a = .ok t) ↔ CanPull c s tauth f o a := by
  unfold pullAssets CanPull
  by_cases hof : o = f
  · rw [if_pos hof, if_pos hof]
    simp only [liftA_ok_iff]
    rw [transfer_succeeds_iff hn hw.ast]
    constructor
    · rintro ⟨h1, h2, h3⟩; exact ⟨h2, h3, h1⟩
    · rintro ⟨h2, h3, h1⟩; exact ⟨h1, h2, h3⟩
  · rw [if_neg hof, if_neg hof]
    simp only [liftA_ok_iff]
    rw [transferFrom_succeeds_iff hn hw.ast]
    constructor
    · rintro ⟨h1, h2, h3⟩; exact ⟨h2.1, h3, h1, h2⟩
    · rintro ⟨-, h3, h1, h2⟩; exact ⟨h1, h2, h3⟩

theorem depositInternal_succeeds_iff {U : List Nat} (hn : U.Nodup) {c : Cfg} {s : State}
    (hw : WF U s) (tauth : List Nat) (r f o : Nat) (a v : Int) :
    (∃ s', depositInternal c s tauth r a v f o = .ok s') ↔
      CanPull c s tauth f o a ∧ 0 ≤ v ∧ s.sh.supply + v ≤ I128_MAX := by
  unfold depositInternal
  rw [bind_ok_iff]
  constructor
  · rintro ⟨t, h1, s', h2⟩
    obtain ⟨sh, h3, -⟩ := bind_eq_ok h2
    exact ⟨(pullAssets_succeeds_iff hn hw tauth f o a).1 ⟨t, h1⟩,
      (update_mint_succeeds_iff hn hw.sh r v).1 ⟨sh, liftS_ok h3⟩⟩
  · rintro ⟨h1, h2⟩
    obtain ⟨t, ht⟩ := (pullAssets_succeeds_iff hn hw tauth f o a).2 h1
    obtain ⟨sh, hsh⟩ := (update_mint_succeeds_iff hn hw.sh r v).2 h2
    refine ⟨t, ht, { s with ast := t, sh := sh }, ?_⟩
    rw [hsh]; rfl

theorem withdrawInternal_succeeds_iff {U : List Nat} (hn : U.Nodup) {c : Cfg} {s : State}
    (hw : WF U s) (r ow o : Nat) (a v : Int) :
    (∃ s', withdrawInternal c s r ow a v o = .ok s') ↔
      (o ≠ ow → CanSpend c s.sh ow o v) ∧ 0 ≤ v ∧ v ≤ s.sh.bal ow ∧ 0 ≤ a ∧ a ≤ totalAssets s := by
  constructor
  · rintro ⟨s', h⟩
    obtain ⟨hout, -⟩ := withdrawInternal_ok h
    obtain ⟨sh1, h1, -⟩ := bind_eq_ok h
    refine ⟨fun hne => ?_, hout.v0, hout.hasShares, hout.a0, hout.hasAssets⟩
    unfold spendShares at h1
    rw [if_neg hne] at h1
    exact (spendAllowance_succeeds_iff c s.sh ow o v).1 ⟨sh1, liftS_ok h1⟩
  · rintro ⟨h1, h2, h3, h4, h5⟩
    -- step 1: the allowance
    have hs1 : ∃ sh1, spendShares c s ow o v = .ok sh1 ∧ sh1.supply = s.sh.supply ∧ sh1.bal = s.sh.bal := by
      unfold spendShares
      by_cases hoo : o = ow
      · rw [if_pos hoo]; exact ⟨s.sh, rfl, rfl, rfl⟩
      · rw [if_neg hoo]
        obtain ⟨sh1, hsh1⟩ := (spendAllowance_succeeds_iff c s.sh ow o v).2 (h1 hoo)
        obtain ⟨e1, e2, -⟩ := OZ.Fungible.spendAllowance_ok hsh1
        exact ⟨sh1, by rw [hsh1]; rfl, e1, e2⟩
    obtain ⟨sh1, hsh1, e1, e2⟩ := hs1
    obtain ⟨sh2, hsh2⟩ := (update_burn_succeeds_iff hn (hw.sh.congr e1 e2) ow v).2 ⟨h2, by rw [e2]; exact h3⟩
    obtain ⟨ast, hast⟩ := (transfer_succeeds_iff hn hw.ast [s.vault] s.vault r a).2
      ⟨List.mem_singleton.2 rfl, h4, h5⟩
    unfold withdrawInternal
    rw [hsh1, ok_bind, hsh2]
    show ∃ s', (liftA (OZ.Fungible.transfer s.ast [s.vault] s.vault r a) >>= _) = _
    rw [hast]
    exact ⟨_, rfl⟩

/-- an amount within `max_withdraw(owner)` never fails for lack of the owner's shares or of
the vault's assets -/
theorem withdraw_feasible {U : List Nat} (hn : U.Nodup) {s : State} (hw : WF U s) {ow : Nat}
    {a m v : Int} (hm : maxWithdraw s ow = .ok m) (ha : a ≤ m)
    (hp : previewWithdraw s a = .ok v) : v ≤ s.sh.bal ow ∧ a ≤ totalAssets s ∧ 0 ≤ v ∧ 0 ≤ a := by
  obtain ⟨hA, hS, hV, -⟩ := wf_pos hw
  have hb0 := hw.sh.nonneg ow
  have hbs : s.sh.bal ow ≤ totalShares s := OZ.Fungible.bal_le_supply hn hw.sh ow
  have hb : OZ.MulDiv.in128 (s.sh.bal ow) := shares_in128 hn hw hb0 (Int.le_refl _)
  obtain ⟨-, e1, hmin⟩ := convertToAssets_ok hb hw.off hS hm
  -- `a` is a valid i128: below `m`, and non-negative because the preview succeeded
  have ha0 : 0 ≤ a := by
    unfold previewWithdraw convertToShares at hp
    by_contra hneg
    rw [if_pos (by omega)] at hp; cases hp
  have hain : OZ.MulDiv.in128 a := by
    unfold OZ.MulDiv.in128 OZ.MulDiv.I128_MIN OZ.MulDiv.I128_MAX at *; omega
  obtain ⟨-, e2, -⟩ := convertToShares_ok hain hw.off hA hp
  obtain ⟨f1, -⟩ := exactQ_floor_bounds (s.sh.bal ow) (totalAssets s + 1) (totalShares s + 10 ^ s.offset) (by omega)
  obtain ⟨-, c2⟩ := exactQ_ceil_bounds a (totalShares s + 10 ^ s.offset) (totalAssets s + 1) (by omega)
  have hv0 : 0 ≤ v := by
    rw [e2]; exact exactQ_nonneg .ceil a _ _ ha0 (by omega) (by omega) (by decide)
  rw [← e1] at f1; rw [← e2] at c2
  generalize (10 : Int) ^ s.offset = V at *
  generalize s.sh.bal ow = b at *
  refine ⟨?_, ?_, hv0, ha0⟩
  · by_contra hlt
    have : b + 1 ≤ v := by omega
    nlinarith
  · by_contra hlt
    have : totalAssets s + 1 ≤ m := by omega
    nlinarith

/-- redeeming shares the owner holds never fails for lack of the vault's assets -/
theorem redeem_feasible {U : List Nat} (hn : U.Nodup) {s : State} (hw : WF U s) {ow : Nat}
    {x a : Int} (hx : x ≤ s.sh.bal ow) (hp : previewRedeem s x = .ok a) :
    a ≤ totalAssets s ∧ 0 ≤ a ∧ 0 ≤ x := by
  obtain ⟨hA, hS, hV, -⟩ := wf_pos hw
  have hbs : s.sh.bal ow ≤ totalShares s := OZ.Fungible.bal_le_supply hn hw.sh ow
  have hx0 : 0 ≤ x := by
    unfold previewRedeem convertToAssets at hp
    by_contra hneg
    rw [if_pos (by omega)] at hp; cases hp
  have hxin : OZ.MulDiv.in128 x := shares_in128 hn hw hx0 hx
  obtain ⟨-, e1, -⟩ := convertToAssets_ok hxin hw.off hS hp
  obtain ⟨f1, -⟩ := exactQ_floor_bounds x (totalAssets s + 1) (totalShares s + 10 ^ s.offset) (by omega)
  have ha0 : 0 ≤ a := by
    rw [e1]; exact exactQ_nonneg .floor x _ _ hx0 (by omega) (by omega) (by decide)
  rw [← e1] at f1
  generalize (10 : Int) ^ s.offset = V at *
  refine ⟨?_, ha0, hx0⟩
  by_contra hlt
  have : totalAssets s + 1 ≤ a := by omega
  nlinarith


/-! ### a holder's claim under a non-decreasing rate -/

/-- `⌊b·a/t⌋ ≤ ⌊b'·a'/t'⌋` when `b ≤ b'` and `a/t ≤ a'/t'` (cross-multiplied) -/
theorem floor_claim_mono (b b' a a' t t' : Int) (hb : 0 ≤ b) (hbb : b ≤ b') (ha' : 0 < a')
    (ht : 0 < t) (ht' : 0 < t') (hr : a * t' ≤ a' * t) :
    OZ.MulDiv.exactQ .floor b a t ≤ OZ.MulDiv.exactQ .floor b' a' t' := by
  obtain ⟨f1, -⟩ := exactQ_floor_bounds b a t ht
  obtain ⟨-, f2⟩ := exactQ_floor_bounds b' a' t' ht'
  generalize OZ.MulDiv.exactQ .floor b a t = q at *
  generalize OZ.MulDiv.exactQ .floor b' a' t' = q' at *
  by_contra hlt
  have hq : q' + 1 ≤ q := by omega
  -- t·(q'+1) ≤ t·q ≤ b·a
  have k1 : t * (q' + 1) ≤ b * a := by nlinarith
  -- times t' : t'·t·(q'+1) ≤ b·a·t' ≤ b·a'·t ≤ b'·a'·t
  have k2 : t' * (t * (q' + 1)) ≤ t' * (b * a) := Int.mul_le_mul_of_nonneg_left k1 (by omega)
  have k3 : b * (a * t') ≤ b * (a' * t) := Int.mul_le_mul_of_nonneg_left hr hb
  have k4 : b * (a' * t) ≤ b' * (a' * t) :=
    Int.mul_le_mul_of_nonneg_right hbb (Int.mul_nonneg (by omega) (by omega))
  have k5 : (b' * a') * t < (t' * q' + t') * t := Int.mul_lt_mul_of_pos_right f2 ht
  nlinarith

/-! ### a passive user: signs nothing, approved nobody -/

/-- one successful invocation that `u` does not sign, while `u` has no share-allowance
entries: `u`'s share balance does not go down and `u` still has no entries -/
theorem apply_passive {c : Cfg} {s s' : State} {ret : Int} (auth : List Nat)
    (op : Op) (u : Nat) (hu : u ∉ auth) (hnone : ∀ sp, s.sh.allow u sp = none)
    (h : apply c s auth op = .ok (s', ret)) :
    s.sh.bal u ≤ s'.sh.bal u ∧ ∀ sp, s'.sh.allow u sp = none := by
  cases op with
  | deposit sub a r f o =>
    obtain ⟨-, -, -, hin, -⟩ := deposit_ok h
    refine ⟨?_, fun sp => by rw [hin.shAllow]; exact hnone sp⟩
    rw [hin.shBal]; have := hin.v0
    by_cases hx : u = r
    · subst hx; rw [OZ.Fungible.upd_same]; omega
    · rw [OZ.Fungible.upd_other _ _ _ _ hx]
  | mint sub x r f o =>
    obtain ⟨-, -, -, hin, -⟩ := mint_ok h
    refine ⟨?_, fun sp => by rw [hin.shAllow]; exact hnone sp⟩
    rw [hin.shBal]; have := hin.v0
    by_cases hx : u = r
    · subst hx; rw [OZ.Fungible.upd_same]; omega
    · rw [OZ.Fungible.upd_other _ _ _ _ hx]
  | withdraw a r ow o =>
    obtain ⟨ho, -, -, hout, -⟩ := withdraw_ok h
    obtain ⟨_, h1, h⟩ := bind_eq_ok h
    obtain ⟨m, hm, h⟩ := bind_eq_ok h
    obtain ⟨_, h2, h⟩ := bind_eq_ok h
    obtain ⟨v', h3, h⟩ := bind_eq_ok h
    obtain ⟨s1, h4, h5⟩ := bind_eq_ok h
    injection h5 with h5; injection h5 with h5 h6; subst h5; subst h6
    obtain ⟨-, -, -, hz⟩ := withdrawInternal_allowances h4
    by_cases hx : u = ow
    · have hne : o ≠ ow := fun e => hu (hx ▸ e ▸ ho)
      have hv : v' = 0 := by
        have h1 := (hout.spent hne).1
        rw [← hx, allowance_none (hnone o)] at h1
        have := hout.v0; omega
      refine ⟨?_, fun sp => ?_⟩
      · rw [hout.shBal, hx, OZ.Fungible.upd_same, hv]; omega
      · show s1.sh.allow u sp = none; rw [hz hv]; exact hnone sp
    · refine ⟨?_, fun sp => ?_⟩
      · rw [hout.shBal, OZ.Fungible.upd_other _ _ _ _ hx]
      · by_cases hoo : o = ow
        · rw [hout.own hoo]; exact hnone sp
        · rw [(hout.spent hoo).2 u sp (fun e => hx e.1)]; exact hnone sp
  | redeem x r ow o =>
    obtain ⟨ho, -, -, hout, -⟩ := redeem_ok h
    obtain ⟨_, h1, h⟩ := bind_eq_ok h
    obtain ⟨_, h2, h⟩ := bind_eq_ok h
    obtain ⟨a', h3, h⟩ := bind_eq_ok h
    obtain ⟨s1, h4, h5⟩ := bind_eq_ok h
    injection h5 with h5; injection h5 with h5 h6; subst h5; subst h6
    obtain ⟨-, -, -, hz⟩ := withdrawInternal_allowances h4
    by_cases hx : u = ow
    · have hne : o ≠ ow := fun e => hu (hx ▸ e ▸ ho)
      have hv : x = 0 := by
        have h1 := (hout.spent hne).1
        rw [← hx, allowance_none (hnone o)] at h1
        have := hout.v0; omega
      refine ⟨?_, fun sp => ?_⟩
      · rw [hout.shBal, hx, OZ.Fungible.upd_same, hv]; omega
      · show s1.sh.allow u sp = none; rw [hz hv]; exact hnone sp
    · refine ⟨?_, fun sp => ?_⟩
      · rw [hout.shBal, OZ.Fungible.upd_other _ _ _ _ hx]
      · by_cases hoo : o = ow
        · rw [hout.own hoo]; exact hnone sp
        · rw [(hout.spent hoo).2 u sp (fun e => hx e.1)]; exact hnone sp
  | share op =>
    simp only [apply, withRet] at h
    split at h
    · rename_i s1 h1
      injection h with h; injection h with h _; subst h
      obtain ⟨-, sh, hsh, rfl⟩ := shareOp_ok h1
      obtain ⟨e1, -, -, -⟩ := emitOpt_fields { s with sh := sh } (shareEvent op)
      rw [e1]
      exact ⟨apply_bal_frame hsh u hu hnone, apply_allow_frame hsh u hu hnone⟩
    · cases h
  | asset op =>
    simp only [apply, withRet] at h
    split at h
    · rename_i s1 h1
      injection h with h; injection h with h _; subst h
      obtain ⟨a, -, rfl⟩ := assetOp_ok h1
      exact ⟨Int.le_refl _, hnone⟩
    · cases h
  | advance n =>
    simp only [apply] at h
    injection h with h; injection h with h _; subst h
    exact ⟨Int.le_refl _, hnone⟩

/-- test helpers: a result is `ok` and satisfies `p` / is the error `e` -/
def okAnd (r : Except Err (State × Int)) (p : State → Int → Bool) : Bool :=
  match r with
  | .ok (s, a) => p s a
  | .error _ => false

def errIs (r : Except Err (State × Int)) (e : Err) : Bool :=
  match r with
  | .ok _ => false
  | .error e' => e' == e


end OZ.Vault
