import OZ.Lemmas.AccessStk
import OZ.Model.AccessStkMon
/-
Helper lemmas for the monitor-soundness theorem of C06, machine `stk` (OZ/Props/C06StkMon.lean): plumbing of
the monitor's if-chains, inversion of the driver's dispatch, the monitor's Boolean guard tests.
-/
namespace OZ.Access.Stk.Mon
open OZ.Access OZ.Access.Stk

/-! ### plumbing -/

theorem orElse_none {a : Option String} {b : Unit → Option String} (h : a = none) : orElse a b = b () := by
  subst h; rfl

theorem verdict_none {m : Mon} {auth : List Nat} {op : Op} {o : Obs} (h0 : vRollback m o = none)
    (h1 : vCall m auth op o = none) (h2 : vEffect m op o = none) : verdict m auth op o = none := by
  unfold verdict
  rw [orElse_none h0, orElse_none h1, h2]

theorem vRollback_none {m : Mon} {o : Obs} (h : o.ok = false → m.prev = none ∨ m.prev = some o.st) :
    vRollback m o = none := by
  unfold vRollback
  rw [if_neg]
  rintro ⟨h1, h2, h3⟩
  rcases h (by simpa using h1) with hp | hp
  · rw [hp] at h2; cases h2
  · exact h3 hp

theorem vFn_none {m : Mon} {auth : List Nat} {f : Fn} {a b : Nat} {o : Obs}
    (h1 : ¬ (o.ok ∧ ¬ f.guards.all (roleOk m a b)))
    (h2 : ¬ (o.ok ∧ ¬ f.guards.all (authOk auth a b)))
    (h3 : ¬ (¬ o.ok ∧ guardsHold m auth f a b)) : vFn m auth f a b o = none := by
  unfold vFn
  rw [if_neg h1, if_neg h2, if_neg h3]

theorem vAdmin_none {m : Mon} {auth : List Nat} {op : Op} {o : Obs}
    (h1 : ¬ (o.ok ∧ ¬ auth.contains m.admin))
    (h2 : ¬ (¬ o.ok ∧ adminOpDue m auth op)) : vAdmin m auth op o = none := by
  unfold vAdmin
  rw [if_neg h1, if_neg h2]

theorem vEffect_none {m : Mon} {op : Op} {o : Obs}
    (h1 : o.st.counter = counterStep m op o.ok) (h2 : o.st.roles = tableOf (holdsStep m op o.ok))
    (h3 : o.ok = true → isCall op = true → o.ret = some o.st.counter) : vEffect m op o = none := by
  unfold vEffect
  rw [if_neg (fun h => h h1), if_neg (fun h => h h2), if_neg (fun h => h.2.2 (h3 h.1 h.2.1))]

/-! ### the driver's dispatch -/

theorem stepM_some {s s' : St} {auth : List Nat} {op : Op} (h : s.apply auth op = .ok s') :
    stepM s auth op = (s', true) := by
  unfold stepM; rw [h]; rfl

theorem stepM_none {s : St} {auth : List Nat} {op : Op} {e : Err} (h : s.apply auth op = .error e) :
    stepM s auth op = (s, false) := by
  unfold stepM; rw [h]; rfl

/-! ### the monitor's Boolean guard tests -/

/-- the two tests of one guard, on a table equal to the model's, are the guard's condition -/
theorem guardOk_iff {m : Mon} {x : St} (hh : m.holds = x.holds) (auth : List Nat) (a b : Nat) (g : Guard) :
    (roleOk m a b g = true ∧ authOk auth a b g = true) ↔ g.Holds x auth a b := by
  unfold roleOk authOk Guard.Holds
  rw [hh, List.any_eq_true]
  cases g.needsAuth <;> simp

theorem all_and {α} (p q : α → Bool) (l : List α) :
    (l.all p = true ∧ l.all q = true) ↔ ∀ g ∈ l, p g = true ∧ q g = true := by
  simp only [List.all_eq_true]
  exact ⟨fun h g hg => ⟨h.1 g hg, h.2 g hg⟩, fun h => ⟨fun g hg => (h g hg).1, fun g hg => (h g hg).2⟩⟩

/-- both tests over all guards of a list: every guard's condition -/
theorem guardsOk_iff {m : Mon} {x : St} (hh : m.holds = x.holds) (auth : List Nat) (a b : Nat)
    (gs : List Guard) :
    (gs.all (roleOk m a b) = true ∧ gs.all (authOk auth a b) = true) ↔ ∀ g ∈ gs, g.Holds x auth a b := by
  rw [all_and]
  exact ⟨fun h g hg => (guardOk_iff hh auth a b g).1 (h g hg), fun h g hg => (guardOk_iff hh auth a b g).2 (h g hg)⟩

end OZ.Access.Stk.Mon
