import OZ.Lemmas.NftAuth
import OZ.Lemmas.NftBits
/-
"No spurious failure": on states satisfying the invariants the bookkeeping steps (swap-and-pop
upkeep, the owner scan, previous-token marking, bucket updates) never hit their error branches,
so an operation succeeds EXACTLY when the conditions the property talks about hold:
authorization, ownership, approval, and the explicit u32 `checked_add` side conditions.
-/
namespace OZ.Nft
open OZ.Host

theorem ok_bind {ε α β} (a : α) (f : α → Except ε β) : ((Except.ok a : Except ε α) >>= f) = f a := rfl

theorem requireAuth_eq {auth : List Nat} {a : Nat} (h : a ∈ auth) : requireAuth auth a = .ok () := by
  unfold requireAuth; rw [if_pos h]

theorem requireAuth_error {auth : List Nat} {a : Nat} (h : a ∉ auth) : requireAuth auth a = .error .auth := by
  unfold requireAuth; rw [if_neg h]

/-- the approval clause of the property -/
def SpenderOK (c : Core) (sp f id : Nat) : Prop :=
  sp = f ∨ getApproved c id = some sp ∨ isApprovedForAll c f sp = true

theorem checkSpender_eq {c : Core} {sp f id : Nat} (h : SpenderOK c sp f id) :
    checkSpenderApproval c sp f id = .ok () := by
  unfold checkSpenderApproval
  rw [if_neg]
  rintro ⟨h1, h2, h3⟩
  rcases h with e | e | e
  · exact h1 e
  · exact h2 e
  · rw [e] at h3; cases h3

/-- the conditions the code checks before a token moves, over an ownership view `own` (the owner
map of the base / enumerable flavour, the plain map of the consecutive one). The last conjunct
of the transfers is the `checked_add` on the recipient's balance, evaluated — as in the code —
after the sender's balance went down by one. -/
def MoveOK (c : Core) (own : Nat → Option Nat) (auth : List Nat) : Op → Prop
  | .transfer f t id => f ∈ auth ∧ own id = some f ∧ upd c.bal f (c.bal f - 1) t + 1 ≤ U32_MAX
  | .transferFrom sp f t id =>
    sp ∈ auth ∧ SpenderOK c sp f id ∧ own id = some f ∧ upd c.bal f (c.bal f - 1) t + 1 ≤ U32_MAX
  | .burn f id => f ∈ auth ∧ own id = some f
  | .burnFrom sp f id => sp ∈ auth ∧ SpenderOK c sp f id ∧ own id = some f
  | _ => False

/-! ### base flavour -/

theorem debit_eq {s : State} {f id : Nat} (ho : s.owner id = some f) (hb : 1 ≤ s.bal f) :
    debit s (some f) id
      = .ok { s with bal := upd s.bal f (s.bal f - 1), approval := upd s.approval id none } := by
  have h1 : ownerOf s id = .ok f := by unfold ownerOf; rw [ho]
  have h2 : checkOwner f f = .ok () := by unfold checkOwner; rw [if_neg (by simp)]
  have h3 : decreaseBalance s.toCore f 1 = .ok { s.toCore with bal := upd s.bal f (s.bal f - 1) } := by
    unfold decreaseBalance; rw [if_neg (by omega)]
  unfold debit
  simp only
  rw [h1, ok_bind, h2, ok_bind, h3, ok_bind]
  rfl

theorem credit_some_eq {s : State} {t id : Nat} (hb : s.bal t + 1 ≤ U32_MAX) :
    credit s (some t) id
      = .ok { s with bal := upd s.bal t (s.bal t + 1), owner := upd s.owner id (some t) } := by
  have h1 : increaseBalance s.toCore t 1 = .ok { s.toCore with bal := upd s.bal t (s.bal t + 1) } := by
    unfold increaseBalance; rw [if_neg (by omega)]
  unfold credit
  simp only
  rw [h1, ok_bind]
  rfl

/-- `update` for a transfer succeeds exactly when `from` owns the token, holds a balance and the
recipient's balance does not overflow -/
theorem update_transfer_iff {s : State} {f t id : Nat} :
    (∃ s', update s (some f) (some t) id = .ok s') ↔
      (s.owner id = some f ∧ 1 ≤ s.bal f ∧ upd s.bal f (s.bal f - 1) t + 1 ≤ U32_MAX) := by
  constructor
  · rintro ⟨s', h⟩
    obtain ⟨s1, hd, hc⟩ := update_ok h
    obtain ⟨hown, hge, hs1⟩ := debit_some_ok hd
    subst hs1
    obtain ⟨hle, _⟩ := credit_some_ok hc
    exact ⟨hown, hge, hle⟩
  · rintro ⟨ho, hb, hv⟩
    unfold update
    rw [debit_eq ho hb, ok_bind, credit_some_eq (by exact hv)]
    exact ⟨_, rfl⟩

theorem update_burn_iff {s : State} {f id : Nat} :
    (∃ s', update s (some f) none id = .ok s') ↔ (s.owner id = some f ∧ 1 ≤ s.bal f) := by
  constructor
  · rintro ⟨s', h⟩
    obtain ⟨hown, hge, _⟩ := update_burn_ok h
    exact ⟨hown, hge⟩
  · rintro ⟨ho, hb⟩
    unfold update
    rw [debit_eq ho hb, ok_bind]
    exact ⟨_, rfl⟩

theorem bind_ok_iff {ε α β} {x : Except ε α} {f : α → Except ε β} :
    (∃ v, (x >>= f) = .ok v) ↔ ∃ a, x = .ok a ∧ ∃ v, f a = .ok v := by
  constructor
  · rintro ⟨v, h⟩
    obtain ⟨a, ha, hf⟩ := bind_eq_ok h
    exact ⟨a, ha, v, hf⟩
  · rintro ⟨a, ha, v, hf⟩
    rw [ha, ok_bind]; exact ⟨v, hf⟩

theorem requireAuth_iff {auth : List Nat} {a : Nat} : (∃ u, requireAuth auth a = .ok u) ↔ a ∈ auth := by
  constructor
  · rintro ⟨u, h⟩; exact requireAuth_ok h
  · intro h; exact ⟨(), requireAuth_eq h⟩

theorem checkSpender_iff {c : Core} {sp f id : Nat} :
    (∃ u, checkSpenderApproval c sp f id = .ok u) ↔ SpenderOK c sp f id := by
  constructor
  · rintro ⟨u, h⟩; exact checkSpender_ok h
  · intro h; exact ⟨(), checkSpender_eq h⟩

/-- success of the four moving entry points of `Base` in terms of `update` -/
theorem transfer_iff {s : State} {auth : List Nat} {f t id : Nat} :
    (∃ s', transfer s auth f t id = .ok s') ↔ f ∈ auth ∧ ∃ s', update s (some f) (some t) id = .ok s' := by
  unfold transfer
  rw [bind_ok_iff]
  constructor
  · rintro ⟨_, ha, h⟩; exact ⟨requireAuth_ok ha, h⟩
  · rintro ⟨ha, h⟩; exact ⟨(), requireAuth_eq ha, h⟩

theorem burn_iff {s : State} {auth : List Nat} {f id : Nat} :
    (∃ s', burn s auth f id = .ok s') ↔ f ∈ auth ∧ ∃ s', update s (some f) none id = .ok s' := by
  unfold burn
  rw [bind_ok_iff]
  constructor
  · rintro ⟨_, ha, h⟩; exact ⟨requireAuth_ok ha, h⟩
  · rintro ⟨ha, h⟩; exact ⟨(), requireAuth_eq ha, h⟩

theorem transferFrom_iff {s : State} {auth : List Nat} {sp f t id : Nat} :
    (∃ s', transferFrom s auth sp f t id = .ok s') ↔
      sp ∈ auth ∧ SpenderOK s.toCore sp f id ∧ ∃ s', update s (some f) (some t) id = .ok s' := by
  unfold transferFrom
  rw [bind_ok_iff]
  constructor
  · rintro ⟨_, ha, h⟩
    obtain ⟨_, hc, h⟩ := bind_ok_iff.mp h
    exact ⟨requireAuth_ok ha, checkSpender_ok hc, h⟩
  · rintro ⟨ha, hc, h⟩
    exact ⟨(), requireAuth_eq ha, bind_ok_iff.mpr ⟨(), checkSpender_eq hc, h⟩⟩

theorem burnFrom_iff {s : State} {auth : List Nat} {sp f id : Nat} :
    (∃ s', burnFrom s auth sp f id = .ok s') ↔
      sp ∈ auth ∧ SpenderOK s.toCore sp f id ∧ ∃ s', update s (some f) none id = .ok s' := by
  unfold burnFrom
  rw [bind_ok_iff]
  constructor
  · rintro ⟨_, ha, h⟩
    obtain ⟨_, hc, h⟩ := bind_ok_iff.mp h
    exact ⟨requireAuth_ok ha, checkSpender_ok hc, h⟩
  · rintro ⟨ha, hc, h⟩
    exact ⟨(), requireAuth_eq ha, bind_ok_iff.mpr ⟨(), checkSpender_eq hc, h⟩⟩

theorem pure_pair_iff {α β : Type} {x : Except Err α} {b : β} :
    (∃ p : α × β, (x >>= fun a => pure (a, b)) = .ok p) ↔ ∃ a, x = .ok a := by
  constructor
  · rintro ⟨p, h⟩
    obtain ⟨a, ha, _⟩ := bind_eq_ok h
    exact ⟨a, ha⟩
  · rintro ⟨a, ha⟩
    rw [ha]; exact ⟨(a, b), rfl⟩

/-- a moving call on `Base` succeeds iff the property's conditions hold, given only that an owner
always has a positive balance (true on every reachable state, `Inv`) -/
theorem apply_move_iff (cfg : Cfg) {s : State} {auth : List Nat} {op : Op}
    (hpos : ∀ f id, s.owner id = some f → 1 ≤ s.bal f) (hm : op.moves.isSome = true) :
    (∃ p, apply cfg s auth op = .ok p) ↔ MoveOK s.toCore s.owner auth op := by
  cases op with
  | transfer f t id =>
    show (∃ p, (transfer s auth f t id >>= fun a => pure (a, none)) = .ok p) ↔ _
    rw [pure_pair_iff, transfer_iff, update_transfer_iff]
    constructor
    · rintro ⟨a, b, _, d⟩; exact ⟨a, b, d⟩
    · rintro ⟨a, b, d⟩; exact ⟨a, b, hpos f id b, d⟩
  | transferFrom sp f t id =>
    show (∃ p, (transferFrom s auth sp f t id >>= fun a => pure (a, none)) = .ok p) ↔ _
    rw [pure_pair_iff, transferFrom_iff, update_transfer_iff]
    constructor
    · rintro ⟨a, a', b, _, d⟩; exact ⟨a, a', b, d⟩
    · rintro ⟨a, a', b, d⟩; exact ⟨a, a', b, hpos f id b, d⟩
  | burn f id =>
    show (∃ p, (burn s auth f id >>= fun a => pure (a, none)) = .ok p) ↔ _
    rw [pure_pair_iff, burn_iff, update_burn_iff]
    constructor
    · rintro ⟨a, b, _⟩; exact ⟨a, b⟩
    · rintro ⟨a, b⟩; exact ⟨a, b, hpos f id b⟩
  | burnFrom sp f id =>
    show (∃ p, (burnFrom s auth sp f id >>= fun a => pure (a, none)) = .ok p) ↔ _
    rw [pure_pair_iff, burnFrom_iff, update_burn_iff]
    constructor
    · rintro ⟨a, a', b, _⟩; exact ⟨a, a', b⟩
    · rintro ⟨a, a', b⟩; exact ⟨a, a', b, hpos f id b⟩
  | mintSeq to => cases hm
  | mint to id => cases hm
  | batchMint to n => cases hm
  | approve ap a id lu => cases hm
  | approveForAll o p lu => cases hm
  | advance n => cases hm

theorem Inv.owner_pos {L : List Nat} {s : State} (hi : Inv L s) (f id : Nat) (h : s.owner id = some f) :
    1 ≤ s.bal f := by
  rw [hi.bal f]
  have hin : id ∈ L := (hi.mem id).mpr (by rw [h]; rfl)
  have : id ∈ ownedBy L s.owner f := mem_ownedBy.mpr ⟨hin, h⟩
  have := List.length_pos_of_mem this
  rw [ownedBy_length] at this; omega

/-- `sequential_mint` fails only on u32 exhaustion of the counter or of the recipient's balance -/
theorem sequentialMint_iff {s : State} {to : Nat} :
    (∃ p, sequentialMint s to = .ok p) ↔ (s.nextId + 1 ≤ U32_MAX ∧ s.bal to + 1 ≤ U32_MAX) := by
  constructor
  · rintro ⟨⟨s', id⟩, h⟩
    obtain ⟨_, hle, hu⟩ := sequentialMint_ok h
    obtain ⟨s1, hd, hc⟩ := update_ok hu
    have e1 := debit_none_ok hd
    rw [e1] at hc
    exact ⟨hle, (credit_some_ok hc).1⟩
  · rintro ⟨h1, h2⟩
    unfold sequentialMint
    have hi : incrementTokenId s.toCore 1 = .ok ({ s.toCore with nextId := s.nextId + 1 }, s.nextId) := by
      unfold incrementTokenId; rw [if_neg (by show ¬ s.nextId + 1 > U32_MAX; omega)]
    rw [hi, ok_bind]
    simp only
    unfold update debit
    simp only
    rw [ok_bind, credit_some_eq (by exact h2), ok_bind]
    exact ⟨_, rfl⟩

/-! ### approvals -/

/-- the `live_until_ledger` window `approve` / `approve_for_all` accept: 0 (revoke), or between the
current ledger and the host's `max_live_until_ledger` -/
def LiveUntilOK (cfg : Cfg) (now lu : Nat) : Prop := lu = 0 ∨ (now ≤ lu ∧ lu ≤ cfg.maxLiveUntil now)

theorem extend_set_some_iff {α : Type} {cfg : Cfg} {t : Option (Temp α)} {now lu : Nat} {v : α}
    (hlu : now ≤ lu) :
    (∃ e, Temp.extend cfg (Temp.set cfg t now v) now (lu - now) (lu - now) = some e) ↔
      lu ≤ cfg.maxLiveUntil now := by
  unfold Temp.extend
  rw [if_neg (by omega)]
  simp only
  rw [show now + (lu - now) = lu by omega]
  by_cases h : lu > cfg.maxLiveUntil now
  · rw [if_pos h]
    constructor
    · rintro ⟨e, he⟩; cases he
    · intro h'; omega
  · rw [if_neg h]
    constructor
    · intro _; omega
    · intro _; split <;> exact ⟨_, rfl⟩

theorem approveForOwner_iff {cfg : Cfg} {c : Core} {o ap a id lu : Nat} :
    (∃ c', approveForOwner cfg c o ap a id lu = .ok c') ↔
      ((ap = o ∨ isApprovedForAll c o ap = true) ∧ LiveUntilOK cfg c.now lu) := by
  unfold approveForOwner LiveUntilOK
  by_cases hap : ap = o ∨ isApprovedForAll c o ap = true
  · have hn : ¬ (ap ≠ o ∧ isApprovedForAll c o ap = false) := by
      rintro ⟨h1, h2⟩
      rcases hap with e | e
      · exact h1 e
      · rw [e] at h2; cases h2
    rw [if_neg hn]
    by_cases h0 : lu = 0
    · rw [if_pos h0]
      exact ⟨fun _ => ⟨hap, Or.inl h0⟩, fun _ => ⟨_, rfl⟩⟩
    · rw [if_neg h0]
      by_cases hlt : lu < c.now
      · rw [if_pos hlt]
        constructor
        · rintro ⟨_, h⟩; cases h
        · rintro ⟨_, h | h⟩
          · exact absurd h h0
          · omega
      · rw [if_neg hlt]
        have hle : c.now ≤ lu := by omega
        unfold storeApproval
        have key := extend_set_some_iff (cfg := cfg) (t := c.approval id) (v := (⟨a, lu⟩ : ApprovalData)) hle
        constructor
        · rintro ⟨c', h⟩
          refine ⟨hap, Or.inr ⟨hle, ?_⟩⟩
          apply key.mp
          split at h
          · cases h
          · rename_i e he; exact ⟨e, he⟩
        · rintro ⟨_, h | ⟨_, h⟩⟩
          · exact absurd h h0
          · obtain ⟨e, he⟩ := key.mpr h
            have he' : Temp.extend cfg (Temp.set cfg (c.approval id) c.now (⟨a, lu⟩ : ApprovalData)) c.now
                ((⟨a, lu⟩ : ApprovalData).liveUntilLedger - c.now)
                ((⟨a, lu⟩ : ApprovalData).liveUntilLedger - c.now) = some e := he
            rw [he']; exact ⟨_, rfl⟩
  · have hn : ap ≠ o ∧ isApprovedForAll c o ap = false := by
      refine ⟨fun e => hap (Or.inl e), ?_⟩
      cases hb : isApprovedForAll c o ap
      · rfl
      · exact absurd (Or.inr hb) hap
    rw [if_pos hn]
    constructor
    · rintro ⟨_, h⟩; cases h
    · rintro ⟨h, _⟩; exact absurd h hap

theorem approveForAll_iff {cfg : Cfg} {c : Core} {auth : List Nat} {o p lu : Nat} :
    (∃ c', approveForAll cfg c auth o p lu = .ok c') ↔ (o ∈ auth ∧ LiveUntilOK cfg c.now lu) := by
  unfold approveForAll LiveUntilOK
  rw [bind_ok_iff]
  constructor
  · rintro ⟨_, ha, c', h⟩
    refine ⟨requireAuth_ok ha, ?_⟩
    by_cases h0 : lu = 0
    · exact Or.inl h0
    · rw [if_neg h0] at h
      by_cases hlt : lu < c.now
      · rw [if_pos hlt] at h; cases h
      · rw [if_neg hlt] at h
        have hle : c.now ≤ lu := by omega
        refine Or.inr ⟨hle, ?_⟩
        apply (extend_set_some_iff (cfg := cfg) (t := c.operator o p) (v := lu) hle).mp
        unfold storeOperator at h
        split at h
        · cases h
        · rename_i e he; exact ⟨e, he⟩
  · rintro ⟨ha, hl⟩
    refine ⟨(), requireAuth_eq ha, ?_⟩
    by_cases h0 : lu = 0
    · rw [if_pos h0]; exact ⟨_, rfl⟩
    · rw [if_neg h0]
      rcases hl with h | ⟨hle, hmax⟩
      · exact absurd h h0
      · rw [if_neg (by omega)]
        obtain ⟨e, he⟩ := (extend_set_some_iff (cfg := cfg) (t := c.operator o p) (v := lu) hle).mpr hmax
        unfold storeOperator
        rw [he]; exact ⟨_, rfl⟩

/-- `Base::approve` succeeds iff the approver authorizes, the token exists, the approver is its
owner or a live operator of the owner, and `live_until_ledger` is acceptable -/
theorem approve_iff (cfg : Cfg) {s : State} {auth : List Nat} {ap a id lu : Nat} :
    (∃ s', approve cfg s auth ap a id lu = .ok s') ↔
      (ap ∈ auth ∧ ∃ o, s.owner id = some o ∧ (ap = o ∨ isApprovedForAll s.toCore o ap = true) ∧
        LiveUntilOK cfg s.now lu) := by
  unfold approve
  rw [bind_ok_iff]
  constructor
  · rintro ⟨_, ha, h⟩
    obtain ⟨o, ho, h⟩ := bind_ok_iff.mp h
    obtain ⟨c, hc, _⟩ := bind_ok_iff.mp h
    obtain ⟨h1, h2⟩ := approveForOwner_iff.mp ⟨c, hc⟩
    exact ⟨requireAuth_ok ha, o, ownerOf_ok ho, h1, h2⟩
  · rintro ⟨ha, o, ho, h1, h2⟩
    refine ⟨(), requireAuth_eq ha, bind_ok_iff.mpr ⟨o, by unfold ownerOf; rw [ho], ?_⟩⟩
    obtain ⟨c, hc⟩ := approveForOwner_iff.mpr ⟨h1, h2⟩
    exact bind_ok_iff.mpr ⟨c, hc, _, rfl⟩

end OZ.Nft

/-! ### enumerable flavour: the list upkeep never fails on well-formed lists -/
namespace OZ.NftEnum
open OZ.Host OZ.Nft

theorem removeFromOwner_succeeds {s : State} {f id : Nat} {own0 : Nat → Option Nat} {bal0 : Nat → Nat}
    (ho : ∀ a, LOK (s.oTok a) s.oIdx (bal0 a) (fun t => own0 t = some a))
    (hown : own0 id = some f) (hbal : s.bal f = bal0 f - 1) :
    ∃ s', removeFromOwnerEnumeration s f id = .ok s' := by
  obtain ⟨k, hk, hidx, _⟩ := (ho f).2.1 id hown
  obtain ⟨l, hl, _, _⟩ := (ho f).1 (bal0 f - 1) (by omega)
  unfold removeFromOwnerEnumeration
  rw [hidx]
  simp only
  by_cases e : k ≠ s.bal f
  · rw [if_pos e, hbal, hl]; exact ⟨_, rfl⟩
  · rw [if_neg e]; exact ⟨_, rfl⟩

theorem addToOwner_succeeds {s : State} {o id : Nat} (h : 1 ≤ s.bal o) :
    ∃ s', addToOwnerEnumeration s o id = .ok s' := by
  unfold addToOwnerEnumeration
  rw [if_neg (by omega)]; exact ⟨_, rfl⟩

theorem moveInOwner_succeeds {s : State} {f to id : Nat} {own0 : Nat → Option Nat} {bal0 : Nat → Nat}
    (ho : ∀ a, LOK (s.oTok a) s.oIdx (bal0 a) (fun t => own0 t = some a))
    (hown0 : own0 id = some f)
    (hbal : s.bal = upd (upd bal0 f (bal0 f - 1)) to (upd bal0 f (bal0 f - 1) to + 1)) :
    ∃ s', moveInOwnerEnumerations s f to id = .ok s' := by
  unfold moveInOwnerEnumerations
  by_cases hft : f ≠ to
  · rw [if_pos hft]
    have hbf : s.bal f = bal0 f - 1 := by rw [hbal, upd_other _ _ _ _ hft, upd_same]
    obtain ⟨s1, h1⟩ := removeFromOwner_succeeds ho hown0 hbf
    rw [h1, ok_bind]
    have hst := (removeFromOwner_toState h1).1
    have hb1 : s1.bal = s.bal := by rw [show s1.bal = s1.toState.bal from rfl, hst]
    exact addToOwner_succeeds (by rw [hb1, hbal, upd_same]; omega)
  · rw [if_neg hft]; exact ⟨_, rfl⟩

theorem removeFromEnumerations_succeeds {s : State} {f id : Nat} {own0 : Nat → Option Nat} {bal0 : Nat → Nat}
    (hg : LOK s.gTok s.gIdx s.total (fun t => (own0 t).isSome = true))
    (ho : ∀ a, LOK (s.oTok a) s.oIdx (bal0 a) (fun t => own0 t = some a))
    (hown0 : own0 id = some f) (hbal : s.bal = upd bal0 f (bal0 f - 1)) :
    ∃ s', removeFromEnumerations s f id = .ok s' := by
  have hbf : s.bal f = bal0 f - 1 := by rw [hbal, upd_same]
  obtain ⟨s1, h1⟩ := removeFromOwner_succeeds ho hown0 hbf
  obtain ⟨_, htot, hgt, hgi⟩ := removeFromOwner_toState h1
  obtain ⟨k, hk, hidx, _⟩ := hg.2.1 id (by show (own0 id).isSome = true; rw [hown0]; rfl)
  obtain ⟨l, hl, _, _⟩ := hg.1 (s.total - 1) (by omega)
  unfold removeFromEnumerations
  rw [h1, ok_bind]
  have h2 : decrementTotalSupply s1 = .ok ({ s1 with total := s1.total - 1 }, s1.total - 1) := by
    unfold decrementTotalSupply; rw [if_neg (by rw [htot]; omega)]
  rw [h2, ok_bind]
  show ∃ s', removeFromGlobalEnumeration { s1 with total := s1.total - 1 } id (s1.total - 1) = .ok s'
  unfold removeFromGlobalEnumeration
  have e1 : ({ s1 with total := s1.total - 1 } : State).gIdx id = some k := by
    show s1.gIdx id = some k; rw [hgi]; exact hidx
  have e2 : ({ s1 with total := s1.total - 1 } : State).gTok (s1.total - 1) = some l := by
    show s1.gTok (s1.total - 1) = some l; rw [hgt, htot]; exact hl
  rw [e1]
  simp only
  rw [e2]
  exact ⟨_, rfl⟩

/-- on a state with well-formed lists a moving call succeeds iff the same call on `Base` does -/
theorem apply_move_iff_base (cfg : Cfg) {s : State} {auth : List Nat} {op : Op} (hi : EInv s)
    (hm : op.moves.isSome = true) :
    (∃ p, apply cfg s auth op = .ok p) ↔ (∃ p, Nft.apply cfg s.toState auth op = .ok p) := by
  constructor
  · rintro ⟨⟨s', r⟩, h⟩; exact ⟨_, apply_base cfg h⟩
  · rintro ⟨⟨b, r⟩, h⟩
    cases op with
    | transfer f t id =>
      obtain ⟨b', h1, _⟩ := bind_eq_ok h
      have h1' := h1
      obtain ⟨_, _, hu⟩ := bind_eq_ok h1'
      obtain ⟨hown0, _, _, hbal, _⟩ := update_transfer_ok hu
      obtain ⟨s2, h2⟩ := moveInOwner_succeeds (s := { s with toState := b' }) (own0 := s.owner)
        (bal0 := s.bal) hi.own hown0 hbal
      refine ⟨(s2, none), ?_⟩
      show (transfer s auth f t id >>= fun x => pure (x, none)) = _
      unfold transfer
      rw [h1, ok_bind, h2]; rfl
    | transferFrom sp f t id =>
      obtain ⟨b', h1, _⟩ := bind_eq_ok h
      have h1' := h1
      obtain ⟨_, _, h1'⟩ := bind_eq_ok h1'
      obtain ⟨_, _, hu⟩ := bind_eq_ok h1'
      obtain ⟨hown0, _, _, hbal, _⟩ := update_transfer_ok hu
      obtain ⟨s2, h2⟩ := moveInOwner_succeeds (s := { s with toState := b' }) (own0 := s.owner)
        (bal0 := s.bal) hi.own hown0 hbal
      refine ⟨(s2, none), ?_⟩
      show (transferFrom s auth sp f t id >>= fun x => pure (x, none)) = _
      unfold transferFrom
      rw [h1, ok_bind, h2]; rfl
    | burn f id =>
      obtain ⟨b', h1, _⟩ := bind_eq_ok h
      have h1' := h1
      obtain ⟨_, _, hu⟩ := bind_eq_ok h1'
      obtain ⟨hown0, _, _, hbal, _⟩ := update_burn_ok hu
      obtain ⟨s2, h2⟩ := removeFromEnumerations_succeeds (s := { s with toState := b' }) (own0 := s.owner)
        (bal0 := s.bal) hi.glob hi.own hown0 hbal
      refine ⟨(s2, none), ?_⟩
      show (burn s auth f id >>= fun x => pure (x, none)) = _
      unfold burn
      rw [h1, ok_bind, h2]; rfl
    | burnFrom sp f id =>
      obtain ⟨b', h1, _⟩ := bind_eq_ok h
      have h1' := h1
      obtain ⟨_, _, h1'⟩ := bind_eq_ok h1'
      obtain ⟨_, _, hu⟩ := bind_eq_ok h1'
      obtain ⟨hown0, _, _, hbal, _⟩ := update_burn_ok hu
      obtain ⟨s2, h2⟩ := removeFromEnumerations_succeeds (s := { s with toState := b' }) (own0 := s.owner)
        (bal0 := s.bal) hi.glob hi.own hown0 hbal
      refine ⟨(s2, none), ?_⟩
      show (burnFrom s auth sp f id >>= fun x => pure (x, none)) = _
      unfold burnFrom
      rw [h1, ok_bind, h2]; rfl
    | mintSeq to => cases hm
    | mint to id => cases hm
    | batchMint to n => cases hm
    | approve ap a id lu => cases hm
    | approveForAll o p lu => cases hm
    | advance n => cases hm

/-- `Enumerable::sequential_mint` fails only on u32 exhaustion of the counter, of the
recipient's balance or of the total supply: the list upkeep itself cannot fail -/
theorem sequentialMint_iff {s : State} {to : Nat} :
    (∃ p, sequentialMint s to = .ok p) ↔
      (s.nextId + 1 ≤ U32_MAX ∧ s.bal to + 1 ≤ U32_MAX ∧ s.total + 1 ≤ U32_MAX) := by
  constructor
  · rintro ⟨⟨s', id⟩, h⟩
    unfold sequentialMint at h
    obtain ⟨⟨b, id'⟩, h1, h⟩ := bind_eq_ok h
    obtain ⟨s3, h3, _⟩ := bind_eq_ok h
    obtain ⟨ha, hb⟩ := Nft.sequentialMint_iff.mp ⟨_, h1⟩
    obtain ⟨s4, h4, h⟩ := bind_eq_ok h3
    obtain ⟨⟨s5, ts⟩, h5, _⟩ := bind_eq_ok h
    obtain ⟨_, hs4⟩ := addToOwner_ok h4
    unfold incrementTotalSupply at h5
    split at h5
    · cases h5
    · rename_i hle
      subst hs4
      exact ⟨ha, hb, by have : ¬ (s.total + 1 > U32_MAX) := hle; omega⟩
  · rintro ⟨h1, h2, h3⟩
    obtain ⟨⟨b, id⟩, hb⟩ := Nft.sequentialMint_iff.mpr ⟨h1, h2⟩
    obtain ⟨hid, _, hu⟩ := sequentialMint_ok hb
    obtain ⟨_, hbal, _⟩ := update_mint_ok hu
    unfold sequentialMint
    rw [hb, ok_bind]
    simp only
    unfold addToEnumerations
    have hpos : 1 ≤ ({ s with toState := b } : State).bal to := by
      show 1 ≤ b.bal to; rw [hbal, upd_same]; omega
    obtain ⟨s4, h4⟩ := addToOwner_succeeds (s := { s with toState := b }) (id := id) hpos
    rw [h4, ok_bind]
    obtain ⟨_, hs4⟩ := addToOwner_ok h4
    have h5 : incrementTotalSupply s4 = .ok ({ s4 with total := s4.total + 1 }, s4.total) := by
      unfold incrementTotalSupply
      rw [if_neg (by subst hs4; show ¬ s.total + 1 > U32_MAX; omega)]
    rw [h5, ok_bind]
    exact ⟨_, rfl⟩

theorem EInv.owner_pos {s : State} (hi : EInv s) (f id : Nat) (h : s.owner id = some f) : 1 ≤ s.bal f := by
  obtain ⟨i, hlt, _, _⟩ := (hi.own f).2.1 id h
  omega

end OZ.NftEnum

/-! ### consecutive flavour: the owner scan, previous-token marking and bucket updates never fail -/
namespace OZ.NftCons
open OZ.Host OZ.Nft

section
variable {β : Type} {B : BitOps β} {g : β → Nat → Bool} {W : β → Prop}

theorem setOwnership_succeeds (hI : Impl B g W) {s : State β} {id : Nat} (hW : W s.bits)
    (hlt : id < s.nextId) : ∃ s', setOwnershipInBucket B s id = .ok s' := by
  unfold setOwnershipInBucket
  rw [if_neg (by omega)]
  obtain ⟨b', hb', _, _⟩ := hI.set s.bits id hW
  rw [hb']; exact ⟨_, rfl⟩

theorem setOwnerForPrev_succeeds (hI : Impl B g W) {s : State β} {f id : Nat} (hW : W s.bits)
    (hlt : id < s.nextId) : ∃ s', setOwnerForPreviousToken B s f id = .ok s' := by
  unfold setOwnerForPreviousToken
  by_cases h0 : id = 0 ∨ id ≥ s.nextId
  · rw [if_pos h0]; exact ⟨_, rfl⟩
  · rw [if_neg h0]
    by_cases h1 : (s.mark (id - 1)).isSome = true
    · rw [if_pos h1]; exact ⟨_, rfl⟩
    · rw [if_neg h1]
      by_cases h2 : s.burned (id - 1) = true
      · rw [if_pos h2]; exact ⟨_, rfl⟩
      · rw [if_neg h2]
        exact setOwnership_succeeds hI (s := { s with mark := upd s.mark (id - 1) (some f) }) hW
          (by show id - 1 < s.nextId; omega)

theorem GInv.owner_pos {s : State β} {spec : Nat → Option Nat} (hi : GInv g W s spec) {f id : Nat}
    (h : spec id = some f) : 1 ≤ s.bal f := by
  rw [hi.bal f]
  exact cnt_pos (List.mem_range.mpr (hi.ci.spec_lt h).1) h

theorem debit_succeeds (hI : Impl B g W) {s : State β} {spec : Nat → Option Nat} {f id : Nat}
    (hi : GInv g W s spec) (h : spec id = some f) : ∃ s1, debit B s (some f) id = .ok s1 := by
  obtain ⟨hlt, hb⟩ := hi.ci.spec_lt h
  obtain ⟨j, hj, hm⟩ := hi.ci.scan id f h
  have h1 : ownerOf B s id = .ok f := ownerOf_impl_of_scan hI hi.wf hi.ci.bitLt hlt hb hj hm
  have h2 : checkOwner f f = .ok () := by unfold checkOwner; rw [if_neg (by simp)]
  have h3 : decreaseBalance s.toCore f 1 = .ok { s.toCore with bal := upd s.bal f (s.bal f - 1) } := by
    unfold decreaseBalance; rw [if_neg (by have := hi.owner_pos h; omega)]
  unfold debit
  simp only
  rw [h1, ok_bind, h2, ok_bind, h3, ok_bind]
  exact setOwnerForPrev_succeeds hI
    (s := { s with toCore := clearApproval { s.toCore with bal := upd s.bal f (s.bal f - 1) } id }) hi.wf hlt

/-- `update` for a transfer succeeds exactly when the plain map gives the token to `from` and the
recipient's balance does not overflow -/
theorem update_move_iff (hI : Impl B g W) {s : State β} {spec : Nat → Option Nat} {f t id : Nat}
    (hi : GInv g W s spec) :
    (∃ s', update B s (some f) (some t) id = .ok s') ↔
      (spec id = some f ∧ upd s.bal f (s.bal f - 1) t + 1 ≤ U32_MAX) := by
  constructor
  · rintro ⟨s', h⟩
    obtain ⟨s1, hd, hc⟩ := bind_eq_ok h
    obtain ⟨hspec, _, _, _, _, _, hb1, _⟩ := debit_impl_ok hI hi hd
    unfold credit at hc
    simp only at hc
    obtain ⟨c2, hinc, _⟩ := bind_eq_ok hc
    obtain ⟨_, hle⟩ := increaseBalance_ok hinc
    refine ⟨hspec, ?_⟩
    have : s1.toCore.bal = s1.bal := rfl
    rw [this, hb1] at hle; exact hle
  · rintro ⟨hspec, hv⟩
    obtain ⟨s1, hd⟩ := debit_succeeds hI hi hspec
    obtain ⟨_, _, _, hw1, _, hn1, hb1, _⟩ := debit_impl_ok hI hi hd
    have hlt := (hi.ci.spec_lt hspec).1
    unfold update
    rw [hd, ok_bind]
    unfold credit
    simp only
    have h1 : increaseBalance s1.toCore t 1 = .ok { s1.toCore with bal := upd s1.bal t (s1.bal t + 1) } := by
      unfold increaseBalance
      rw [if_neg (by show ¬ s1.bal t + 1 > U32_MAX; rw [hb1]; omega)]
    rw [h1, ok_bind]
    exact setOwnership_succeeds hI
      (s := { s1 with toCore := { s1.toCore with bal := upd s1.bal t (s1.bal t + 1) },
                      mark := upd s1.mark id (some t) }) hw1 (by show id < s1.nextId; rw [hn1]; exact hlt)

theorem update_burn_iff (hI : Impl B g W) {s : State β} {spec : Nat → Option Nat} {f id : Nat}
    (hi : GInv g W s spec) :
    (∃ s', update B s (some f) none id = .ok s') ↔ spec id = some f := by
  constructor
  · rintro ⟨s', h⟩; exact (update_burn_impl hI hi h).1
  · intro hspec
    obtain ⟨s1, hd⟩ := debit_succeeds hI hi hspec
    unfold update
    rw [hd, ok_bind]
    exact ⟨_, rfl⟩

/-- on a reachable state of the consecutive flavour a moving call succeeds iff the property's
conditions hold over the plain ownership map -/
theorem apply_move_iff (hI : Impl B g W) (cfg : Cfg) {s : State β} {spec : Nat → Option Nat}
    {auth : List Nat} {op : Op} (hi : GInv g W s spec) (hm : op.moves.isSome = true) :
    (∃ p, apply B cfg s auth op = .ok p) ↔ MoveOK s.toCore spec auth op := by
  cases op with
  | transfer f t id =>
    show (∃ p, (transfer B s auth f t id >>= fun a => pure (a, none)) = .ok p) ↔ _
    rw [pure_pair_iff]
    unfold transfer
    rw [bind_ok_iff]
    constructor
    · rintro ⟨_, ha, h⟩
      obtain ⟨b, d⟩ := (update_move_iff hI hi).mp h
      exact ⟨requireAuth_ok ha, b, d⟩
    · rintro ⟨a, b, d⟩
      exact ⟨(), requireAuth_eq a, (update_move_iff hI hi).mpr ⟨b, d⟩⟩
  | transferFrom sp f t id =>
    show (∃ p, (transferFrom B s auth sp f t id >>= fun a => pure (a, none)) = .ok p) ↔ _
    rw [pure_pair_iff]
    unfold transferFrom
    rw [bind_ok_iff]
    constructor
    · rintro ⟨_, ha, h⟩
      obtain ⟨_, hc, h⟩ := bind_ok_iff.mp h
      obtain ⟨b, d⟩ := (update_move_iff hI hi).mp h
      exact ⟨requireAuth_ok ha, checkSpender_ok hc, b, d⟩
    · rintro ⟨a, c, b, d⟩
      exact ⟨(), requireAuth_eq a, bind_ok_iff.mpr ⟨(), checkSpender_eq c, (update_move_iff hI hi).mpr ⟨b, d⟩⟩⟩
  | burn f id =>
    show (∃ p, (burn B s auth f id >>= fun a => pure (a, none)) = .ok p) ↔ _
    rw [pure_pair_iff]
    unfold burn
    rw [bind_ok_iff]
    constructor
    · rintro ⟨_, ha, h⟩
      exact ⟨requireAuth_ok ha, (update_burn_iff hI hi).mp h⟩
    · rintro ⟨a, b⟩
      exact ⟨(), requireAuth_eq a, (update_burn_iff hI hi).mpr b⟩
  | burnFrom sp f id =>
    show (∃ p, (burnFrom B s auth sp f id >>= fun a => pure (a, none)) = .ok p) ↔ _
    rw [pure_pair_iff]
    unfold burnFrom
    rw [bind_ok_iff]
    constructor
    · rintro ⟨_, ha, h⟩
      obtain ⟨_, hc, h⟩ := bind_ok_iff.mp h
      exact ⟨requireAuth_ok ha, checkSpender_ok hc, (update_burn_iff hI hi).mp h⟩
    · rintro ⟨a, c, b⟩
      exact ⟨(), requireAuth_eq a, bind_ok_iff.mpr ⟨(), checkSpender_eq c, (update_burn_iff hI hi).mpr b⟩⟩
  | mintSeq to => cases hm
  | mint to id => cases hm
  | batchMint to n => cases hm
  | approve ap a id lu => cases hm
  | approveForAll o p lu => cases hm
  | advance n => cases hm

/-- `batch_mint` succeeds iff the amount is in range and neither the id counter nor the
recipient's balance overflows u32 -/
theorem batchMint_iff (hI : Impl B g W) {s : State β} {to n : Nat} (hW : W s.bits) :
    (∃ p, batchMint B s to n = .ok p) ↔
      (1 ≤ n ∧ n ≤ MAX_TOKENS_IN_BATCH ∧ s.nextId + n ≤ U32_MAX ∧ s.bal to + n ≤ U32_MAX) := by
  unfold batchMint
  by_cases h0 : n = 0 ∨ n > MAX_TOKENS_IN_BATCH
  · rw [if_pos h0]
    constructor
    · rintro ⟨_, h⟩; cases h
    · rintro ⟨h1, h2, _⟩; omega
  · rw [if_neg h0]
    constructor
    · rintro ⟨p, h⟩
      obtain ⟨⟨c, first⟩, h1, h⟩ := bind_eq_ok h
      obtain ⟨c2, h2, _⟩ := bind_eq_ok h
      obtain ⟨hc, _, hle1⟩ := incrementTokenId_ok h1
      obtain ⟨_, hle2⟩ := increaseBalance_ok h2
      subst hc
      exact ⟨by omega, by omega, hle1, hle2⟩
    · rintro ⟨hn1, hn2, hc, hb⟩
      have h1 : incrementTokenId s.toCore n = .ok ({ s.toCore with nextId := s.nextId + n }, s.nextId) := by
        unfold incrementTokenId; rw [if_neg (by show ¬ s.nextId + n > U32_MAX; omega)]
      rw [h1, ok_bind]
      simp only
      have h2 : increaseBalance { s.toCore with nextId := s.nextId + n } to n
          = .ok { s.toCore with nextId := s.nextId + n, bal := upd s.bal to (s.bal to + n) } := by
        unfold increaseBalance; rw [if_neg (by show ¬ s.bal to + n > U32_MAX; omega)]
      rw [h2, ok_bind]
      obtain ⟨s3, h3⟩ := setOwnership_succeeds hI
        (s := { s with toCore := { s.toCore with nextId := s.nextId + n, bal := upd s.bal to (s.bal to + n) } })
        (id := s.nextId + n - 1) hW (by show s.nextId + n - 1 < s.nextId + n; omega)
      rw [h3, ok_bind]
      exact ⟨_, rfl⟩

/-- `Consecutive::approve` succeeds iff the approver authorizes, the token exists in the plain
map, the approver is its owner or a live operator of the owner, and `live_until_ledger` is
acceptable -/
theorem approve_iff (hI : Impl B g W) (cfg : Cfg) {s : State β} {spec : Nat → Option Nat}
    (hi : GInv g W s spec) {auth : List Nat} {ap a id lu : Nat} :
    (∃ s', approve B cfg s auth ap a id lu = .ok s') ↔
      (ap ∈ auth ∧ ∃ o, spec id = some o ∧ (ap = o ∨ isApprovedForAll s.toCore o ap = true) ∧
        LiveUntilOK cfg s.now lu) := by
  have hspec := ownerOf_impl_spec hI hi id
  unfold approve
  rw [bind_ok_iff]
  constructor
  · rintro ⟨_, ha, h⟩
    obtain ⟨o, ho, h⟩ := bind_ok_iff.mp h
    obtain ⟨c, hc, _⟩ := bind_ok_iff.mp h
    obtain ⟨h1, h2⟩ := approveForOwner_iff.mp ⟨c, hc⟩
    rw [ho] at hspec
    exact ⟨requireAuth_ok ha, o, hspec.symm, h1, h2⟩
  · rintro ⟨ha, o, ho, h1, h2⟩
    obtain ⟨hlt, hb⟩ := hi.ci.spec_lt ho
    obtain ⟨j, hj, hm⟩ := hi.ci.scan id o ho
    have hown : ownerOf B s id = .ok o := ownerOf_impl_of_scan hI hi.wf hi.ci.bitLt hlt hb hj hm
    refine ⟨(), requireAuth_eq ha, bind_ok_iff.mpr ⟨o, hown, ?_⟩⟩
    obtain ⟨c, hc⟩ := approveForOwner_iff.mpr ⟨h1, h2⟩
    exact bind_ok_iff.mpr ⟨c, hc, _, rfl⟩

end

end OZ.NftCons
