import OZ.Model.Access
import OZ.Lemmas.RoleTransfer
/-
Helper lemmas for the access-control model: exact descriptions of the enumeration
maintenance (`add_to_role_enumeration`, `remove_from_role_enumeration`), the storage
invariant (index map and enumeration are inverse, gap-free; existing roles = roles with
members) and its preservation by every call.
-/
namespace OZ.Access
open OZ.Host

theorem bind_eq_ok {ε α β} {x : Except ε α} {f : α → Except ε β} {v : β}
    (h : (x >>= f) = .ok v) : ∃ a, x = .ok a ∧ f a = .ok v := by
  cases x with
  | error e => cases h
  | ok a => exact ⟨a, rfl, h⟩

theorem require_ok {b : Bool} {e : Err} {u : Unit} (h : require b e = .ok u) : b = true := by
  unfold require at h
  split at h
  · assumption
  · cases h

theorem require_true (e : Err) : require true e = .ok () := rfl

theorem requireAuth_ok {auth : List Nat} {a : Nat} {u : Unit} (h : requireAuth auth a = .ok u) :
    a ∈ auth := by
  have := require_ok h
  simpa using this

theorem requireAuth_of_mem {auth : List Nat} {a : Nat} (h : a ∈ auth) : requireAuth auth a = .ok () := by
  unfold requireAuth require
  rw [if_pos (by simpa using h)]

theorem upd2_same {β} (f : Nat → Nat → β) (a b : Nat) (v : β) : upd2 f a b v a b = v := by
  simp [upd2]

theorem upd2_ne {β} (f : Nat → Nat → β) (a b x y : Nat) (v : β) (h : ¬ (x = a ∧ y = b)) :
    upd2 f a b v x y = f x y := by
  simp only [upd2]; rw [if_neg h]

theorem upd_same' {β} (f : Nat → β) (a : Nat) (v : β) : upd f a v a = v := by simp [upd]
theorem upd_ne' {β} (f : Nat → β) (a x : Nat) (v : β) (h : x ≠ a) : upd f a v x = f x := by
  simp [upd, h]

/-! ### exact descriptions -/

/-- everything except the enumeration keys -/
def SameRest (s s' : State) : Prop :=
  s'.roleAdmin = s.roleAdmin ∧ s'.adm = s.adm ∧ s'.own = s.own

theorem addToRoleEnumeration_ok {s s' : State} {a r : Nat} (h : addToRoleEnumeration s a r = .ok s') :
    s'.accounts = upd2 s.accounts r (cnt s r) (some a) ∧
    s'.hasRole = upd2 s.hasRole a r (some (cnt s r)) ∧
    s'.count = upd s.count r (some (cnt s r + 1)) ∧
    s'.existing = (if cnt s r = 0 then s.existing ++ [r] else s.existing) ∧
    (cnt s r = 0 → s.existing.length ≠ MAX_ROLES) ∧
    SameRest s s' ∧ s'.events = s.events := by
  unfold addToRoleEnumeration at h
  obtain ⟨s1, h1, h2⟩ := bind_eq_ok h
  unfold storeMember at h2
  split at h2
  · cases h2
  · injection h2 with h2; subst h2
    unfold noteFirst at h1
    split at h1
    · rename_i h0
      unfold pushExisting at h1
      split at h1
      · cases h1
      · rename_i hl
        injection h1 with h1; subst h1
        rw [if_pos h0]
        exact ⟨rfl, rfl, rfl, rfl, fun _ => hl, ⟨rfl, rfl, rfl⟩, rfl⟩
    · rename_i h0
      injection h1 with h1; subst h1
      rw [if_neg h0]
      exact ⟨rfl, rfl, rfl, rfl, fun h => absurd h h0, ⟨rfl, rfl, rfl⟩, rfl⟩

/-- the maps after a successful `remove_from_role_enumeration`, for the slot `idx` of the
removed account and the last slot `last` -/
def removedAccounts (s : State) (r idx last : Nat) (la : Nat) : Nat → Nat → Option Nat :=
  if idx = last then upd2 s.accounts r last none
  else upd2 (upd2 s.accounts r idx (some la)) r last none

def removedHasRole (s : State) (a r idx last : Nat) (la : Nat) : Nat → Nat → Option Nat :=
  if idx = last then upd2 s.hasRole a r none
  else upd2 (upd2 s.hasRole la r (some idx)) a r none

theorem removeFromRoleEnumeration_ok {s s' : State} {a r : Nat}
    (h : removeFromRoleEnumeration s a r = .ok s') :
    cnt s r ≠ 0 ∧ ∃ idx, s.hasRole a r = some idx ∧
      ∃ la, (idx ≠ cnt s r - 1 → s.accounts r (cnt s r - 1) = some la) ∧
      s'.accounts = removedAccounts s r idx (cnt s r - 1) la ∧
      s'.hasRole = removedHasRole s a r idx (cnt s r - 1) la ∧
      s'.count = upd s.count r (some (cnt s r - 1)) ∧
      s'.existing = (if cnt s r - 1 = 0 then s.existing.erase r else s.existing) ∧
      SameRest s s' ∧ s'.events = s.events := by
  unfold removeFromRoleEnumeration at h
  split at h
  · cases h
  · rename_i h0
    refine ⟨h0, ?_⟩
    unfold removeIdx at h
    split at h
    · cases h
    · rename_i idx hidx
      refine ⟨idx, hidx, ?_⟩
      unfold removeAt at h
      obtain ⟨s1, h1, h2⟩ := bind_eq_ok h
      injection h2 with h2; subst h2
      unfold swapLast at h1
      split at h1
      · rename_i hne
        split at h1
        · cases h1
        · rename_i la hla
          injection h1 with h1; subst h1
          refine ⟨la, fun _ => hla, ?_⟩
          unfold forgetIfEmpty dropLast removedAccounts removedHasRole
          rw [if_neg hne, if_neg hne]
          split <;> exact ⟨rfl, rfl, rfl, rfl, ⟨rfl, rfl, rfl⟩, rfl⟩
      · rename_i heq
        have heq : idx = cnt s r - 1 := Decidable.of_not_not heq
        injection h1 with h1; subst h1
        refine ⟨0, fun hne => absurd heq hne, ?_⟩
        unfold forgetIfEmpty dropLast removedAccounts removedHasRole
        rw [if_pos heq, if_pos heq]
        split <;> exact ⟨rfl, rfl, rfl, rfl, ⟨rfl, rfl, rfl⟩, rfl⟩

/-! ### the storage invariant -/

/-- per role: index map and enumeration are inverse to each other and gap-free -/
structure RoleInv (s : State) (r : Nat) : Prop where
  fwd : ∀ i, i < cnt s r → ∃ a, s.accounts r i = some a ∧ s.hasRole a r = some i
  beyond : ∀ i, cnt s r ≤ i → s.accounts r i = none
  back : ∀ a i, s.hasRole a r = some i → i < cnt s r ∧ s.accounts r i = some a

structure Inv (s : State) : Prop where
  role : ∀ r, RoleInv s r
  exNodup : s.existing.Nodup
  exIff : ∀ r, r ∈ s.existing ↔ 0 < cnt s r
  exLen : s.existing.length ≤ MAX_ROLES

theorem init_inv (admin owner : Option Nat) (now : Nat) : Inv (init admin owner now) := by
  refine ⟨fun r => ⟨?_, ?_, ?_⟩, List.nodup_nil, ?_, by simp [init, MAX_ROLES]⟩
  · intro i hi; simp [init, cnt] at hi
  · intro i _; rfl
  · intro a i h; simp [init] at h
  · intro r; simp [init, cnt]

/-- RoleInv depends only on the three enumeration maps at that role -/
theorem RoleInv.congr {s s' : State} {r : Nat} (hi : RoleInv s r)
    (h1 : ∀ i, s'.accounts r i = s.accounts r i) (h2 : ∀ a, s'.hasRole a r = s.hasRole a r)
    (h3 : s'.count r = s.count r) : RoleInv s' r := by
  have hc : cnt s' r = cnt s r := by unfold cnt; rw [h3]
  refine ⟨?_, ?_, ?_⟩
  · intro i hi'
    rw [hc] at hi'
    obtain ⟨a, ha, hb⟩ := hi.fwd i hi'
    exact ⟨a, by rw [h1, ha], by rw [h2, hb]⟩
  · intro i hi'
    rw [hc] at hi'
    rw [h1]; exact hi.beyond i hi'
  · intro a i h
    rw [h2] at h
    rw [hc, h1]
    exact hi.back a i h

/-- adding a non-member keeps the role's invariant -/
theorem roleInv_add {s s' : State} {a r : Nat} (hi : RoleInv s r) (hn : s.hasRole a r = none)
    (h1 : s'.accounts = upd2 s.accounts r (cnt s r) (some a))
    (h2 : s'.hasRole = upd2 s.hasRole a r (some (cnt s r)))
    (h3 : s'.count = upd s.count r (some (cnt s r + 1))) : RoleInv s' r := by
  have hc : cnt s' r = cnt s r + 1 := by unfold cnt; rw [h3, upd_same']; rfl
  refine ⟨?_, ?_, ?_⟩
  · intro i hi'
    rw [hc] at hi'
    by_cases hin : i = cnt s r
    · subst hin
      exact ⟨a, by rw [h1, upd2_same], by rw [h2, upd2_same]⟩
    · obtain ⟨b, hb1, hb2⟩ := hi.fwd i (by omega)
      have hba : b ≠ a := by intro e; subst e; rw [hn] at hb2; cases hb2
      refine ⟨b, ?_, ?_⟩
      · rw [h1, upd2_ne _ _ _ _ _ _ (fun h => hin h.2)]; exact hb1
      · rw [h2, upd2_ne _ _ _ _ _ _ (fun h => hba h.1)]; exact hb2
  · intro i hi'
    rw [hc] at hi'
    rw [h1, upd2_ne _ _ _ _ _ _ (fun h => by omega)]
    exact hi.beyond i (by omega)
  · intro b i h
    rw [h2] at h
    rw [hc, h1]
    by_cases hba : b = a
    · subst hba
      rw [upd2_same] at h
      injection h with h; subst h
      exact ⟨by omega, by rw [upd2_same]⟩
    · rw [upd2_ne _ _ _ _ _ _ (fun h => hba h.1)] at h
      obtain ⟨hlt, hacc⟩ := hi.back b i h
      exact ⟨by omega, by rw [upd2_ne _ _ _ _ _ _ (fun h => by omega)]; exact hacc⟩

/-- swap-and-pop keeps the role's invariant -/
theorem roleInv_remove {s s' : State} {a r idx la : Nat} (hi : RoleInv s r)
    (hidx : s.hasRole a r = some idx)
    (hla : idx ≠ cnt s r - 1 → s.accounts r (cnt s r - 1) = some la)
    (h1 : s'.accounts = removedAccounts s r idx (cnt s r - 1) la)
    (h2 : s'.hasRole = removedHasRole s a r idx (cnt s r - 1) la)
    (h3 : s'.count = upd s.count r (some (cnt s r - 1))) : RoleInv s' r := by
  obtain ⟨hlt, hacc⟩ := hi.back a idx hidx
  have hc : cnt s' r = cnt s r - 1 := by unfold cnt; rw [h3, upd_same']; rfl
  by_cases hlast : idx = cnt s r - 1
  · -- the removed account sits in the last slot
    simp only [removedAccounts, removedHasRole, if_pos hlast] at h1 h2
    refine ⟨?_, ?_, ?_⟩
    · intro i hi'
      rw [hc] at hi'
      obtain ⟨b, hb1, hb2⟩ := hi.fwd i (by omega)
      have hba : b ≠ a := by intro e; subst e; rw [hidx] at hb2; injection hb2; omega
      exact ⟨b, by rw [h1, upd2_ne _ _ _ _ _ _ (fun h => by omega)]; exact hb1,
                by rw [h2, upd2_ne _ _ _ _ _ _ (fun h => hba h.1)]; exact hb2⟩
    · intro i hi'
      rw [hc] at hi'
      rw [h1]
      by_cases hil : i = cnt s r - 1
      · subst hil; rw [upd2_same]
      · rw [upd2_ne _ _ _ _ _ _ (fun h => hil h.2)]; exact hi.beyond i (by omega)
    · intro b i h
      rw [h2] at h
      by_cases hba : b = a
      · subst hba; rw [upd2_same] at h; cases h
      · rw [upd2_ne _ _ _ _ _ _ (fun h => hba h.1)] at h
        obtain ⟨hlt', hacc'⟩ := hi.back b i h
        have hil : i ≠ cnt s r - 1 := by
          intro e; subst e; rw [← hlast, hacc] at hacc'; injection hacc' with e; exact hba e.symm
        rw [hc, h1]
        exact ⟨by omega, by rw [upd2_ne _ _ _ _ _ _ (fun h => hil h.2)]; exact hacc'⟩
  · -- the last account is moved into the freed slot
    have hla' := hla hlast
    simp only [removedAccounts, removedHasRole, if_neg hlast] at h1 h2
    obtain ⟨la2, hl1, hl2⟩ := hi.fwd (cnt s r - 1) (by omega)
    rw [hla'] at hl1; injection hl1 with hl1; subst hl1
    have hlaa : la ≠ a := by intro e; subst e; rw [hidx] at hl2; injection hl2 with e; exact hlast e
    refine ⟨?_, ?_, ?_⟩
    · intro i hi'
      rw [hc] at hi'
      by_cases hii : i = idx
      · subst hii
        refine ⟨la, ?_, ?_⟩
        · rw [h1, upd2_ne _ _ _ _ _ _ (fun h => hlast h.2), upd2_same]
        · rw [h2, upd2_ne _ _ _ _ _ _ (fun h => hlaa h.1), upd2_same]
      · obtain ⟨b, hb1, hb2⟩ := hi.fwd i (by omega)
        have hba : b ≠ a := by intro e; subst e; rw [hidx] at hb2; injection hb2 with e; exact hii e.symm
        have hbl : b ≠ la := by intro e; subst e; rw [hl2] at hb2; injection hb2; omega
        refine ⟨b, ?_, ?_⟩
        · rw [h1, upd2_ne _ _ _ _ _ _ (fun h => by omega), upd2_ne _ _ _ _ _ _ (fun h => hii h.2)]; exact hb1
        · rw [h2, upd2_ne _ _ _ _ _ _ (fun h => hba h.1), upd2_ne _ _ _ _ _ _ (fun h => hbl h.1)]; exact hb2
    · intro i hi'
      rw [hc] at hi'
      rw [h1]
      by_cases hil : i = cnt s r - 1
      · subst hil; rw [upd2_same]
      · rw [upd2_ne _ _ _ _ _ _ (fun h => hil h.2), upd2_ne _ _ _ _ _ _ (fun h => by omega)]
        exact hi.beyond i (by omega)
    · intro b i h
      rw [h2] at h
      by_cases hba : b = a
      · subst hba; rw [upd2_same] at h; cases h
      · rw [upd2_ne _ _ _ _ _ _ (fun h => hba h.1)] at h
        rw [hc, h1]
        by_cases hbl : b = la
        · subst hbl
          rw [upd2_same] at h; injection h with h; subst h
          exact ⟨by omega, by rw [upd2_ne _ _ _ _ _ _ (fun h => hlast h.2), upd2_same]⟩
        · rw [upd2_ne _ _ _ _ _ _ (fun h => hbl h.1)] at h
          obtain ⟨hlt', hacc'⟩ := hi.back b i h
          have hil : i ≠ cnt s r - 1 := by
            intro e; subst e; rw [hla'] at hacc'; injection hacc' with e; exact hbl e.symm
          have hii : i ≠ idx := by
            intro e; subst e; rw [hacc] at hacc'; injection hacc' with e; exact hba e.symm
          exact ⟨by omega, by
            rw [upd2_ne _ _ _ _ _ _ (fun h => hil h.2), upd2_ne _ _ _ _ _ _ (fun h => hii h.2)]; exact hacc'⟩

/-- a role other than the one touched is not affected by `upd2 _ _ r _` / `upd _ r _` -/
theorem roleInv_other {s s' : State} {r q : Nat} (_hq : q ≠ r) (hi : RoleInv s q)
    (h1 : ∀ i, s'.accounts q i = s.accounts q i) (h2 : ∀ a, s'.hasRole a q = s.hasRole a q)
    (h3 : s'.count q = s.count q) : RoleInv s' q := hi.congr h1 h2 h3

theorem add_inv {s s' : State} {a r : Nat} (hi : Inv s) (hn : s.hasRole a r = none)
    (h : addToRoleEnumeration s a r = .ok s') : Inv s' := by
  obtain ⟨h1, h2, h3, h4, h5, -, -⟩ := addToRoleEnumeration_ok h
  have hcr : cnt s' r = cnt s r + 1 := by unfold cnt; rw [h3, upd_same']; rfl
  have hco : ∀ q, q ≠ r → cnt s' q = cnt s q := by
    intro q hq; unfold cnt; rw [h3, upd_ne' _ _ _ _ hq]
  refine ⟨?_, ?_, ?_, ?_⟩
  · intro q
    by_cases hq : q = r
    · subst hq; exact roleInv_add (hi.role q) hn h1 h2 h3
    · refine (hi.role q).congr ?_ ?_ ?_
      · intro i; rw [h1, upd2_ne _ _ _ _ _ _ (fun h => hq h.1)]
      · intro b; rw [h2, upd2_ne _ _ _ _ _ _ (fun h => hq h.2)]
      · rw [h3, upd_ne' _ _ _ _ hq]
  · rw [h4]
    split
    · rename_i h0
      have hnot : r ∉ s.existing := fun hm => by have := (hi.exIff r).mp hm; omega
      rw [List.nodup_append]
      refine ⟨hi.exNodup, by simp, ?_⟩
      intro x hx y hy
      simp only [List.mem_singleton] at hy
      subst hy
      intro e; subst e; exact hnot hx
    · exact hi.exNodup
  · intro q
    rw [h4]
    by_cases hq : q = r
    · subst hq
      rw [hcr]
      split
      · simp
      · rename_i h0
        constructor
        · intro _; omega
        · intro _; exact (hi.exIff q).mpr (by omega)
    · rw [hco q hq]
      split
      · rw [List.mem_append]
        simp only [List.mem_singleton]
        constructor
        · rintro (h | h)
          · exact (hi.exIff q).mp h
          · exact absurd h hq
        · intro h; exact Or.inl ((hi.exIff q).mpr h)
      · exact hi.exIff q
  · rw [h4]
    split
    · rename_i h0
      have := h5 h0
      have := hi.exLen
      rw [List.length_append]
      simp only [List.length_singleton]
      omega
    · exact hi.exLen

theorem remove_inv {s s' : State} {a r : Nat} (hi : Inv s)
    (h : removeFromRoleEnumeration s a r = .ok s') : Inv s' := by
  obtain ⟨h0, idx, hidx, la, hla, h1, h2, h3, h4, -, -⟩ := removeFromRoleEnumeration_ok h
  have hcr : cnt s' r = cnt s r - 1 := by unfold cnt; rw [h3, upd_same']; rfl
  have hco : ∀ q, q ≠ r → cnt s' q = cnt s q := by
    intro q hq; unfold cnt; rw [h3, upd_ne' _ _ _ _ hq]
  refine ⟨?_, ?_, ?_, ?_⟩
  · intro q
    by_cases hq : q = r
    · subst hq; exact roleInv_remove (hi.role q) hidx hla h1 h2 h3
    · refine (hi.role q).congr ?_ ?_ ?_
      · intro i; rw [h1]; unfold removedAccounts
        split
        · rw [upd2_ne _ _ _ _ _ _ (fun h => hq h.1)]
        · rw [upd2_ne _ _ _ _ _ _ (fun h => hq h.1), upd2_ne _ _ _ _ _ _ (fun h => hq h.1)]
      · intro b; rw [h2]; unfold removedHasRole
        split
        · rw [upd2_ne _ _ _ _ _ _ (fun h => hq h.2)]
        · rw [upd2_ne _ _ _ _ _ _ (fun h => hq h.2), upd2_ne _ _ _ _ _ _ (fun h => hq h.2)]
      · rw [h3, upd_ne' _ _ _ _ hq]
  · rw [h4]; split
    · exact hi.exNodup.erase r
    · exact hi.exNodup
  · intro q
    rw [h4]
    by_cases hq : q = r
    · subst hq
      rw [hcr]
      split
      · rename_i hz
        rw [hi.exNodup.mem_erase_iff]
        constructor
        · intro h; exact absurd rfl h.1
        · intro h; omega
      · rename_i hz
        constructor
        · intro _; omega
        · intro _; exact (hi.exIff q).mpr (by omega)
    · rw [hco q hq]
      split
      · rw [List.mem_erase_of_ne hq]; exact hi.exIff q
      · exact hi.exIff q
  · rw [h4]; split
    · have := hi.exLen
      have hl := List.length_erase_le (a := r) (l := s.existing)
      omega
    · exact hi.exLen

/-- Inv depends only on the enumeration keys and the list of existing roles -/
theorem Inv.congr {s s' : State} (hi : Inv s) (h1 : s'.accounts = s.accounts)
    (h2 : s'.hasRole = s.hasRole) (h3 : ∀ r, cnt s' r = cnt s r) (h4 : s'.existing = s.existing) :
    Inv s' := by
  refine ⟨?_, by rw [h4]; exact hi.exNodup, ?_, by rw [h4]; exact hi.exLen⟩
  · intro r
    have hr := hi.role r
    refine ⟨?_, ?_, ?_⟩
    · intro i h; rw [h3] at h; rw [h1, h2]; exact hr.fwd i h
    · intro i h; rw [h3] at h; rw [h1]; exact hr.beyond i h
    · intro a i h; rw [h2] at h; rw [h3, h1]; exact hr.back a i h
  · intro r; rw [h4, h3]; exact hi.exIff r

end OZ.Access
