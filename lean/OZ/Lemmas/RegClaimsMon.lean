import OZ.Lemmas.RegClaims
import OZ.Lemmas.RegMon
import OZ.Model.RegClaimsMon
/-
Helper facts for the soundness proof of the `claims` monitor of C20 (OZ/Props/C20gMon.lean): the
monitor's plain map as a lookup function, its updates, and its accept / refuse decision against
the model's.
-/
namespace OZ.RegClaims.Mon
open OZ.Reg OZ.RegMon OZ.RegClaims

/-- the plain map as a lookup function -/
def look (g : Mon) (id : Id) : Option String := (g.map.find? (fun e => e.1 == id)).map (·.2)

/-- the monitor's plain map describes the model state -/
structure Agree (g : Mon) (s : State) : Prop where
  look : ∀ id, look g id = (s.claim id).map showClaim

theorem showId_inj : Function.Injective showId := by
  rintro ⟨a, b⟩ ⟨c, d⟩ h
  obtain ⟨rfl, rfl⟩ := showPair_inj (a := a) (b := b) (c := c) (d := d) h
  rfl

theorem find_filter_ne_self (l : List (Id × String)) (k : Id) :
    (l.filter (fun e => e.1 ≠ k)).find? (fun e => e.1 == k) = none := by
  rw [List.find?_eq_none]
  intro e he
  simp only [List.mem_filter, decide_eq_true_eq] at he
  simpa using he.2

theorem find_filter_ne_other (l : List (Id × String)) {k id : Id} (h : id ≠ k) :
    (l.filter (fun e => e.1 ≠ k)).find? (fun e => e.1 == id) = l.find? (fun e => e.1 == id) := by
  rw [List.find?_filter]
  congr 1
  funext e
  by_cases he : e.1 = id
  · simp [he, h]
  · simp [he]

theorem look_add (g : Mon) (k : Id) (v : String) (id : Id) :
    look { map := g.map.filter (fun e => e.1 ≠ k) ++ [(k, v)] } id = if id = k then some v else look g id := by
  unfold look
  show (List.find? _ (g.map.filter (fun e => e.1 ≠ k) ++ [(k, v)])).map _ = _
  rw [List.find?_append]
  by_cases h : id = k
  · subst h; rw [if_pos rfl, find_filter_ne_self]; simp
  · rw [if_neg h, find_filter_ne_other _ h]
    cases hf : g.map.find? (fun e => e.1 == id) with
    | some e => rfl
    | none =>
      have : ¬ k = id := fun e => h e.symm
      simp [this]

theorem look_remove (g : Mon) (k id : Id) :
    look { map := g.map.filter (fun e => e.1 ≠ k) } id = if id = k then none else look g id := by
  unfold look
  show (List.find? _ (g.map.filter (fun e => e.1 ≠ k))).map _ = _
  by_cases h : id = k
  · subst h; rw [if_pos rfl, find_filter_ne_self]; rfl
  · rw [if_neg h, find_filter_ne_other _ h]

theorem look_isSome (g : Mon) (id : Id) : (look g id).isSome = (g.map.find? (fun e => e.1 == id)).isSome := by
  unfold look; cases g.map.find? (fun e => e.1 == id) <;> rfl

theorem added_claim (s : State) (c : Claim) :
    (added s c).claim = updD s.claim (c.issuer, c.topic) (some c) := by
  unfold added; split <;> rfl

theorem removed_claim (s : State) (id : Id) (c : Claim) :
    (removed s id c).claim = updD s.claim id none := by
  unfold removed removeFromIndex; split <;> rfl

/-- an operation the model accepts is accepted by the plain map, which then describes the new
model state -/
theorem plain_ok {g : Mon} {s s' : State} (ha : Agree g s) {op : Op}
    (hs : step valid s op = .ok s') : ∃ g', plain g (.op op) = .ok g' ∧ Agree g' s' := by
  cases op with
  | add t sc i sg d u =>
    obtain ⟨hv, rfl⟩ := (addClaim_ok_iff valid s s' t sc i sg d u).1 hs
    have hd : ¬ d = 0 := by simpa [valid] using hv
    refine ⟨_, by simp only [plain]; rw [if_neg hd], ⟨fun id => ?_⟩⟩
    rw [look_add, added_claim]
    show _ = (updD s.claim (i, t) _ id).map showClaim
    by_cases h : id = (i, t)
    · subst h; rw [if_pos rfl, updD_same]; rfl
    · rw [if_neg h, updD_other _ _ _ _ h]; exact ha.look id
  | remove id =>
    obtain ⟨c, hc, rfl⟩ := (removeClaim_ok_iff s s' id).1 hs
    have h1 : (g.map.find? (fun e => e.1 == id)).isSome = true := by
      rw [← look_isSome, ha.look, hc]; rfl
    refine ⟨_, by simp only [plain]; rw [if_pos h1], ⟨fun id' => ?_⟩⟩
    rw [look_remove, removed_claim]
    by_cases h : id' = id
    · subst h; rw [if_pos rfl, updD_same]; rfl
    · rw [if_neg h, updD_other _ _ _ _ h]; exact ha.look id'

/-- an operation the model refuses is refused by the plain map -/
theorem plain_err {g : Mon} {s : State} (ha : Agree g s) {op : Op} {e : RErr}
    (hs : step valid s op = .error e) : ∃ w, plain g (.op op) = .error w := by
  cases op with
  | add t sc i sg d u =>
    simp only [plain]
    by_cases hd : d = 0
    · rw [if_pos hd]; exact ⟨_, rfl⟩
    · exfalso
      have : addClaim valid s t sc i sg d u = .ok _ :=
        (addClaim_ok_iff valid s _ t sc i sg d u).2 ⟨by simpa [valid] using hd, rfl⟩
      rw [show step valid s (.add t sc i sg d u) = addClaim valid s t sc i sg d u from rfl, this] at hs; cases hs
  | remove id =>
    simp only [plain]
    by_cases h1 : (g.map.find? (fun e => e.1 == id)).isSome = true
    · exfalso
      rw [← look_isSome, ha.look] at h1
      cases hc : s.claim id with
      | none => rw [hc] at h1; cases h1
      | some c =>
        have : removeClaim s id = .ok _ := (removeClaim_ok_iff s _ id).2 ⟨c, hc, rfl⟩
        rw [show step valid s (.remove id) = removeClaim s id from rfl, this] at hs; cases hs
    · rw [if_neg h1]; exact ⟨_, rfl⟩

/-- the printed ids the plain map holds for topic `t` are those of the model's topic index -/
theorem mem_want_iff {g : Mon} {s : State} (ha : Agree g s) (hI : Inv s) (t : Nat) (x : String) :
    x ∈ (s.byTopic t).map showId ↔ x ∈ want g t := by
  unfold want
  simp only [List.mem_map, List.mem_filter, beq_iff_eq]
  constructor
  · rintro ⟨id, hid, rfl⟩
    obtain ⟨c, hc, hct⟩ := (hI.mem t id).1 hid
    have hk := (hI.key id c hc).1
    have hl : (look g id).isSome = true := by rw [ha.look, hc]; rfl
    rw [look_isSome] at hl
    obtain ⟨e, he⟩ := Option.isSome_iff_exists.1 hl
    have h1 := List.mem_of_find?_eq_some he
    have h2 : e.1 = id := by simpa using List.find?_some he
    exact ⟨e, ⟨h1, by rw [h2, ← hk, hct]⟩, by rw [h2]⟩
  · rintro ⟨e, ⟨he, het⟩, rfl⟩
    refine ⟨e.1, ?_, rfl⟩
    have hl : (g.map.find? (fun e' => e'.1 == e.1)).isSome = true :=
      List.find?_isSome.2 ⟨e, he, by simp⟩
    rw [← look_isSome, ha.look] at hl
    cases hc : s.claim e.1 with
    | none => rw [hc] at hl; cases hl
    | some c =>
      exact (hI.mem t e.1).2 ⟨c, hc, by rw [(hI.key e.1 c hc).1, het]⟩

end OZ.RegClaims.Mon
