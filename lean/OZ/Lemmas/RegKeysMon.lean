import OZ.Lemmas.RegKeys
import OZ.Lemmas.RegMon
import OZ.Model.RegKeysMon
import Mathlib.Data.List.Sort
/-
Helper facts for the soundness proof of the `keys` monitor of C20 (OZ/Props/C20aMon.lean): the
monitor's plain relation against the model's two storage maps (`pairsOf` / `keysOf` are permutations
of `Pairs(k)` / `Topics(t)`), its accept / refuse decision against the model's, and the generic list
facts it needs (`eraseDups` is duplicate-free, sorting forgets the order).
-/
namespace OZ.RegKeys.Mon
open OZ.Reg OZ.RegMon OZ.RegKeys

/-! ### generic list facts -/

theorem nodup_eraseDups {α : Type} [BEq α] [LawfulBEq α] (l : List α) : l.eraseDups.Nodup := by
  generalize hn : l.length = n
  induction n using Nat.strong_induction_on generalizing l with
  | _ n ih =>
    cases l with
    | nil => simp
    | cons a as =>
      rw [List.eraseDups_cons, List.nodup_cons]
      constructor
      · intro h
        rw [List.mem_eraseDups, List.mem_filter] at h
        simpa using h.2
      · subst hn
        exact ih _ (Nat.lt_succ_of_le (List.length_filter_le _ _)) _ rfl

theorem sortN_perm (l : List Nat) : (sortN l).Perm l := List.mergeSort_perm _ _

theorem sortN_sorted (l : List Nat) : (sortN l).Pairwise (· ≤ ·) := by
  have := List.pairwise_mergeSort (le := fun a b : Nat => decide (a ≤ b))
    (fun a b c h1 h2 => by simp only [decide_eq_true_eq] at *; omega)
    (fun a b => by simp only [Bool.or_eq_true, decide_eq_true_eq]; omega) l
  unfold sortN
  simpa using this

/-- sorting forgets the order -/
theorem sortN_eq_of_perm {a b : List Nat} (h : a.Perm b) : sortN a = sortN b :=
  List.Perm.eq_of_pairwise (le := (· ≤ ·)) (fun _ _ _ _ h1 h2 => Nat.le_antisymm h1 h2)
    (sortN_sorted a) (sortN_sorted b) (((sortN_perm a).trans h).trans (sortN_perm b).symm)

theorem sortN_eq_nil {l : List Nat} : sortN l = [] ↔ l = [] := by
  constructor
  · intro h; have := (sortN_perm l).length_eq; rw [h] at this; exact List.eq_nil_of_length_eq_zero this.symm
  · intro h; subst h; exact (sortN_perm []).eq_nil

theorem firstFail_eq_none {l : List (Option String)} (h : ∀ x ∈ l, x = none) : firstFail l = none := by
  unfold firstFail
  rw [List.findSome?_eq_none_iff]
  intro x hx; exact h x hx

/-! ### the plain relation against the model state -/

/-- the monitor's plain relation describes the model state (and carries the label parameters) -/
structure Agree (g : Mon) (s : State) (nk nt : Nat) : Prop where
  nk : g.nk = nk
  nt : g.nt = nt
  nodup : g.rel.Nodup
  mem : ∀ k t r, (k, t, r) ∈ g.rel ↔ (t, r) ∈ s.pairs k

theorem mem_pairsOf (g : Mon) (k : Key) (p : Nat × Nat) : p ∈ pairsOf g k ↔ (k, p) ∈ g.rel := by
  unfold pairsOf
  simp only [List.mem_map, List.mem_filter, beq_iff_eq]
  constructor
  · rintro ⟨⟨k', p'⟩, ⟨hm, rfl⟩, rfl⟩; exact hm
  · intro h; exact ⟨(k, p), ⟨h, rfl⟩, rfl⟩

theorem nodup_pairsOf {g : Mon} (h : g.rel.Nodup) (k : Key) : (pairsOf g k).Nodup := by
  unfold pairsOf
  refine List.Nodup.map_on ?_ (h.filter _)
  rintro ⟨k1, p1⟩ h1 ⟨k2, p2⟩ h2 (e : p1 = p2)
  simp only [List.mem_filter, beq_iff_eq] at h1 h2
  obtain ⟨_, rfl⟩ := h1
  obtain ⟨_, rfl⟩ := h2
  rw [e]

theorem mem_keysOf (g : Mon) (t : Nat) (k : Key) : k ∈ keysOf g t ↔ ∃ r, (k, t, r) ∈ g.rel := by
  unfold keysOf
  rw [List.mem_eraseDups]
  simp only [List.mem_map, List.mem_filter, beq_iff_eq]
  constructor
  · rintro ⟨⟨k', t', r⟩, ⟨hm, rfl⟩, rfl⟩; exact ⟨r, hm⟩
  · rintro ⟨r, h⟩; exact ⟨(k, t, r), ⟨h, rfl⟩, rfl⟩

theorem nodup_keysOf (g : Mon) (t : Nat) : (keysOf g t).Nodup := nodup_eraseDups _

/-- the plain relation's pairs of a key are the stored pairs, in some order -/
theorem pairsOf_perm {g : Mon} {s : State} {nk nt : Nat} (ha : Agree g s nk nt) (hI : Inv s) (k : Key) :
    (pairsOf g k).Perm (s.pairs k) :=
  perm_of_nodup_mem (nodup_pairsOf ha.nodup k) (hI.pairsNodup k)
    (fun p => by rw [mem_pairsOf]; exact ha.mem k p.1 p.2)

/-- the plain relation's keys of a topic are the stored keys, in some order -/
theorem keysOf_perm {g : Mon} {s : State} {nk nt : Nat} (ha : Agree g s nk nt) (hI : Inv s) (t : Nat) :
    (keysOf g t).Perm (s.topics t) :=
  perm_of_nodup_mem (nodup_keysOf g t) (hI.topicsNodup t) (fun k => by
    rw [mem_keysOf, hI.twoWay]
    exact exists_congr (fun r => ha.mem k t r))

/-! ### the accept / refuse decision -/

/-- whether the model (with the harness's oracle) accepts the call -/
def accepted (s : State) (op : Op) : Bool :=
  match step allowed s op with
  | .ok _ => true
  | .error _ => false

/-- the plain relation with its documented limits accepts an `allow_key` exactly when the model's
`allow_key` does -/
theorem expect_allow_iff {g : Mon} {s : State} {nk nt : Nat} (ha : Agree g s nk nt) (hI : Inv s)
    (k : Key) (r t : Nat) :
    expect g (.allow k r t) = true ↔
      (k.1 ≠ 0 ∧ allowed r t = true ∧ (t, r) ∉ s.pairs k ∧
        (k ∈ s.topics t ∨ (s.topics t).length < MAX_KEYS_PER_TOPIC) ∧
        (s.pairs k).length < MAX_REGISTRIES_PER_KEY) := by
  have hl1 : (keysOf g t).length = (s.topics t).length := (keysOf_perm ha hI t).length_eq
  have hl2 : (pairsOf g k).length = (s.pairs k).length := (pairsOf_perm ha hI k).length_eq
  have hc : (keysOf g t).contains k = true ↔ k ∈ s.topics t := by
    rw [List.contains_iff_mem]; exact (keysOf_perm ha hI t).mem_iff
  have hd : g.rel.contains (k, t, r) = true ↔ (t, r) ∈ s.pairs k := by
    rw [List.contains_iff_mem]; exact ha.mem k t r
  simp only [expect, topicFull]
  rw [hl1, hl2]
  simp only [Bool.and_eq_true, Bool.not_eq_true', decide_eq_true_eq,
    ← Bool.not_eq_true, hc, hd, MAX_KEYS_PER_TOPIC, MAX_REGISTRIES_PER_KEY]
  constructor
  · rintro ⟨⟨⟨⟨h1, h2⟩, h3⟩, h4⟩, h5⟩
    refine ⟨h1, h2, h3, ?_, by omega⟩
    by_cases hk : k ∈ s.topics t
    · exact Or.inl hk
    · exact Or.inr (Nat.lt_of_not_le (fun h => h4 ⟨hk, h⟩))
  · rintro ⟨h1, h2, h3, h4, h5⟩
    refine ⟨⟨⟨⟨h1, h2⟩, h3⟩, ?_⟩, by omega⟩
    rintro ⟨hk, hl⟩
    rcases h4 with h | h
    · exact hk h
    · omega

theorem expect_remove_iff {g : Mon} {s : State} {nk nt : Nat} (ha : Agree g s nk nt)
    (k : Key) (r t : Nat) : expect g (.remove k r t) = true ↔ (t, r) ∈ s.pairs k := by
  show g.rel.contains (k, t, r) = true ↔ _
  rw [List.contains_iff_mem]; exact ha.mem k t r

/-- a call the model accepts is accepted by the plain relation, which then describes the new model
state -/
theorem expect_ok {g : Mon} {s s' : State} {nk nt : Nat} (ha : Agree g s nk nt) (hI : Inv s) {op : Op}
    (hs : step allowed s op = .ok s') : expect g op = true ∧ Agree (applyOp g op) s' nk nt := by
  cases op with
  | allow k r t =>
    obtain ⟨hc, rfl⟩ := (allowKey_ok_iff allowed s s' k r t).1 hs
    refine ⟨(expect_allow_iff ha hI k r t).2 hc, ha.nk, ha.nt, ?_, ?_⟩
    · show (g.rel ++ [(k, t, r)]).Nodup
      rw [List.nodup_append]
      refine ⟨ha.nodup, by simp, ?_⟩
      intro a h1 b h2
      simp only [List.mem_singleton] at h2; subst h2
      intro e; subst e
      exact hc.2.2.1 ((ha.mem k t r).1 h1)
    · intro k' t' r'
      show (k', t', r') ∈ g.rel ++ [(k, t, r)] ↔ (t', r') ∈ updD s.pairs k (s.pairs k ++ [(t, r)]) k'
      rw [List.mem_append, List.mem_singleton, ha.mem]
      by_cases hk : k' = k
      · subst hk
        rw [updD_same, List.mem_append, List.mem_singleton]
        constructor
        · rintro (h | h)
          · exact Or.inl h
          · injection h with _ h; exact Or.inr h
        · rintro (h | h)
          · exact Or.inl h
          · exact Or.inr (by rw [h])
      · rw [updD_other _ _ _ _ hk]
        constructor
        · rintro (h | h)
          · exact h
          · injection h with h _; exact absurd h hk
        · exact Or.inl
  | remove k r t =>
    obtain ⟨hm, rfl⟩ := (removeKey_ok_iff hI s' k r t).1 hs
    refine ⟨(expect_remove_iff ha k r t).2 hm, ha.nk, ha.nt, ha.nodup.erase _, ?_⟩
    intro k' t' r'
    show (k', t', r') ∈ g.rel.erase (k, t, r) ↔ (t', r') ∈ updD s.pairs k ((s.pairs k).erase (t, r)) k'
    rw [ha.nodup.mem_erase_iff, ha.mem]
    by_cases hk : k' = k
    · subst hk
      rw [updD_same, (hI.pairsNodup k').mem_erase_iff]
      constructor
      · rintro ⟨hne, h⟩; exact ⟨fun e => hne (by rw [e]), h⟩
      · rintro ⟨hne, h⟩; exact ⟨fun e => hne (by injection e), h⟩
    · rw [updD_other _ _ _ _ hk]
      constructor
      · exact fun h => h.2
      · exact fun h => ⟨fun e => hk (by injection e), h⟩

/-- a call the model refuses is refused by the plain relation -/
theorem expect_err {g : Mon} {s : State} {nk nt : Nat} (ha : Agree g s nk nt) (hI : Inv s) {op : Op} {e : RErr}
    (hs : step allowed s op = .error e) : expect g op = false := by
  rw [← Bool.not_eq_true]
  intro h
  cases op with
  | allow k r t =>
    have : allowKey allowed s k r t = .ok _ :=
      (allowKey_ok_iff allowed s _ k r t).2 ⟨(expect_allow_iff ha hI k r t).1 h, rfl⟩
    rw [show step allowed s (.allow k r t) = allowKey allowed s k r t from rfl, this] at hs; cases hs
  | remove k r t =>
    have : removeKey s k r t = .ok _ :=
      (removeKey_ok_iff hI _ k r t).2 ⟨(expect_remove_iff ha k r t).1 h, rfl⟩
    rw [show step allowed s (.remove k r t) = removeKey s k r t from rfl, this] at hs; cases hs

/-- the monitor's decision is the model's, and the ghost it continues with describes the model's
next state -/
theorem decision_agrees {g : Mon} {s : State} {nk nt : Nat} (ha : Agree g s nk nt) (hI : Inv s) (op : Op) :
    expect g op = accepted s op ∧ Agree (follow g op (accepted s op)) (next allowed s op) nk nt := by
  unfold accepted next follow
  cases hs : step allowed s op with
  | ok s' =>
    obtain ⟨h1, h2⟩ := expect_ok ha hI hs
    exact ⟨h1, h2⟩
  | error e => exact ⟨expect_err ha hI hs, ha⟩

/-! ### the getters -/

theorem find_graph_none {κ β : Type} [BEq κ] [LawfulBEq κ] (l : List κ) (f : κ → Option β) (h : κ) (hf : f h = none) :
    (l.filterMap (fun k => (f k).map (fun v => (k, v)))).find? (fun x => x.1 == h) = none := by
  rw [List.find?_eq_none]
  intro x hx
  simp only [List.mem_filterMap, Option.map_eq_some_iff] at hx
  obtain ⟨k, _, v, hv, rfl⟩ := hx
  intro e
  simp only [beq_iff_eq] at e
  subst e
  rw [hf] at hv; cases hv

theorem find_graph_some {κ β : Type} [BEq κ] [LawfulBEq κ] (l : List κ) (f : κ → Option β) (h : κ) (v : β)
    (hm : h ∈ l) (hf : f h = some v) :
    (l.filterMap (fun k => (f k).map (fun v => (k, v)))).find? (fun x => x.1 == h) = some (h, v) := by
  induction l with
  | nil => cases hm
  | cons k ks ih =>
    rw [List.filterMap_cons]
    by_cases hk : k = h
    · subst hk; rw [hf]; simp
    · have hm' : h ∈ ks := by
        rcases List.mem_cons.1 hm with e | e
        · exact absurd e.symm hk
        · exact e
      cases hfk : f k with
      | none => exact ih hm'
      | some w =>
        simp only [Option.map_some]
        rw [List.find?_cons_of_neg (by simpa using hk)]
        exact ih hm'

end OZ.RegKeys.Mon
