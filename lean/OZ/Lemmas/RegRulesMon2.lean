import OZ.Lemmas.RegRulesMon
/-
Helper facts for the soundness proof of the `rules` monitor of C20 (OZ/Props/C20dMon.lean), part 2:
the extra invariant `IdsSorted` along histories, the rule under an id after each accepted model
operation, and the monitor's fingerprint test (`sameFp`: equal type, equal signer set, equal policy
set) against the model's stored fingerprint set.
-/
namespace OZ.RegRules.Mon
open OZ.Reg OZ.RegMon OZ.RegRules

/-! ### the rule under an id after each accepted operation -/

theorem gAt_added (s : State) (c n : Nat) (vu : Option Nat) (sg ps : List Nat) (i : Nat) :
    gAt (added s c n vu sg ps) i = if i = s.nextId then some ⟨s.nextId, c, n, vu, sg, ps⟩ else gAt s i := by
  rw [gAt_eq, gAt_eq]
  by_cases h : i = s.nextId
  · subst h; simp [added, storeRule, updD]
  · simp [added, storeRule, updD, h]

theorem gAt_setMeta (s : State) (id : Nat) (m' : Meta) (i : Nat) :
    gAt { s with info := updD s.info id (some m') } i =
      if i = id then some ⟨id, m'.ctx, m'.name, m'.validUntil, s.signers id, s.policies id⟩ else gAt s i := by
  rw [gAt_eq, gAt_eq]
  by_cases h : i = id
  · subst h; simp [updD]
  · simp [updD, h]

theorem gAt_removed (s : State) (id : Nat) (m : Meta) (i : Nat) :
    gAt (removed s id m) i = if i = id then none else gAt s i := by
  rw [gAt_eq, gAt_eq]
  by_cases h : i = id
  · subst h; simp [removed, updD]
  · simp [removed, updD, h]

theorem gAt_sgSet {s : State} {id : Nat} {m : Meta} (hm : s.info id = some m) (newS : List Nat) (i : Nat) :
    gAt (sgSet s id m newS) i =
      if i = id then some ⟨id, m.ctx, m.name, m.validUntil, newS, s.policies id⟩ else gAt s i := by
  rw [gAt_eq, gAt_eq]
  by_cases h : i = id
  · subst h; simp [sgSet, refp, updD, hm]
  · simp [sgSet, refp, updD, h]

theorem gAt_psSet {s : State} {id : Nat} {m : Meta} (hm : s.info id = some m) (newP : List Nat) (i : Nat) :
    gAt (psSet s id m newP) i =
      if i = id then some ⟨id, m.ctx, m.name, m.validUntil, s.signers id, newP⟩ else gAt s i := by
  rw [gAt_eq, gAt_eq]
  by_cases h : i = id
  · subst h; simp [psSet, refp, updD, hm]
  · simp [psSet, refp, updD, h]

theorem gAt_of_info {s : State} {id : Nat} {m : Meta} (hm : s.info id = some m) :
    gAt s id = some ⟨id, m.ctx, m.name, m.validUntil, s.signers id, s.policies id⟩ := by
  rw [gAt_eq, hm]; rfl

theorem gAt_of_info_none {s : State} {id : Nat} (hm : s.info id = none) : gAt s id = none := by
  rw [gAt_eq, hm]; rfl

/-! ### the per-type id vectors stay increasing -/

theorem idsSorted_init (now : Nat) : IdsSorted (init now) := fun _ => List.Pairwise.nil

theorem idsSorted_next {s : State} (hI : Inv s) (hS : IdsSorted s) (o : Op) : IdsSorted (next installOk s o) := by
  unfold next
  cases h : step installOk s o with
  | error e => exact hS
  | ok s' =>
    cases o with
    | add c n vu sg ps =>
      obtain ⟨_, rfl⟩ := (addContextRule_ok_iff installOk s s' c n vu sg ps).1 h
      intro c'
      show (updD s.ids c (s.ids c ++ [s.nextId]) c').Pairwise (· < ·)
      by_cases hc : c' = c
      · subst hc
        rw [updD_same, List.pairwise_append]
        refine ⟨hS c', List.pairwise_singleton _ _, ?_⟩
        intro a ha b hb
        rw [List.mem_singleton] at hb; subst hb
        obtain ⟨m, hm, _⟩ := (hI.r.idsMem c' a).1 ha
        exact hI.r.idLt a (by rw [hm]; rfl)
      · rw [updD_other _ _ _ _ hc]; exact hS c'
    | rename id n => obtain ⟨m, _, rfl⟩ := (updateName_ok_iff s s' id n).1 h; exact hS
    | revalid id vu => obtain ⟨m, _, _, rfl⟩ := (updateValidUntil_ok_iff s s' id vu).1 h; exact hS
    | remove id =>
      obtain ⟨m, _, _, rfl⟩ := (removeContextRule_ok_iff s s' id).1 h
      intro c'
      show (updD s.ids m.ctx (eraseLast (s.ids m.ctx) id) c').Pairwise (· < ·)
      by_cases hc : c' = m.ctx
      · subst hc; rw [updD_same]; exact (hS _).sublist (eraseLast_sublist _ _)
      · rw [updD_other _ _ _ _ hc]; exact hS c'
    | addSigner id sg => obtain ⟨m, _, _, _, rfl⟩ := (addSigner_ok_iff s s' id sg).1 h; exact hS
    | removeSigner id sg => obtain ⟨m, _, _, _, rfl⟩ := (removeSigner_ok_iff s s' id sg).1 h; exact hS
    | addPolicy id p => obtain ⟨m, _, _, _, _, rfl⟩ := (addPolicy_ok_iff installOk s s' id p).1 h; exact hS
    | removePolicy id p => obtain ⟨m, _, _, _, rfl⟩ := (removePolicy_ok_iff s s' id p).1 h; exact hS
    | advance n =>
      have h' : Except.ok { s with now := s.now + n } = Except.ok s' := h
      injection h' with h'; subst h'; exact hS

/-! ### the monitor's fingerprint test -/

/-- some rule of the plain list has the type, the signer set and the policy set `(c, sg, ps)` iff the
model's fingerprint of `(c, sg, ps)` is stored (for duplicate-free `sg`, `ps`) -/
theorem anyFp_iff {g : Mon} {s : State} (ha : Agree g s) (hI : Inv s) (c : Nat) {sg ps : List Nat}
    (hsg : sg.Nodup) (hps : ps.Nodup) :
    g.rules.any (sameFp c sg ps) = true ↔ (c, sortNat sg, sortNat ps) ∈ s.fps := by
  rw [ha.rules, List.any_eq_true, hI.f.fpsMem]
  constructor
  · rintro ⟨x, hx, hfp⟩
    have hx' := (mem_ghost hI x).1 hx
    refine ⟨x.id, ?_⟩
    rw [gAt_eq] at hx'
    unfold fpOf
    cases hm : s.info x.id with
    | none => rw [hm] at hx'; cases hx'
    | some m =>
      rw [hm] at hx'
      simp only [Option.map_some, Option.some.injEq] at hx' ⊢
      unfold sameFp at hfp
      simp only [Bool.and_eq_true, beq_iff_eq, sameSet_iff] at hfp
      obtain ⟨⟨h1, h2⟩, h3⟩ := hfp
      rw [← hx'] at h1 h2 h3
      simp only at h1 h2 h3
      rw [h1, (sortNat_eq_iff_mem (hI.r.sgNodup _) hsg).2 h2, (sortNat_eq_iff_mem (hI.r.psNodup _) hps).2 h3]
  · rintro ⟨id, hid⟩
    unfold fpOf at hid
    cases hm : s.info id with
    | none => rw [hm] at hid; cases hid
    | some m =>
      rw [hm] at hid
      simp only [Option.map_some, Option.some.injEq, Prod.mk.injEq] at hid
      obtain ⟨h1, h2, h3⟩ := hid
      refine ⟨⟨id, m.ctx, m.name, m.validUntil, s.signers id, s.policies id⟩, ?_, ?_⟩
      · rw [mem_ghost hI]; exact gAt_of_info hm
      · unfold sameFp
        simp only [Bool.and_eq_true, beq_iff_eq, sameSet_iff]
        exact ⟨⟨h1, (sortNat_eq_iff_mem (hI.r.sgNodup _) hsg).1 h2⟩, (sortNat_eq_iff_mem (hI.r.psNodup _) hps).1 h3⟩

theorem past_eq {g : Mon} {s : State} (ha : Agree g s) (vu : Option Nat) : past g vu = pastValidUntil s vu := by
  cases vu with
  | none => rfl
  | some v => simp [past, pastValidUntil, ha.now]

end OZ.RegRules.Mon
