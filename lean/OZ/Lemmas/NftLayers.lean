import OZ.Lemmas.NftBits
/-
Run-level simulation between two instances of the consecutive contract logic: any
implementation `B` of the ownership-bit set (`Impl B g W`) is simulated, call by call, by the
set-level instance on the abstracted state — same accepted calls, same rejected calls, same
return values, related states.
-/
namespace OZ.NftCons
open OZ.Host OZ.Nft

/-- both fail, or both succeed with related results -/
def RelE {α α' : Type} (R : α → α' → Prop) : Except Err α → Except Err α' → Prop
  | .ok a, .ok a' => R a a'
  | .error _, .error _ => True
  | _, _ => False

theorem RelE_bind {α α' γ γ' : Type} {R : α → α' → Prop} {Q : γ → γ' → Prop}
    {x : Except Err α} {x' : Except Err α'} {f : α → Except Err γ} {f' : α' → Except Err γ'}
    (hx : RelE R x x') (hf : ∀ a a', R a a' → RelE Q (f a) (f' a')) : RelE Q (x >>= f) (x' >>= f') := by
  cases x with
  | error e =>
    cases x' with
    | error e' => exact True.intro
    | ok a' => exact hx.elim
  | ok a =>
    cases x' with
    | error e' => exact hx.elim
    | ok a' => exact hf a a' hx

/-- the same first computation on both sides: its result and the fact that it succeeded are
available to the continuation -/
theorem RelE_bind_same {α γ γ' : Type} {Q : γ → γ' → Prop} {x : Except Err α}
    {f : α → Except Err γ} {f' : α → Except Err γ'}
    (hf : ∀ a, x = .ok a → RelE Q (f a) (f' a)) : RelE Q (x >>= f) (x >>= f') := by
  cases x with
  | error e => exact True.intro
  | ok a => exact hf a rfl

theorem RelE_eq {α : Type} (x : Except Err α) : RelE Eq x x := by
  cases x with
  | error e => exact True.intro
  | ok a => exact rfl

theorem RelE_of_eq {α : Type} {x y : Except Err α} (h : x = y) : RelE Eq x y := by
  subst h; exact RelE_eq x

section
variable {β : Type} {B : BitOps β} {g : β → Nat → Bool} {W : β → Prop}

/-- a state over bit store `β` and its set-level abstraction -/
structure SR (g : β → Nat → Bool) (W : β → Prop) (s : State β) (s' : SState) : Prop where
  core : s'.toCore = s.toCore
  mark : s'.mark = s.mark
  burned : s'.burned = s.burned
  bits : s'.bits = g s.bits
  wf : W s.bits
  lt : ∀ i, g s.bits i = true → i < s.nextId

theorem SR.nextId {s : State β} {s' : SState} (h : SR g W s s') : s'.nextId = s.nextId := by
  show s'.toCore.nextId = s.toCore.nextId; rw [h.core]

theorem SR.withCore {s : State β} {s' : SState} (h : SR g W s s') (c : Core) (hc : s.nextId ≤ c.nextId) :
    SR g W { s with toCore := c } { s' with toCore := c } :=
  ⟨rfl, h.mark, h.burned, h.bits, h.wf, fun i hi => Nat.lt_of_lt_of_le (h.lt i hi) hc⟩

theorem SR.withMark {s : State β} {s' : SState} (h : SR g W s s') (m : Nat → Option Nat) :
    SR g W { s with mark := m } { s' with mark := m } :=
  ⟨h.core, rfl, h.burned, h.bits, h.wf, h.lt⟩

theorem SR.withMark' {s : State β} {s' : SState} (h : SR g W s s') (i a : Nat) :
    SR g W { s with mark := upd s.mark i (some a) } { s' with mark := upd s'.mark i (some a) } :=
  ⟨h.core, by show upd s'.mark i (some a) = upd s.mark i (some a); rw [h.mark], h.burned, h.bits, h.wf, h.lt⟩

theorem ownerOf_sim (hI : Impl B g W) {s : State β} {s' : SState} (h : SR g W s s') (id : Nat) :
    ownerOf B s id = ownerOf setOps s' id := by
  unfold ownerOf
  rw [h.nextId, h.burned]
  by_cases h0 : s.nextId = 0
  · rw [if_pos h0, if_pos h0]
  · rw [if_neg h0, if_neg h0]
    by_cases h1 : s.burned id = true ∨ id > s.nextId - 1
    · rw [if_pos h1, if_pos h1]
    · rw [if_neg h1, if_neg h1]
      have hlt : id < s.nextId := by
        apply Classical.byContradiction; intro hn; exact h1 (Or.inr (by omega))
      rw [hI.find s.bits id s.nextId h.wf hlt h.lt]
      have : setOps.find s'.bits id (s.nextId - 1) = findFrom (g s.bits) id s.nextId := by
        show findFrom s'.bits id (s.nextId - 1 + 1) = _
        rw [h.bits, show s.nextId - 1 + 1 = s.nextId by omega]
      rw [this]
      cases findFrom (g s.bits) id s.nextId with
      | none => rfl
      | some j =>
        show markOwner s j = markOwner s' j
        unfold markOwner; rw [h.mark]

theorem setOwnership_sim (hI : Impl B g W) {s : State β} {s' : SState} (h : SR g W s s') (id : Nat) :
    RelE (SR g W) (setOwnershipInBucket B s id) (setOwnershipInBucket setOps s' id) := by
  unfold setOwnershipInBucket
  rw [h.nextId]
  by_cases h0 : id ≥ s.nextId
  · rw [if_pos h0, if_pos h0]; exact True.intro
  · rw [if_neg h0, if_neg h0]
    obtain ⟨b', hb', hw', hg'⟩ := hI.set s.bits id h.wf
    rw [hb']
    show SR g W { s with bits := b' } { s' with bits := upd s'.bits id true }
    refine ⟨h.core, h.mark, h.burned, ?_, hw', ?_⟩
    · show upd s'.bits id true = g b'
      rw [h.bits]; exact (funext hg').symm
    · intro i hi
      rw [hg' i] at hi
      by_cases e : i = id
      · subst e; show i < s.nextId; omega
      · rw [upd_other _ _ _ _ e] at hi; exact h.lt i hi

theorem setOwnerForPrev_sim (hI : Impl B g W) {s : State β} {s' : SState} (h : SR g W s s') (f id : Nat) :
    RelE (SR g W) (setOwnerForPreviousToken B s f id) (setOwnerForPreviousToken setOps s' f id) := by
  unfold setOwnerForPreviousToken
  rw [h.nextId, h.mark, h.burned]
  by_cases h0 : id = 0 ∨ id ≥ s.nextId
  · rw [if_pos h0, if_pos h0]; exact h
  · rw [if_neg h0, if_neg h0]
    by_cases h1 : (s.mark (id - 1)).isSome = true
    · rw [if_pos h1, if_pos h1]; exact h
    · rw [if_neg h1, if_neg h1]
      by_cases h2 : s.burned (id - 1) = true
      · rw [if_pos h2, if_pos h2]; exact h
      · rw [if_neg h2, if_neg h2]
        exact setOwnership_sim hI (s := { s with mark := upd s.mark (id - 1) (some f) })
          (s' := { toCore := s'.toCore, mark := upd s.mark (id - 1) (some f), bits := s'.bits, burned := s.burned })
          ⟨h.core, rfl, rfl, h.bits, h.wf, h.lt⟩ (id - 1)

theorem debit_sim (hI : Impl B g W) {s : State β} {s' : SState} (h : SR g W s s') (frm : Option Nat) (id : Nat) :
    RelE (SR g W) (debit B s frm id) (debit setOps s' frm id) := by
  unfold debit
  cases frm with
  | none => exact h
  | some f =>
    simp only
    rw [← ownerOf_sim hI h id, h.core]
    refine RelE_bind_same ?_
    intro o _
    refine RelE_bind_same ?_
    intro _ _
    refine RelE_bind_same ?_
    intro c hc
    obtain ⟨hcc, _⟩ := decreaseBalance_ok hc
    have hn : s.nextId ≤ (clearApproval c id).nextId := by
      subst hcc; exact Nat.le_refl _
    exact setOwnerForPrev_sim hI (h.withCore (clearApproval c id) hn) f id

theorem credit_sim (hI : Impl B g W) {s : State β} {s' : SState} (h : SR g W s s') (to : Option Nat) (id : Nat) :
    RelE (SR g W) (credit B s to id) (credit setOps s' to id) := by
  unfold credit
  cases to with
  | none =>
    show SR g W { s with mark := upd s.mark id none, burned := upd s.burned id true }
      { s' with mark := upd s'.mark id none, burned := upd s'.burned id true }
    exact ⟨h.core, by show upd s'.mark id none = upd s.mark id none; rw [h.mark],
      by show upd s'.burned id true = upd s.burned id true; rw [h.burned], h.bits, h.wf, h.lt⟩
  | some t =>
    simp only
    rw [h.core, h.mark]
    refine RelE_bind_same ?_
    intro c hc
    obtain ⟨hcc, _⟩ := increaseBalance_ok hc
    have hn : s.nextId ≤ c.nextId := by subst hcc; exact Nat.le_refl _
    have h1 := (h.withCore c hn).withMark (upd s.mark id (some t))
    exact setOwnership_sim hI h1 id

theorem update_sim (hI : Impl B g W) {s : State β} {s' : SState} (h : SR g W s s')
    (frm to : Option Nat) (id : Nat) :
    RelE (SR g W) (update B s frm to id) (update setOps s' frm to id) := by
  unfold update
  exact RelE_bind (debit_sim hI h frm id) (fun a a' ha => credit_sim hI ha to id)

theorem batchMint_sim (hI : Impl B g W) {s : State β} {s' : SState} (h : SR g W s s') (to n : Nat) :
    RelE (fun p p' => SR g W p.1 p'.1 ∧ p.2 = p'.2) (batchMint B s to n) (batchMint setOps s' to n) := by
  unfold batchMint
  by_cases h0 : n = 0 ∨ n > MAX_TOKENS_IN_BATCH
  · rw [if_pos h0, if_pos h0]; exact True.intro
  · rw [if_neg h0, if_neg h0, h.core]
    refine RelE_bind_same ?_
    intro p hp
    obtain ⟨c, first⟩ := p
    obtain ⟨hc, _, _⟩ := incrementTokenId_ok hp
    refine RelE_bind_same ?_
    intro c2 hc2
    obtain ⟨hcc2, _⟩ := increaseBalance_ok hc2
    have hn : s.nextId ≤ c2.nextId := by subst hcc2; subst hc; show s.nextId ≤ s.nextId + n; omega
    refine RelE_bind (setOwnership_sim hI (h.withCore c2 hn) (first + n - 1)) ?_
    intro a a' ha
    exact ⟨ha.withMark' (first + n - 1) to, rfl⟩

theorem transfer_sim (hI : Impl B g W) {s : State β} {s' : SState} (h : SR g W s s')
    (auth : List Nat) (f t id : Nat) :
    RelE (SR g W) (transfer B s auth f t id) (transfer setOps s' auth f t id) := by
  unfold transfer
  exact RelE_bind_same (fun _ _ => update_sim hI h _ _ id)

theorem transferFrom_sim (hI : Impl B g W) {s : State β} {s' : SState} (h : SR g W s s')
    (auth : List Nat) (sp f t id : Nat) :
    RelE (SR g W) (transferFrom B s auth sp f t id) (transferFrom setOps s' auth sp f t id) := by
  unfold transferFrom
  rw [h.core]
  exact RelE_bind_same (fun _ _ => RelE_bind_same (fun _ _ => update_sim hI h _ _ id))

theorem burn_sim (hI : Impl B g W) {s : State β} {s' : SState} (h : SR g W s s')
    (auth : List Nat) (f id : Nat) :
    RelE (SR g W) (burn B s auth f id) (burn setOps s' auth f id) := by
  unfold burn
  exact RelE_bind_same (fun _ _ => update_sim hI h _ _ id)

theorem burnFrom_sim (hI : Impl B g W) {s : State β} {s' : SState} (h : SR g W s s')
    (auth : List Nat) (sp f id : Nat) :
    RelE (SR g W) (burnFrom B s auth sp f id) (burnFrom setOps s' auth sp f id) := by
  unfold burnFrom
  rw [h.core]
  exact RelE_bind_same (fun _ _ => RelE_bind_same (fun _ _ => update_sim hI h _ _ id))

theorem approve_sim (hI : Impl B g W) (cfg : Cfg) {s : State β} {s' : SState} (h : SR g W s s')
    (auth : List Nat) (ap a id lu : Nat) :
    RelE (SR g W) (approve B cfg s auth ap a id lu) (approve setOps cfg s' auth ap a id lu) := by
  unfold approve
  rw [← ownerOf_sim hI h id, h.core]
  refine RelE_bind_same (fun _ _ => RelE_bind_same (fun o _ => RelE_bind_same ?_))
  intro c hc
  obtain ⟨_, hn⟩ := approveForOwner_fields hc
  exact h.withCore c (by rw [hn]; exact Nat.le_refl _)

/-- call by call: same outcome, same return value, related states -/
theorem apply_sim (hI : Impl B g W) (cfg : Cfg) {s : State β} {s' : SState} (h : SR g W s s')
    (auth : List Nat) (op : Op) :
    RelE (fun p p' => SR g W p.1 p'.1 ∧ p.2 = p'.2) (apply B cfg s auth op) (apply setOps cfg s' auth op) := by
  cases op with
  | mintSeq to => exact True.intro
  | mint to id => exact True.intro
  | batchMint to n =>
    exact RelE_bind (batchMint_sim hI h to n) (fun p p' hp => ⟨hp.1, by rw [hp.2]⟩)
  | transfer f t id => exact RelE_bind (transfer_sim hI h auth f t id) (fun a a' ha => ⟨ha, rfl⟩)
  | transferFrom sp f t id =>
    exact RelE_bind (transferFrom_sim hI h auth sp f t id) (fun a a' ha => ⟨ha, rfl⟩)
  | approve ap a id lu => exact RelE_bind (approve_sim hI cfg h auth ap a id lu) (fun a a' ha => ⟨ha, rfl⟩)
  | approveForAll o p lu =>
    show RelE _ (approveForAll cfg s.toCore auth o p lu >>= fun c => pure ({ s with toCore := c }, none))
      (approveForAll cfg s'.toCore auth o p lu >>= fun c => pure ({ s' with toCore := c }, none))
    rw [h.core]
    refine RelE_bind_same ?_
    intro c hc
    obtain ⟨_, hn, _⟩ := approveForAll_fields hc
    exact ⟨h.withCore c (by rw [hn]; exact Nat.le_refl _), rfl⟩
  | burn f id => exact RelE_bind (burn_sim hI h auth f id) (fun a a' ha => ⟨ha, rfl⟩)
  | burnFrom sp f id => exact RelE_bind (burnFrom_sim hI h auth sp f id) (fun a a' ha => ⟨ha, rfl⟩)
  | advance n =>
    show SR g W { s with toCore := s.toCore.advance n } { s' with toCore := s'.toCore.advance n } ∧ none = none
    rw [h.core]
    exact ⟨h.withCore _ (Nat.le_refl _), rfl⟩

theorem step_sim (hI : Impl B g W) (cfg : Cfg) {s : State β} {s' : SState} (h : SR g W s s')
    (x : List Nat × Op) : SR g W (step B cfg s x) (step setOps cfg s' x) := by
  have := apply_sim hI cfg h x.1 x.2
  unfold step
  cases h1 : apply B cfg s x.1 x.2 with
  | error e =>
    cases h2 : apply setOps cfg s' x.1 x.2 with
    | error e' => exact h
    | ok p' => rw [h1, h2] at this; exact this.elim
  | ok p =>
    cases h2 : apply setOps cfg s' x.1 x.2 with
    | error e' => rw [h1, h2] at this; exact this.elim
    | ok p' => rw [h1, h2] at this; exact this.1

/-- history by history -/
theorem run_sim (hI : Impl B g W) (cfg : Cfg) (ops : List (List Nat × Op)) {s : State β} {s' : SState}
    (h : SR g W s s') : SR g W (run B cfg s ops) (run setOps cfg s' ops) := by
  induction ops generalizing s s' with
  | nil => exact h
  | cons x xs ih => exact ih (step_sim hI cfg h x)

end

end OZ.NftCons
