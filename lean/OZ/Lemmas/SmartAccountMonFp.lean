import OZ.Lemmas.SmartAccountMonMgmt
/-
Helper lemmas for the soundness proof of the C03 monitor (OZ/Props/C03Mon.lean), part 4:
the fingerprint invariant `FpInv` of the model's store (every stored rule has its fingerprint in
the set; no two stored rules have equal fingerprints), kept by every accepted management
operation, and its consequence `fingerprintCheck_quiet` (site c03.fingerprint.duplicate).
-/
namespace OZ.SmartAccount.Mon
open OZ.SmartAccount

/-! ### fingerprints: equal up to order is an equivalence -/

def FpEqP (a b : Fp) : Prop :=
  a.ctype = b.ctype ∧ (∀ x, x ∈ a.signers ↔ x ∈ b.signers) ∧ (∀ x, x ∈ a.policies ↔ x ∈ b.policies)

theorem subsetB_iff {α : Type} [DecidableEq α] (a b : List α) : subsetB a b = true ↔ ∀ x ∈ a, x ∈ b := by
  unfold subsetB; simp

theorem fpEq_iff (a b : Fp) : fpEq a b = true ↔ FpEqP a b := by
  unfold fpEq FpEqP
  simp only [Bool.and_eq_true, decide_eq_true_eq, subsetB_iff]
  constructor
  · rintro ⟨⟨⟨⟨h1, h2⟩, h3⟩, h4⟩, h5⟩
    exact ⟨h1, fun x => ⟨h2 x, h3 x⟩, fun x => ⟨h4 x, h5 x⟩⟩
  · rintro ⟨h1, h2, h3⟩
    exact ⟨⟨⟨⟨h1, fun x => (h2 x).mp⟩, fun x => (h2 x).mpr⟩, fun x => (h3 x).mp⟩, fun x => (h3 x).mpr⟩

theorem fpEq_refl (a : Fp) : fpEq a a = true := (fpEq_iff a a).mpr ⟨rfl, fun _ => Iff.rfl, fun _ => Iff.rfl⟩

theorem fpEq_symm {a b : Fp} (h : fpEq a b = true) : fpEq b a = true := by
  obtain ⟨h1, h2, h3⟩ := (fpEq_iff a b).mp h
  exact (fpEq_iff b a).mpr ⟨h1.symm, fun x => (h2 x).symm, fun x => (h3 x).symm⟩

theorem fpEq_trans {a b c : Fp} (h : fpEq a b = true) (h' : fpEq b c = true) : fpEq a c = true := by
  obtain ⟨h1, h2, h3⟩ := (fpEq_iff a b).mp h
  obtain ⟨g1, g2, g3⟩ := (fpEq_iff b c).mp h'
  exact (fpEq_iff a c).mpr ⟨h1.trans g1, fun x => (h2 x).trans (g2 x), fun x => (h3 x).trans (g3 x)⟩

/-- the fingerprint of a rule as the monitor sees it -/
def gfp (g : GRule) : Fp := ⟨g.ty, g.signers, g.policies⟩

theorem sameSet_iff {α : Type} [DecidableEq α] (a b : List α) : sameSet a b = true ↔ ∀ x, x ∈ a ↔ x ∈ b := by
  unfold sameSet
  simp only [Bool.and_eq_true, List.all_eq_true, List.contains_iff_mem]
  constructor
  · rintro ⟨h1, h2⟩ x; exact ⟨h1 x, h2 x⟩
  · intro h; exact ⟨fun x => (h x).mp, fun x => (h x).mpr⟩

/-- the monitor's duplicate test is the model's fingerprint equality -/
theorem sameFp_eq (r q : GRule) : sameFp r q = fpEq (gfp q) (gfp r) := by
  rw [Bool.eq_iff_iff, fpEq_iff]
  unfold sameFp FpEqP gfp
  simp only [Bool.and_eq_true, beq_iff_eq, sameSet_iff]
  constructor
  · rintro ⟨⟨h1, h2⟩, h3⟩; exact ⟨h1, h2, h3⟩
  · rintro ⟨h1, h2, h3⟩; exact ⟨⟨h1, h2⟩, h3⟩

/-! ### the fingerprint invariant of the model's store -/

/-- every stored rule has its fingerprint in the set, and no two stored rules have equal fingerprints -/
structure FpInv (s : Store) : Prop where
  covered : ∀ j g, gAt s j = some g → s.fps.any (fpEq (gfp g)) = true
  distinct : ∀ j j' g g', gAt s j = some g → gAt s j' = some g' → j ≠ j' → fpEq (gfp g) (gfp g') = false

theorem fpInv_empty : FpInv Store.empty := by
  constructor
  · intro j g h; simp [gAt, getContextRule, Store.empty] at h
  · intro j j' g g' h; simp [gAt, getContextRule, Store.empty] at h

theorem any_false_of {l : List Fp} {a : Fp} (h : l.any (fpEq a) = false) {x : Fp} (hx : x ∈ l) : fpEq a x = false := by
  rw [List.any_eq_false] at h
  simpa using h x hx

theorem any_true_mem {l : List Fp} {a : Fp} (h : l.any (fpEq a) = true) : ∃ x ∈ l, fpEq a x = true := by
  rw [List.any_eq_true] at h; exact h

/-- a new rule whose fingerprint is not in the set -/
theorem fpInv_add {s s' : Store} (hF : FpInv s) (id : Nat) (g1 : GRule)
    (hg : ∀ j, gAt s' j = if j = id then some g1 else gAt s j)
    (hf : s'.fps = gfp g1 :: s.fps) (hn : s.fps.any (fpEq (gfp g1)) = false) : FpInv s' := by
  have hnew : ∀ j g, gAt s j = some g → fpEq (gfp g1) (gfp g) = false := by
    intro j g hj
    obtain ⟨x, hx, hxe⟩ := any_true_mem (hF.covered j g hj)
    cases hq : fpEq (gfp g1) (gfp g) with
    | false => rfl
    | true =>
      have := fpEq_trans hq hxe
      rw [any_false_of hn hx] at this; cases this
  constructor
  · intro j g h
    rw [hg j] at h
    rw [hf, List.any_cons]
    by_cases e : j = id
    · rw [if_pos e] at h; injection h with h; subst h
      rw [fpEq_refl]; rfl
    · rw [if_neg e] at h
      rw [hF.covered j g h]; simp
  · intro j j' g g' h h' hne
    rw [hg j] at h; rw [hg j'] at h'
    by_cases e : j = id
    · rw [if_pos e] at h; injection h with h; subst h
      have e' : j' ≠ id := fun x => hne (e.trans x.symm)
      rw [if_neg e'] at h'
      exact hnew j' g' h'
    · rw [if_neg e] at h
      by_cases e' : j' = id
      · rw [if_pos e'] at h'; injection h' with h'; subst h'
        cases hq : fpEq (gfp g) (gfp g1) with
        | false => rfl
        | true => have := fpEq_symm hq; rw [hnew j g h] at this; cases this
      · rw [if_neg e'] at h'
        exact hF.distinct j j' g g' h h' hne

/-- a rule removed together with its fingerprint -/
theorem fpInv_rm {s s' : Store} (hF : FpInv s) (id : Nat) (g0 : GRule) (h0 : gAt s id = some g0)
    (hg : ∀ j, gAt s' j = if j = id then none else gAt s j)
    (hf : s'.fps = s.fps.filter (fun x => !(fpEq (gfp g0) x))) : FpInv s' := by
  constructor
  · intro j g h
    rw [hg j] at h
    by_cases e : j = id
    · rw [if_pos e] at h; cases h
    · rw [if_neg e] at h
      obtain ⟨x, hx, hxe⟩ := any_true_mem (hF.covered j g h)
      rw [hf, List.any_eq_true]
      refine ⟨x, ?_, hxe⟩
      rw [List.mem_filter]
      refine ⟨hx, ?_⟩
      cases hq : fpEq (gfp g0) x with
      | false => rfl
      | true =>
        have := fpEq_trans hq (fpEq_symm hxe)
        rw [hF.distinct id j g0 g h0 h (fun x => e x.symm)] at this; cases this
  · intro j j' g g' h h' hne
    rw [hg j] at h; rw [hg j'] at h'
    by_cases e : j = id
    · rw [if_pos e] at h; cases h
    · rw [if_neg e] at h
      by_cases e' : j' = id
      · rw [if_pos e'] at h'; cases h'
      · rw [if_neg e'] at h'
        exact hF.distinct j j' g g' h h' hne

/-- a rule whose fingerprint is unchanged (new expiry / new name) -/
theorem fpInv_same {s s' : Store} (hF : FpInv s) (id : Nat) (g0 g1 : GRule) (h0 : gAt s id = some g0)
    (hsame : gfp g1 = gfp g0) (hg : ∀ j, gAt s' j = if j = id then some g1 else gAt s j)
    (hf : s'.fps = s.fps) : FpInv s' := by
  have key : ∀ j g, gAt s' j = some g → ∃ g', gAt s j = some g' ∧ gfp g = gfp g' := by
    intro j g h
    rw [hg j] at h
    by_cases e : j = id
    · rw [if_pos e] at h; injection h with h; subst h; subst e; exact ⟨g0, h0, hsame⟩
    · rw [if_neg e] at h; exact ⟨g, h, rfl⟩
  constructor
  · intro j g h
    obtain ⟨g', hg', e⟩ := key j g h
    rw [hf, e]; exact hF.covered j g' hg'
  · intro j j' g g' h h' hne
    obtain ⟨a, ha, ea⟩ := key j g h
    obtain ⟨b, hb, eb⟩ := key j' g' h'
    rw [ea, eb]; exact hF.distinct j j' a b ha hb hne

/-- a rule whose signers / policies change: new fingerprint set, old one removed -/
theorem fpInv_refp {s s' : Store} (hF : FpInv s) (id : Nat) (g0 g1 : GRule) (h0 : gAt s id = some g0)
    (hg : ∀ j, gAt s' j = if j = id then some g1 else gAt s j)
    (hf : s'.fps = (gfp g1 :: s.fps).filter (fun x => !(fpEq (gfp g0) x)))
    (hn : s.fps.any (fpEq (gfp g1)) = false) : FpInv s' := by
  -- the new fingerprint differs from every stored one, also from the old one of the same rule
  have hnew : ∀ j g, gAt s j = some g → fpEq (gfp g1) (gfp g) = false := by
    intro j g hj
    obtain ⟨x, hx, hxe⟩ := any_true_mem (hF.covered j g hj)
    cases hq : fpEq (gfp g1) (gfp g) with
    | false => rfl
    | true =>
      have := fpEq_trans hq hxe
      rw [any_false_of hn hx] at this; cases this
  have h01 : fpEq (gfp g0) (gfp g1) = false := by
    cases hq : fpEq (gfp g0) (gfp g1) with
    | false => rfl
    | true => have := fpEq_symm hq; rw [hnew id g0 h0] at this; cases this
  constructor
  · intro j g h
    rw [hg j] at h
    rw [hf, List.any_eq_true]
    by_cases e : j = id
    · rw [if_pos e] at h; injection h with h; subst h
      refine ⟨gfp g1, ?_, fpEq_refl _⟩
      rw [List.mem_filter]
      exact ⟨by simp, by rw [h01]; rfl⟩
    · rw [if_neg e] at h
      obtain ⟨x, hx, hxe⟩ := any_true_mem (hF.covered j g h)
      refine ⟨x, ?_, hxe⟩
      rw [List.mem_filter]
      refine ⟨List.mem_cons_of_mem _ hx, ?_⟩
      cases hq : fpEq (gfp g0) x with
      | false => rfl
      | true =>
        have := fpEq_trans hq (fpEq_symm hxe)
        rw [hF.distinct id j g0 g h0 h (fun x => e x.symm)] at this; cases this
  · intro j j' g g' h h' hne
    rw [hg j] at h; rw [hg j'] at h'
    by_cases e : j = id
    · rw [if_pos e] at h; injection h with h; subst h
      have e' : j' ≠ id := fun x => hne (e.trans x.symm)
      rw [if_neg e'] at h'
      exact hnew j' g' h'
    · rw [if_neg e] at h
      by_cases e' : j' = id
      · rw [if_pos e'] at h'; injection h' with h'; subst h'
        cases hq : fpEq (gfp g) (gfp g1) with
        | false => rfl
        | true => have := fpEq_symm hq; rw [hnew j g h] at this; cases this
      · rw [if_neg e'] at h'
        exact hF.distinct j j' g g' h h' hne

/-! ### every accepted management operation keeps the fingerprint invariant -/

theorem map_form_if {s : Store} {id : Nat} {g0 : GRule} (h0 : gAt s id = some g0) (f : GRule → GRule) (j : Nat) :
    (gAt s j).map (fun g => if g.id == id then f g else g) = if j = id then some (f g0) else gAt s j := by
  by_cases e : j = id
  · subst e; rw [if_pos rfl, h0]; simp [gAt_id h0]
  · rw [if_neg e]
    cases hq : gAt s j with
    | none => rfl
    | some g => have := gAt_id hq; simp [this, e]

theorem fpInv_setSigners {s : Store} (hF : FpInv s) {id : Nat} {r : Rule} (hg : getContextRule s id = .ok r)
    (L : List Signer) (hn : s.fps.any (fpEq ⟨r.ctype, L, r.policies⟩) = false) :
    FpInv (setSigners { s with fps := fpsAfter s r L r.policies } id L) := by
  refine fpInv_refp hF id (toG r) { toG r with signers := L } (gAt_of_get hg) ?_ rfl hn
  intro j
  rw [gAt_setSigners, gAt_fps]
  exact map_form_if (gAt_of_get hg) _ j

theorem fpInv_setPolicies {s : Store} (hF : FpInv s) {id : Nat} {r : Rule} (hg : getContextRule s id = .ok r)
    (L : List Nat) (hn : s.fps.any (fpEq ⟨r.ctype, r.signers, L⟩) = false) :
    FpInv (setPolicies { s with fps := fpsAfter s r r.signers L } id L) := by
  refine fpInv_refp hF id (toG r) { toG r with policies := L } (gAt_of_get hg) ?_ rfl hn
  intro j
  rw [gAt_setPolicies, gAt_fps]
  exact map_form_if (gAt_of_get hg) _ j

theorem addSigner_fpInv {s s' : Store} {id : Nat} {x : Signer} (hF : FpInv s) (h : addSigner s id x = .ok s') :
    FpInv s' := by
  obtain ⟨r, f, hg, hs', hf, hn⟩ := addSigner_shape h
  subst hs'; subst hf
  exact fpInv_setSigners hF hg _ hn

theorem removeSigner_fpInv {s s' : Store} {id : Nat} {x : Signer} (hF : FpInv s) (h : removeSigner s id x = .ok s') :
    FpInv s' := by
  obtain ⟨r, f, hg, hs', hf, hn⟩ := removeSigner_shape h
  subst hs'; subst hf
  exact fpInv_setSigners hF hg _ hn

theorem addPolicy_fpInv {s s' : Store} {id p : Nat} {io : Bool} (hF : FpInv s) (h : addPolicy s id p io = .ok s') :
    FpInv s' := by
  obtain ⟨r, f, hg, hs', hf, hn⟩ := addPolicy_shape h
  subst hs'; subst hf
  exact fpInv_setPolicies hF hg _ hn

theorem removePolicy_fpInv {s s' : Store} {id p : Nat} (hF : FpInv s) (h : removePolicy s id p = .ok s') :
    FpInv s' := by
  obtain ⟨r, f, hg, hs', hf, hn⟩ := removePolicy_shape h
  subst hs'; subst hf
  exact fpInv_setPolicies hF hg _ hn

theorem updateValidUntil_fpInv {s s' : Store} {now id : Nat} {vu : Option Nat} (hF : FpInv s)
    (h : updateValidUntil s now id vu = .ok s') : FpInv s' := by
  obtain ⟨r, hg, hs'⟩ := updateValidUntil_shape h
  subst hs'
  obtain ⟨m, hm, hc, _, _, hsg, hpl⟩ := getContextRule_fields hg
  refine fpInv_same hF id (toG r) _ (gAt_of_get hg) ?_ (fun j => gAt_setMeta s id _ j) rfl
  simp [gfp, toG, hsg, hpl]

theorem updateName_fpInv {s s' : Store} {id name : Nat} (hF : FpInv s) (h : updateName s id name = .ok s') :
    FpInv s' := by
  obtain ⟨r, hg, hs'⟩ := updateName_shape h
  subst hs'
  obtain ⟨m, hm, hc, _, _, hsg, hpl⟩ := getContextRule_fields hg
  refine fpInv_same hF id (toG r) _ (gAt_of_get hg) ?_ (fun j => gAt_setMeta s id _ j) rfl
  simp [gfp, toG, hsg, hpl]

theorem removeContextRule_fpInv {s s' : Store} {id : Nat} (hF : FpInv s) (h : removeContextRule s id = .ok s') :
    FpInv s' := by
  obtain ⟨r, f, hg, hs', hf⟩ := removeContextRule_shape h
  subst hs'; subst hf
  refine fpInv_rm hF id (toG r) (gAt_of_get hg) ?_ rfl
  intro j
  rw [gAt_eq, gAt_eq]
  unfold gOf dropRule
  by_cases e : j = id
  · subst e; simp [updN]
  · simp [updN, e]

theorem addContextRule_fpInv {s s' : Store} {now : Nat} {t : RuleType} {name : Nat} {vu : Option Nat}
    {sg : List Signer} {pm : List Nat} {io : Nat → Bool} {r : Rule} (hF : FpInv s)
    (h : addContextRule s now t name vu sg pm io = .ok (s', r)) : FpInv s' := by
  obtain ⟨⟨f, hs', hf, hn⟩, hr⟩ := addContextRule_shape h
  subst hs'; subst hf
  refine fpInv_add hF s.nextId ⟨s.nextId, t, vu, sg, mapKeys pm⟩ ?_ rfl hn
  intro j
  rw [gAt_eq, gAt_eq]
  unfold gOf storeRule
  by_cases e : j = s.nextId
  · subst e; simp [updN]
  · simp [updN, e]

/-! ### the monitor's duplicate-fingerprint check is silent -/

theorem fingerprintCheck_of_pairwise : ∀ (l : List GRule), l.Pairwise (fun a b => sameFp a b = false) →
    fingerprintCheck l = none
  | [], _ => rfl
  | r :: rest, h => by
    rw [List.pairwise_cons] at h
    unfold fingerprintCheck
    have : rest.find? (sameFp r) = none := by
      rw [List.find?_eq_none]
      intro q hq
      rw [h.1 q hq]; simp
    rw [this]
    exact fingerprintCheck_of_pairwise rest h.2

theorem fingerprintCheck_quiet {s : Store} (hF : FpInv s) : fingerprintCheck (allRules s) = none := by
  apply fingerprintCheck_of_pairwise
  refine (allRules_sorted s).imp_of_mem ?_
  intro a b ha hb hab
  unfold allRules at ha hb
  obtain ⟨i, _, hi⟩ := List.mem_filterMap.mp ha
  obtain ⟨j, _, hj⟩ := List.mem_filterMap.mp hb
  have hia := gAt_id hi
  have hjb := gAt_id hj
  rw [sameFp_eq]
  exact hF.distinct j i b a hj hi (by omega)

end OZ.SmartAccount.Mon
