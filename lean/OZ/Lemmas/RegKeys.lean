import OZ.Model.RegKeys
/-
Invariant and characterisation lemmas for the claim-issuer signing-key registry (C20).
-/
namespace OZ.RegKeys
open OZ.Reg

theorem updD_same {κ β : Type} [DecidableEq κ] (f : κ → β) (a : κ) (v : β) : updD f a v a = v := by
  simp [updD]

theorem updD_other {κ β : Type} [DecidableEq κ] (f : κ → β) (a b : κ) (v : β) (h : b ≠ a) :
    updD f a v b = f b := by
  simp [updD, h]

/-- what the storage layout must satisfy to represent a relation -/
structure Inv (s : State) : Prop where
  pairsNodup : ∀ k, (s.pairs k).Nodup
  topicsNodup : ∀ t, (s.topics t).Nodup
  twoWay : ∀ k t, k ∈ s.topics t ↔ ∃ r, (t, r) ∈ s.pairs k
  pairsLe : ∀ k, (s.pairs k).length ≤ MAX_REGISTRIES_PER_KEY
  topicsLe : ∀ t, (s.topics t).length ≤ MAX_KEYS_PER_TOPIC

theorem inv_init : Inv init := by
  constructor <;> intros <;> simp [init]

/-! ### allow_key -/

/-- the state an accepted `allow_key` produces -/
def allowed' (s : State) (k : Key) (r t : Nat) : State :=
  { topics := if k ∈ s.topics t then s.topics else updD s.topics t (s.topics t ++ [k]),
    pairs := updD s.pairs k (s.pairs k ++ [(t, r)]) }

theorem addTopicKey_ok {s s1 : State} {k : Key} {t : Nat} (h : addTopicKey s k t = .ok s1) :
    (k ∈ s.topics t ∨ (s.topics t).length < MAX_KEYS_PER_TOPIC) ∧ s1.pairs = s.pairs ∧
      s1.topics = if k ∈ s.topics t then s.topics else updD s.topics t (s.topics t ++ [k]) := by
  unfold addTopicKey at h
  by_cases hk : k ∈ s.topics t
  · have : isKeyAllowedForTopic s k t = true := by simpa [isKeyAllowedForTopic] using hk
    rw [if_pos this] at h
    injection h with h; subst h
    simp [hk]
  · have : ¬ isKeyAllowedForTopic s k t = true := by simpa [isKeyAllowedForTopic] using hk
    rw [if_neg this] at h
    split at h
    · cases h
    · injection h with h; subst h
      rename_i hl
      refine ⟨Or.inr (by omega), rfl, ?_⟩
      simp [hk]

theorem addTopicKey_err {s : State} {k : Key} {t : Nat} {e : RErr} (h : addTopicKey s k t = .error e) :
    k ∉ s.topics t ∧ (s.topics t).length ≥ MAX_KEYS_PER_TOPIC := by
  unfold addTopicKey at h
  by_cases hk : k ∈ s.topics t
  · have : isKeyAllowedForTopic s k t = true := by simpa [isKeyAllowedForTopic] using hk
    rw [if_pos this] at h; cases h
  · have : ¬ isKeyAllowedForTopic s k t = true := by simpa [isKeyAllowedForTopic] using hk
    rw [if_neg this] at h
    split at h
    · exact ⟨hk, by assumption⟩
    · cases h

theorem addPair_ok {s s' : State} {k : Key} {t r : Nat} (h : addPair s k t r = .ok s') :
    (t, r) ∉ s.pairs k ∧ (s.pairs k).length < MAX_REGISTRIES_PER_KEY ∧
      s' = { s with pairs := updD s.pairs k (s.pairs k ++ [(t, r)]) } := by
  unfold addPair at h
  split at h
  · cases h
  · rename_i hc
    split at h
    · cases h
    · rename_i hl
      injection h with h
      refine ⟨by simpa using hc, ?_, h.symm⟩
      simp at hl; omega

theorem addPair_err {s : State} {k : Key} {t r : Nat} {e : RErr} (h : addPair s k t r = .error e) :
    (t, r) ∈ s.pairs k ∨ (s.pairs k).length ≥ MAX_REGISTRIES_PER_KEY := by
  unfold addPair at h
  split at h
  · rename_i hc; exact Or.inl (by simpa using hc)
  · split at h
    · rename_i hl; right; simp at hl; omega
    · cases h

/-- `allow_key` is accepted exactly when the plain relation with its two documented capacities
accepts the triple, and then it stores exactly that triple -/
theorem allowKey_ok_iff (allowed : Nat → Nat → Bool) (s s' : State) (k : Key) (r t : Nat) :
    allowKey allowed s k r t = .ok s' ↔
      (k.1 ≠ 0 ∧ allowed r t = true ∧ (t, r) ∉ s.pairs k ∧
        (k ∈ s.topics t ∨ (s.topics t).length < MAX_KEYS_PER_TOPIC) ∧
        (s.pairs k).length < MAX_REGISTRIES_PER_KEY) ∧ s' = allowed' s k r t := by
  unfold allowKey
  constructor
  · intro h
    split at h
    · cases h
    · rename_i hk
      split at h
      · cases h
      · rename_i ha
        cases h1 : addTopicKey s k t with
        | error e => rw [h1] at h; cases h
        | ok s1 =>
          rw [h1] at h
          have h2 : addPair s1 k t r = .ok s' := h
          obtain ⟨ht, hp, htop⟩ := addTopicKey_ok h1
          obtain ⟨hn, hl, hs'⟩ := addPair_ok h2
          rw [hp] at hn hl hs'
          refine ⟨⟨hk, by simpa using ha, hn, ht, hl⟩, ?_⟩
          rw [hs']; unfold allowed'; rw [htop]
  · rintro ⟨⟨hk, ha, hn, ht, hl⟩, rfl⟩
    rw [if_neg hk, if_neg (by simp [ha])]
    cases h1 : addTopicKey s k t with
    | error e => obtain ⟨h1, h2⟩ := addTopicKey_err h1; cases ht with
      | inl h => exact absurd h h1
      | inr h => omega
    | ok s1 =>
      obtain ⟨_, hp, htop⟩ := addTopicKey_ok h1
      show addPair s1 k t r = .ok _
      cases h2 : addPair s1 k t r with
      | error e =>
        have := addPair_err h2; rw [hp] at this
        cases this with
        | inl h => exact absurd h hn
        | inr h => omega
      | ok s2 =>
        obtain ⟨_, _, hs2⟩ := addPair_ok h2
        rw [hs2, hp]; unfold allowed'; rw [htop]

theorem inv_allowed' {s : State} (hI : Inv s) {k : Key} {r t : Nat} (hn : (t, r) ∉ s.pairs k)
    (ht : k ∈ s.topics t ∨ (s.topics t).length < MAX_KEYS_PER_TOPIC)
    (hl : (s.pairs k).length < MAX_REGISTRIES_PER_KEY) : Inv (allowed' s k r t) := by
  have hpairs : ∀ k', (allowed' s k r t).pairs k' = if k' = k then s.pairs k ++ [(t, r)] else s.pairs k' := by
    intro k'; simp [allowed', updD]
  have htopics : ∀ t', (allowed' s k r t).topics t' =
      if t' = t ∧ k ∉ s.topics t then s.topics t ++ [k] else s.topics t' := by
    intro t'
    by_cases hk : k ∈ s.topics t
    · simp [allowed', hk]
    · by_cases htt : t' = t
      · subst htt; simp [allowed', hk, updD]
      · simp [allowed', hk, updD, htt]
  constructor
  · intro k'
    rw [hpairs]
    split
    · rw [List.nodup_append]
      refine ⟨hI.pairsNodup k, by simp, ?_⟩
      intro a ha b hb
      simp at hb; subst hb
      intro h; subst h; exact hn ha
    · exact hI.pairsNodup k'
  · intro t'
    rw [htopics]
    split
    · rename_i h
      rw [List.nodup_append]
      refine ⟨hI.topicsNodup t, by simp, ?_⟩
      intro a ha b hb
      simp at hb; subst hb
      intro hab; subst hab; exact h.2 ha
    · exact hI.topicsNodup t'
  · intro k' t'
    rw [htopics, hpairs]
    by_cases hk' : k' = k
    · subst hk'
      simp only [if_true]
      by_cases htt : t' = t
      · subst htt
        constructor
        · intro _; exact ⟨r, by simp⟩
        · intro _
          by_cases hk : k' ∈ s.topics t'
          · simp [hk]
          · simp [hk]
      · have : ¬ (t' = t ∧ k' ∉ s.topics t) := fun h => htt h.1
        rw [if_neg this, hI.twoWay]
        constructor
        · rintro ⟨r', h⟩; exact ⟨r', by simp [h]⟩
        · rintro ⟨r', h⟩
          simp at h
          cases h with
          | inl h => exact ⟨r', h⟩
          | inr h => exact absurd h.1 htt
    · rw [if_neg hk']
      split
      · rename_i h
        obtain ⟨rfl, hkn⟩ := h
        rw [List.mem_append]
        constructor
        · intro h
          cases h with
          | inl h => exact (hI.twoWay k' t').1 h
          | inr h => simp at h; exact absurd h hk'
        · intro h; exact Or.inl ((hI.twoWay k' t').2 h)
      · exact hI.twoWay k' t'
  · intro k'
    rw [hpairs]
    split
    · simp; omega
    · exact hI.pairsLe k'
  · intro t'
    rw [htopics]
    split
    · rename_i h
      simp
      cases ht with
      | inl h' => exact absurd h' h.2
      | inr h' => omega
    · exact hI.topicsLe t'

/-! ### remove_key -/

/-- the state an accepted `remove_key` produces -/
def removed' (s : State) (k : Key) (r t : Nat) : State :=
  { topics := if ((s.pairs k).erase (t, r)).any (fun p => p.1 == t) then s.topics
              else updD s.topics t ((s.topics t).erase k),
    pairs := updD s.pairs k ((s.pairs k).erase (t, r)) }

theorem dropTopicKey_ok {s s' : State} {k : Key} {t : Nat} (h : dropTopicKey s k t = .ok s') :
    s'.pairs = s.pairs ∧
      s'.topics = if (s.pairs k).any (fun p => p.1 == t) then s.topics
                  else updD s.topics t ((s.topics t).erase k) := by
  unfold dropTopicKey at h
  split at h
  · rename_i hc
    injection h with h; subst h; simp [hc]
  · rename_i hc
    split at h
    · cases h
    · split at h
      · cases h
      · injection h with h; subst h; simp [hc]

theorem State.ext' {a b : State} (h1 : a.topics = b.topics) (h2 : a.pairs = b.pairs) : a = b := by
  cases a; cases b; simp_all

/-- under the invariant `remove_key` is accepted exactly for the stored triples (its two
`expect`s are unreachable), and it removes exactly that triple -/
theorem removeKey_ok_iff {s : State} (hI : Inv s) (s' : State) (k : Key) (r t : Nat) :
    removeKey s k r t = .ok s' ↔ (t, r) ∈ s.pairs k ∧ s' = removed' s k r t := by
  unfold removeKey
  constructor
  · intro h
    split at h
    · cases h
    · split at h
      · cases h
      · rename_i hc
        have hm : (t, r) ∈ s.pairs k := by simpa using hc
        refine ⟨hm, ?_⟩
        obtain ⟨hp, ht⟩ := dropTopicKey_ok h
        apply State.ext'
        · rw [ht]; simp only [removed', updD_same]
        · rw [hp]; simp [removed']
  · rintro ⟨hm, rfl⟩
    have hne : s.pairs k ≠ [] := by intro h; rw [h] at hm; cases hm
    rw [if_neg hne, if_neg (by simpa using hm)]
    unfold dropTopicKey
    simp only [updD_same]
    split
    · rename_i h; simp [removed', h]
    · rename_i h
      have hk : k ∈ s.topics t := (hI.twoWay k t).2 ⟨r, hm⟩
      have hne2 : s.topics t ≠ [] := by intro h'; rw [h'] at hk; cases hk
      rw [if_neg hne2, if_neg (by simpa using hk)]
      simp [removed', h]

theorem inv_removed' {s : State} (hI : Inv s) {k : Key} {r t : Nat} (hm : (t, r) ∈ s.pairs k) :
    Inv (removed' s k r t) := by
  have hnd := hI.pairsNodup k
  have hpairs : ∀ k', (removed' s k r t).pairs k' = if k' = k then (s.pairs k).erase (t, r) else s.pairs k' := by
    intro k'; simp [removed', updD]
  have hany : ((s.pairs k).erase (t, r)).any (fun p => p.1 == t) = true ↔ ∃ r', r' ≠ r ∧ (t, r') ∈ s.pairs k := by
    rw [List.any_eq_true]
    constructor
    · rintro ⟨⟨t', r'⟩, hmem, hp⟩
      simp at hp; subst hp
      rw [hnd.mem_erase_iff] at hmem
      exact ⟨r', fun h => hmem.1 (by rw [h]), hmem.2⟩
    · rintro ⟨r', hne, hmem⟩
      exact ⟨(t, r'), by rw [hnd.mem_erase_iff]; exact ⟨fun h => hne (by injection h), hmem⟩, by simp⟩
  have htopics : ∀ t', (removed' s k r t).topics t' =
      if t' = t ∧ ((s.pairs k).erase (t, r)).any (fun p => p.1 == t) = false then (s.topics t).erase k
      else s.topics t' := by
    intro t'
    cases hB : ((s.pairs k).erase (t, r)).any (fun p => p.1 == t) with
    | true => simp [removed', hB]
    | false =>
      by_cases htt : t' = t
      · subst htt; simp [removed', hB, updD]
      · simp [removed', hB, updD, htt]
  constructor
  · intro k'
    rw [hpairs]; split
    · exact hnd.erase _
    · exact hI.pairsNodup k'
  · intro t'
    rw [htopics]; split
    · exact (hI.topicsNodup t).erase _
    · exact hI.topicsNodup t'
  · intro k' t'
    rw [htopics, hpairs]
    by_cases hk' : k' = k
    · subst hk'
      simp only [if_true]
      by_cases htt : t' = t
      · subst htt
        cases hB : ((s.pairs k').erase (t', r)).any (fun p => p.1 == t') with
        | true =>
          have hex := hany.1 hB
          simp only [and_false, if_false, Bool.true_eq_false]
          constructor
          · intro _
            obtain ⟨r', hne, hmem⟩ := hex
            exact ⟨r', by rw [hnd.mem_erase_iff]; exact ⟨fun h => hne (by injection h), hmem⟩⟩
          · intro _; exact (hI.twoWay k' t').2 ⟨r, hm⟩
        | false =>
          have hex : ¬ ∃ r', r' ≠ r ∧ (t', r') ∈ s.pairs k' := fun h => by
            have := hany.2 h; rw [hB] at this; cases this
          simp only [and_self, if_true]
          constructor
          · intro h
            rw [(hI.topicsNodup t').mem_erase_iff] at h
            exact absurd rfl h.1
          · rintro ⟨r', h⟩
            rw [hnd.mem_erase_iff] at h
            exact absurd ⟨r', fun e => h.1 (by rw [e]), h.2⟩ hex
      · have : ¬ (t' = t ∧ ((s.pairs k').erase (t, r)).any (fun p => p.1 == t) = false) := fun h => htt h.1
        rw [if_neg this, hI.twoWay]
        constructor
        · rintro ⟨r', h⟩
          exact ⟨r', by rw [hnd.mem_erase_iff]; exact ⟨fun e => htt (by injection e), h⟩⟩
        · rintro ⟨r', h⟩
          rw [hnd.mem_erase_iff] at h; exact ⟨r', h.2⟩
    · rw [if_neg hk']
      split
      · rename_i h
        obtain ⟨rfl, _⟩ := h
        rw [(hI.topicsNodup t').mem_erase_iff]
        constructor
        · intro h; exact (hI.twoWay k' t').1 h.2
        · intro h; exact ⟨hk', (hI.twoWay k' t').2 h⟩
      · exact hI.twoWay k' t'
  · intro k'
    rw [hpairs]; split
    · exact Nat.le_trans (List.erase_sublist.length_le) (hI.pairsLe k)
    · exact hI.pairsLe k'
  · intro t'
    rw [htopics]; split
    · exact Nat.le_trans (List.erase_sublist.length_le) (hI.topicsLe t)
    · exact hI.topicsLe t'

/-! ### histories -/

theorem inv_next (allowed : Nat → Nat → Bool) {s : State} (hI : Inv s) (o : Op) : Inv (next allowed s o) := by
  unfold next
  cases h : step allowed s o with
  | error e => exact hI
  | ok s' =>
    cases o with
    | allow k r t =>
      obtain ⟨⟨_, _, hn, ht, hl⟩, rfl⟩ := (allowKey_ok_iff allowed s s' k r t).1 h
      exact inv_allowed' hI hn ht hl
    | remove k r t =>
      obtain ⟨hm, rfl⟩ := (removeKey_ok_iff hI s' k r t).1 h
      exact inv_removed' hI hm

theorem inv_run (allowed : Nat → Nat → Bool) {s : State} (hI : Inv s) (ops : List Op) :
    Inv (run allowed s ops) := by
  induction ops generalizing s with
  | nil => exact hI
  | cons o os ih => exact ih (inv_next allowed hI o)

/-- reachable states -/
def Reachable (allowed : Nat → Nat → Bool) (s : State) : Prop := ∃ ops, s = run allowed init ops

theorem reachable_inv {allowed : Nat → Nat → Bool} {s : State} (h : Reachable allowed s) : Inv s := by
  obtain ⟨ops, rfl⟩ := h
  exact inv_run allowed inv_init ops

end OZ.RegKeys
