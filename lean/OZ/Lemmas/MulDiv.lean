import OZ.Lemmas.IntDiv
/-
The private rounding helpers of i128_fixed_point.rs / i256_fixed_point.rs compute the
exactly rounded quotient (or signal that it does not fit).
-/
namespace OZ.MulDiv

-- common prelude: all linear facts about `r / d`, then abstract the division terms.
-- (`omega` gets slow when handed all ~20 implications at once, so each call below first
-- clears the facts it does not need.)
set_option hygiene false in
macro "div_prelude" r:term "," d:term "," hd0:term : tactic => `(tactic| (
  obtain ⟨h1, h2, h3, h4, t1, t2, t3, f1, f2, c1, c2, b1, b2, z0⟩ := div_lin $r $d $hd0
  obtain ⟨s1, s2, s3, s4⟩ := tdiv_sign $r $d
  have hh := tdiv_half $r $d
  generalize Int.tdiv $r $d = t at *
  generalize Int.fdiv $r $d = f at *
  generalize Int.cdiv $r $d = c at *
  generalize $r % $d = m at *
  generalize $r / $d = q at *))

theorem checkedDiv128_spec (r d : Int) (hd0 : d ≠ 0) :
    ofOpt (checkedDiv128 r d) = if in128 (Int.tdiv r d) then .ok (Int.tdiv r d) else .none := by
  unfold checkedDiv128 chk128
  simp only [hd0, if_false]
  split <;> rfl

theorem divFloor128_spec (r d : Int) (hr : in128 r) (hd0 : d ≠ 0) :
    divFloor128 r d = if in128 (Int.fdiv r d) then .ok (Int.fdiv r d) else .none := by
  unfold divFloor128 checkedRemEuclid128 checkedDiv128 chk128
  div_prelude r, d, hd0
  unfold in128 I128_MIN I128_MAX at *
  by_cases hc : (r < 0 ∧ d > 0) ∨ (r > 0 ∧ d < 0)
  · have hne : ¬ (r = -170141183460469231731687303715884105728 ∧ d = -1) := by
      clear h1 h2 h3 h4 t1 t2 t3 f1 f2 c1 c2 b1 b2 z0 s1 s2 s3 s4 hh; omega
    have ht : -170141183460469231731687303715884105728 ≤ t ∧ t ≤ 170141183460469231731687303715884105727 := by
      clear h1 h2 h3 h4 t1 t2 t3 f1 f2 c1 c2 z0 s1 s2 hh; omega
    simp only [hc, hd0, hne, ht, if_true, if_false, and_self]
    by_cases hm : m > 0
    · have hf : t - 1 = f := by
        clear h1 h3 h4 t3 c1 c2 b1 b2 z0 s1 s2 s3 s4 hh ht hne; omega
      simp only [hm, if_true, hf]
      split <;> rfl
    · have hf : t - 0 = f := by
        clear h1 h3 h4 t2 t3 f2 c1 c2 b1 b2 z0 s1 s2 s3 s4 hh ht hne; omega
      simp only [hm, if_false, hf]
      split <;> rfl
  · simp only [hc, hd0, if_false]
    have hf : t = f := by
      clear h1 h3 h4 c1 c2 b1 b2 s1 s2 s3 s4 hh; omega
    rw [hf]
    split <;> rfl

theorem divCeil128_spec (r d : Int) (hr : in128 r) (hd0 : d ≠ 0) :
    divCeil128 r d = if in128 (Int.cdiv r d) then .ok (Int.cdiv r d) else .none := by
  by_cases hmin : r = -170141183460469231731687303715884105728 ∧ d = -1
  · obtain ⟨rfl, rfl⟩ := hmin; decide
  unfold divCeil128 checkedRemEuclid128 checkedDiv128 chk128
  div_prelude r, d, hd0
  unfold in128 I128_MIN I128_MAX at *
  by_cases hc : (r ≤ 0 ∧ d > 0) ∨ (r ≥ 0 ∧ d < 0)
  · simp only [hc, hd0, if_true, if_false]
    have hf : t = c := by
      clear h1 h3 h4 f1 f2 b1 b2 s1 s2 s3 s4 hh; omega
    rw [hf]
    split <;> rfl
  · by_cases ht : -170141183460469231731687303715884105728 ≤ t ∧ t ≤ 170141183460469231731687303715884105727
    · simp only [hc, hd0, hmin, ht, if_true, if_false, and_self]
      by_cases hm : m > 0
      · have hf : t + 1 = c := by
          clear h1 h3 h4 f1 f2 b1 b2 z0 s1 s2 s3 s4 hh ht; omega
        simp only [hm, if_true, hf]
        split <;> rfl
      · have hf : t + 0 = c := by
          clear h1 h3 h4 f1 f2 b1 b2 z0 s1 s2 s3 s4 hh ht; omega
        simp only [hm, if_false, hf]
        split <;> rfl
    · -- same signs, not MIN / -1: the truncated quotient always fits
      exfalso
      by_cases hd1 : d = -1 ∨ d = 1
      · -- |d| = 1: t = ±r, with r ≠ MIN when d = -1
        have : m = 0 := by clear h1 t1 t2 t3 f1 f2 c1 c2 b1 b2 z0 s1 s2 s3 s4 hh; omega
        rcases hd1 with rfl | rfl
        · have : t = q := by clear h1 h3 h4 f1 f2 c1 c2 b1 b2 z0 s1 s2 s3 s4 hh; omega
          have hq : -q = r := by rw [← h1]; omega
          clear h1 h3 h4 t1 t2 t3 f1 f2 c1 c2 b1 b2 z0 s1 s2 s3 s4 hh; omega
        · clear h1 h3 h4 t1 t2 t3 f1 f2 c1 c2 z0 s3 s4 hh; omega
      · have hd2 : 2 ≤ d ∨ d ≤ -2 := by
          clear h1 h3 h4 t1 t2 t3 f1 f2 c1 c2 b1 b2 z0 s1 s2 s3 s4 hh; omega
        have := hh hd2
        clear h1 h3 h4 t1 t2 t3 f1 f2 c1 c2 b1 b2 z0 hh; omega

/-! ### I256 helpers: exact, or a host trap exactly when the quotient leaves 256 bits -/

theorem div256_spec (r d : Int) (hd0 : d ≠ 0) :
    trap (div256 r d) = if in256 (Int.tdiv r d) then .ok (Int.tdiv r d) else .panic := by
  unfold div256 chk256
  simp only [hd0, if_false]
  by_cases h : in256 (Int.tdiv r d)
  · rw [if_pos h, if_pos h]; rfl
  · rw [if_neg h, if_neg h]; rfl

theorem divFloor256_spec (r d : Int) (hr : in256 r) (hd0 : d ≠ 0) :
    divFloor256 r d = if in256 (Int.fdiv r d) then .ok (Int.fdiv r d) else .panic := by
  unfold divFloor256 remEuclid256 div256 chk256 trap
  div_prelude r, d, hd0
  unfold in256 I256_MIN I256_MAX at *
  by_cases hc : (r < 0 ∧ d > 0) ∨ (r > 0 ∧ d < 0)
  · have hne : ¬ (r = -57896044618658097711785492504343953926634992332820282019728792003956564819968 ∧ d = -1) := by
      clear h1 h2 h3 h4 t1 t2 t3 f1 f2 c1 c2 b1 b2 z0 s1 s2 s3 s4 hh; omega
    have ht : -57896044618658097711785492504343953926634992332820282019728792003956564819968 ≤ t ∧ t ≤ 57896044618658097711785492504343953926634992332820282019728792003956564819967 := by
      clear h1 h2 h3 h4 t1 t2 t3 f1 f2 c1 c2 z0 s1 s2 hh; omega
    simp only [hc, hd0, hne, ht, if_true, if_false, and_self]
    by_cases hm : m > 0
    · have hf : t - 1 = f := by
        clear h1 h3 h4 t3 c1 c2 b1 b2 z0 s1 s2 s3 s4 hh ht hne; omega
      have hd2 : 2 ≤ d ∨ d ≤ -2 := by
        clear h1 t1 t2 t3 f1 f2 c1 c2 b1 b2 z0 s1 s2 s3 s4 hh ht hne hf; omega
      have := hh hd2
      have hfin : -57896044618658097711785492504343953926634992332820282019728792003956564819968 ≤ f ∧ f ≤ 57896044618658097711785492504343953926634992332820282019728792003956564819967 := by
        clear h1 h3 h4 t1 t2 t3 f1 f2 c1 c2 b1 b2 z0 s1 s2 hh hne; omega
      simp only [hm, if_true, hf, hfin, and_self]
    · have hf : t - 0 = f := by
        clear h1 h3 h4 t2 t3 f2 c1 c2 b1 b2 z0 s1 s2 s3 s4 hh ht hne; omega
      have hfin : -57896044618658097711785492504343953926634992332820282019728792003956564819968 ≤ f ∧ f ≤ 57896044618658097711785492504343953926634992332820282019728792003956564819967 := by
        clear h1 h3 h4 t1 t2 t3 f1 f2 c1 c2 b1 b2 z0 s1 s2 s3 s4 hh hne; omega
      simp only [hm, if_false, hf, hfin, if_true, and_self]
  · simp only [hc, hd0, if_false]
    have hf : t = f := by
      clear h1 h3 h4 c1 c2 b1 b2 s1 s2 s3 s4 hh; omega
    rw [hf]
    by_cases h : -57896044618658097711785492504343953926634992332820282019728792003956564819968 ≤ f ∧ f ≤ 57896044618658097711785492504343953926634992332820282019728792003956564819967
    · simp only [h, if_true, and_self]
    · simp only [h, if_false]

theorem divCeil256_spec (r d : Int) (hr : in256 r) (hd0 : d ≠ 0) :
    divCeil256 r d = if in256 (Int.cdiv r d) then .ok (Int.cdiv r d) else .panic := by
  by_cases hmin : r = -57896044618658097711785492504343953926634992332820282019728792003956564819968 ∧ d = -1
  · obtain ⟨rfl, rfl⟩ := hmin; decide
  unfold divCeil256 remEuclid256 div256 chk256 trap
  div_prelude r, d, hd0
  unfold in256 I256_MIN I256_MAX at *
  by_cases hc : (r ≤ 0 ∧ d > 0) ∨ (r ≥ 0 ∧ d < 0)
  · simp only [hc, hd0, if_true, if_false]
    have hf : t = c := by
      clear h1 h3 h4 f1 f2 b1 b2 s1 s2 s3 s4 hh; omega
    rw [hf]
    by_cases h : -57896044618658097711785492504343953926634992332820282019728792003956564819968 ≤ c ∧ c ≤ 57896044618658097711785492504343953926634992332820282019728792003956564819967
    · simp only [h, if_true, and_self]
    · simp only [h, if_false]
  · have ht : -57896044618658097711785492504343953926634992332820282019728792003956564819968 ≤ t ∧ t ≤ 57896044618658097711785492504343953926634992332820282019728792003956564819967 := by
      by_cases hd1 : d = -1 ∨ d = 1
      · have : m = 0 := by clear h1 t1 t2 t3 f1 f2 c1 c2 b1 b2 z0 s1 s2 s3 s4 hh; omega
        rcases hd1 with rfl | rfl
        · have : t = q := by clear h1 h3 h4 f1 f2 c1 c2 b1 b2 z0 s1 s2 s3 s4 hh; omega
          have hq : -q = r := by rw [← h1]; omega
          clear h1 h3 h4 t1 t2 t3 f1 f2 c1 c2 b1 b2 z0 s1 s2 s3 s4 hh; omega
        · clear h1 h3 h4 t1 t2 t3 f1 f2 c1 c2 z0 s3 s4 hh; omega
      · have hd2 : 2 ≤ d ∨ d ≤ -2 := by
          clear h1 h3 h4 t1 t2 t3 f1 f2 c1 c2 b1 b2 z0 s1 s2 s3 s4 hh; omega
        have := hh hd2
        clear h1 h3 h4 t1 t2 t3 f1 f2 c1 c2 b1 b2 z0 hh; omega
    simp only [hc, hd0, hmin, ht, if_true, if_false, and_self]
    by_cases hm : m > 0
    · have hf : t + 1 = c := by
        clear h1 h3 h4 f1 f2 b1 b2 z0 s1 s2 s3 s4 hh ht; omega
      have hd2 : 2 ≤ d ∨ d ≤ -2 := by
        clear h1 t1 t2 t3 f1 f2 c1 c2 b1 b2 z0 s1 s2 s3 s4 hh ht hf; omega
      have := hh hd2
      have hfin : -57896044618658097711785492504343953926634992332820282019728792003956564819968 ≤ c ∧ c ≤ 57896044618658097711785492504343953926634992332820282019728792003956564819967 := by
        clear h1 h3 h4 t1 t2 t3 f1 f2 c1 c2 b1 b2 z0 s3 s4 hh; omega
      simp only [hm, if_true, hf, hfin, and_self]
    · have hf : t + 0 = c := by
        clear h1 h3 h4 f1 f2 b1 b2 z0 s1 s2 s3 s4 hh ht; omega
      have hfin : -57896044618658097711785492504343953926634992332820282019728792003956564819968 ≤ c ∧ c ≤ 57896044618658097711785492504343953926634992332820282019728792003956564819967 := by
        clear h1 h3 h4 t1 t2 t3 f1 f2 c1 c2 b1 b2 z0 s1 s2 s3 s4 hh; omega
      simp only [hm, if_false, hf, hfin, if_true, and_self]

end OZ.MulDiv
