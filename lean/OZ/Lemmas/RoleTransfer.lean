import OZ.Model.RoleTransfer
/-
Helper lemmas for the role-transfer model: exact descriptions of each successful call and
the invariant that links the stored pending entry to the ghost log of offers.
-/
namespace OZ.RoleTransfer
open OZ.Host

theorem bind_eq_ok {ε α β} {x : Except ε α} {f : α → Except ε β} {v : β}
    (h : (x >>= f) = .ok v) : ∃ a, x = .ok a ∧ f a = .ok v := by
  cases x with
  | error e => cases h
  | ok a => exact ⟨a, rfl, h⟩

theorem enforceHolderAuth_ok {s : State} {auth : List Nat} {h : Nat}
    (hh : enforceHolderAuth s auth = .ok h) : s.holder = some h ∧ h ∈ auth := by
  unfold enforceHolderAuth at hh
  split at hh
  · cases hh
  · rename_i a ha
    split at hh
    · injection hh with e; subst e; exact ⟨ha, by assumption⟩
    · cases hh

theorem enforceHolderAuth_iff (s : State) (auth : List Nat) :
    (∃ h, enforceHolderAuth s auth = .ok h) ↔ ∃ h, s.holder = some h ∧ h ∈ auth := by
  constructor
  · rintro ⟨h, hh⟩; exact ⟨h, enforceHolderAuth_ok hh⟩
  · rintro ⟨h, h1, h2⟩
    refine ⟨h, ?_⟩
    unfold enforceHolderAuth; rw [h1]; simp only; rw [if_pos h2]

theorem get?_some {α} {t : Option (Temp α)} {now : Nat} {v : α} (h : Temp.get? t now = some v) :
    ∃ e, t = some e ∧ e.val = v ∧ now ≤ e.liveUntil := by
  unfold Temp.get? at h
  split at h
  · rename_i e
    split at h
    · injection h with h; exact ⟨e, rfl, h, by assumption⟩
    · cases h
  · cases h

theorem get?_live {α} (e : Temp α) (now : Nat) (h : now ≤ e.liveUntil) :
    Temp.get? (some e) now = some e.val := by
  unfold Temp.get?; simp only; rw [if_pos h]

theorem get?_dead {α} (e : Temp α) (now : Nat) (h : ¬ now ≤ e.liveUntil) :
    Temp.get? (some e) now = none := by
  unfold Temp.get?; simp only; rw [if_neg h]

theorem cancelPending_ok {s s' : State} {new : Nat} (h : cancelPending s new = .ok s') :
    Temp.get? s.pending s.now = some new ∧ s' = { s with pending := none } := by
  unfold cancelPending at h
  split at h
  · cases h
  · rename_i p hp
    split at h
    · cases h
    · rename_i hne
      injection h with h
      have : p = new := Decidable.of_not_not hne
      subst this
      exact ⟨hp, h.symm⟩

/-- a fresh entry extended by `extend_ttl(live_for, live_for)` lives exactly until the later
of `lu` and the end of the minimum lifetime -/
theorem fresh_extend (c : Cfg) (now new lu : Nat) (h1 : now ≤ lu) (h2 : lu ≤ c.maxLiveUntil now) :
    Temp.extend c (Temp.set c none now new) now (lu - now) (lu - now)
      = some ⟨new, max lu (now + c.minTempTtl - 1)⟩ := by
  have e1 : now + (lu - now) = lu := by omega
  simp only [Temp.extend, Temp.set, e1]
  rw [if_neg (by omega), if_neg (by omega)]
  by_cases hc : lu > now + c.minTempTtl - 1 ∧ now + c.minTempTtl - 1 - now ≤ lu - now
  · rw [if_pos hc]
    have : max lu (now + c.minTempTtl - 1) = lu := by omega
    rw [this]
  · rw [if_neg hc]
    have : max lu (now + c.minTempTtl - 1) = now + c.minTempTtl - 1 := by omega
    rw [this]

theorem storePending_fresh_ok {c : Cfg} {s s' : State} {new lu : Nat}
    (h : storePending c s none new lu = .ok s') :
    s.now ≤ lu ∧ lu ≤ c.maxLiveUntil s.now ∧
      s' = { s with pending := some ⟨new, max lu (s.now + c.minTempTtl - 1)⟩ } := by
  unfold storePending at h
  split at h
  · cases h
  · rename_i hb
    have h1 : s.now ≤ lu := by omega
    have h2 : lu ≤ c.maxLiveUntil s.now := by omega
    rw [fresh_extend c s.now new lu h1 h2] at h
    simp only [ofExtend] at h
    injection h with h
    exact ⟨h1, h2, h.symm⟩

theorem storePending_fresh_of_bounds (c : Cfg) (s : State) (new lu : Nat)
    (h1 : s.now ≤ lu) (h2 : lu ≤ c.maxLiveUntil s.now) :
    storePending c s none new lu
      = .ok { s with pending := some ⟨new, max lu (s.now + c.minTempTtl - 1)⟩ } := by
  unfold storePending
  rw [if_neg (by omega), fresh_extend c s.now new lu h1 h2]
  rfl

/-- exact description of a successful offer / cancellation -/
theorem offer_ok {c : Cfg} {s s' : State} {auth : List Nat} {new lu : Nat}
    (h : offer c s auth new lu = .ok s') :
    ∃ hd, s.holder = some hd ∧ hd ∈ auth ∧ s'.holder = s.holder ∧ s'.now = s.now ∧
      ((lu = 0 ∧ Temp.get? s.pending s.now = some new ∧ s'.pending = none) ∨
       (lu ≠ 0 ∧ s.now ≤ lu ∧ lu ≤ c.maxLiveUntil s.now ∧
          s'.pending = some ⟨new, max lu (s.now + c.minTempTtl - 1)⟩)) := by
  unfold offer at h
  obtain ⟨hd, hh, h⟩ := bind_eq_ok h
  obtain ⟨s1, h1, h⟩ := bind_eq_ok h
  injection h with h; subst h
  obtain ⟨ha, hb⟩ := enforceHolderAuth_ok hh
  refine ⟨hd, ha, hb, ?_⟩
  unfold transferRole at h1
  split at h1
  · rename_i h0
    obtain ⟨hg, he⟩ := cancelPending_ok h1
    subst he
    exact ⟨rfl, rfl, Or.inl ⟨h0, hg, rfl⟩⟩
  · rename_i h0
    obtain ⟨b1, b2, he⟩ := storePending_fresh_ok h1
    subst he
    exact ⟨rfl, rfl, Or.inr ⟨h0, b1, b2, rfl⟩⟩

theorem acceptTransfer_ok {s : State} {auth : List Nat} {r : State × Nat}
    (h : acceptTransfer s auth = .ok r) :
    Temp.get? s.pending s.now = some r.2 ∧ r.2 ∈ auth ∧
      r.1 = { s with pending := none, holder := some r.2 } := by
  unfold acceptTransfer at h
  split at h
  · cases h
  · rename_i p hp
    split at h
    · injection h with h; subst h; exact ⟨hp, by assumption, rfl⟩
    · cases h

/-- exact description of a successful accept -/
theorem accept_ok {f : Flavor} {s s' : State} {auth : List Nat} (h : accept f s auth = .ok s') :
    ∃ p, Temp.get? s.pending s.now = some p ∧ p ∈ auth ∧ s'.holder = some p ∧
      s'.pending = none ∧ s'.now = s.now ∧ (f = .admin → s.holder ≠ none) := by
  unfold accept at h
  cases f with
  | owner =>
    simp only at h
    unfold acceptOwner at h
    obtain ⟨r, hr, h⟩ := bind_eq_ok h
    injection h with h; subst h
    obtain ⟨h1, h2, h3⟩ := acceptTransfer_ok hr
    refine ⟨r.2, h1, h2, ?_, ?_, ?_, fun hf => by cases hf⟩ <;> simp [emit, h3]
  | admin =>
    simp only at h
    unfold acceptAdmin at h
    split at h
    · cases h
    · rename_i prev hp
      obtain ⟨r, hr, h⟩ := bind_eq_ok h
      injection h with h; subst h
      obtain ⟨h1, h2, h3⟩ := acceptTransfer_ok hr
      refine ⟨r.2, h1, h2, ?_, ?_, ?_, fun _ => by rw [hp]; simp⟩ <;> simp [emit, h3]

/-- accept succeeds whenever a live pending account authorizes (and, for the admin flavour,
an admin is set) -/
theorem accept_of_live {f : Flavor} {s : State} {auth : List Nat} {p : Nat}
    (hg : Temp.get? s.pending s.now = some p) (hp : p ∈ auth) (hh : f = .admin → s.holder ≠ none) :
    ∃ s', accept f s auth = .ok s' := by
  have ht : acceptTransfer s auth = .ok ({ s with pending := none, holder := some p }, p) := by
    unfold acceptTransfer; rw [hg]; simp only; rw [if_pos hp]
  unfold accept
  cases f with
  | owner =>
    simp only [acceptOwner, ht]
    exact ⟨_, rfl⟩
  | admin =>
    simp only [acceptAdmin]
    cases hs : s.holder with
    | none => exact absurd hs (hh rfl)
    | some prev =>
      simp only [ht]
      exact ⟨_, rfl⟩

theorem refuseIfPending_ok {s : State} {u : Unit} (h : refuseIfPending s = .ok u) :
    Temp.get? s.pending s.now = none := by
  unfold refuseIfPending at h
  split at h
  · cases h
  · assumption

/-- exact description of a successful renounce -/
theorem renounce_ok {s s' : State} {auth : List Nat} (h : renounce s auth = .ok s') :
    ∃ hd, s.holder = some hd ∧ hd ∈ auth ∧ Temp.get? s.pending s.now = none ∧
      s'.holder = none ∧ s'.pending = s.pending ∧ s'.now = s.now := by
  unfold renounce at h
  obtain ⟨hd, hh, h⟩ := bind_eq_ok h
  obtain ⟨u, hu, h⟩ := bind_eq_ok h
  injection h with h; subst h
  obtain ⟨ha, hb⟩ := enforceHolderAuth_ok hh
  exact ⟨hd, ha, hb, refuseIfPending_ok hu, rfl, rfl, rfl⟩

theorem guarded_ok {s s' : State} {auth : List Nat} (h : guarded s auth = .ok s') :
    s' = s ∧ ∃ hd, s.holder = some hd ∧ hd ∈ auth := by
  unfold guarded at h
  obtain ⟨hd, hh, h⟩ := bind_eq_ok h
  injection h with h
  exact ⟨h.symm, hd, enforceHolderAuth_ok hh⟩

/-! ### the invariant linking storage and ghost log -/

/-- the temporary entry an open offer corresponds to -/
def entryOf (c : Cfg) (o : Offer) : Temp Nat := ⟨o.acct, deadline c o⟩

structure Inv (c : Cfg) (x : GS) : Prop where
  /-- the pending entry is exactly the open offer of the log, with the lifetime `deadline` -/
  pend : x.s.pending = x.g.map (entryOf c)
  /-- facts recorded with the open offer -/
  wf : ∀ o, x.g = some o →
    o.lu ≠ 0 ∧ o.madeAt ≤ o.lu ∧ o.madeAt ≤ x.s.now ∧ (∃ h, o.holderThen = some h ∧ h ∈ o.auth) ∧
    (x.s.now ≤ deadline c o → x.s.holder = o.holderThen)

theorem init_inv (c : Cfg) (h : Option Nat) (now : Nat) : Inv c (initG h now) :=
  ⟨rfl, fun o ho => by cases ho⟩

/-- under the invariant, what `get` on the pending entry returns is decided by the log -/
theorem inv_get?_some {c : Cfg} {x : GS} (hi : Inv c x) {p : Nat}
    (h : Temp.get? x.s.pending x.s.now = some p) :
    ∃ o, x.g = some o ∧ o.acct = p ∧ x.s.now ≤ deadline c o := by
  obtain ⟨e, he, hv, hl⟩ := get?_some h
  rw [hi.pend] at he
  cases hg : x.g with
  | none => rw [hg] at he; cases he
  | some o =>
    rw [hg] at he
    simp only [Option.map_some, entryOf] at he
    injection he with he; subst he
    exact ⟨o, rfl, hv, hl⟩

theorem inv_get?_of_open {c : Cfg} {x : GS} (hi : Inv c x) {o : Offer} (hg : x.g = some o)
    (hl : x.s.now ≤ deadline c o) : Temp.get? x.s.pending x.s.now = some o.acct := by
  rw [hi.pend, hg]
  exact get?_live (entryOf c o) x.s.now hl

theorem inv_get?_none_of_closed {c : Cfg} {x : GS} (hi : Inv c x)
    (h : ∀ o, x.g = some o → ¬ x.s.now ≤ deadline c o) : Temp.get? x.s.pending x.s.now = none := by
  rw [hi.pend]
  cases hg : x.g with
  | none => rfl
  | some o => exact get?_dead (entryOf c o) x.s.now (h o hg)

/-- one call (accepted or rejected) preserves the invariant -/
theorem stepG_inv (c : Cfg) (f : Flavor) {x : GS} (hi : Inv c x) (a : List Nat × Op) :
    Inv c (stepG c f x a) := by
  obtain ⟨auth, op⟩ := a
  unfold stepG
  cases hx : apply c f x.s auth op with
  | error e => simpa [ghostStep] using hi
  | ok s' =>
    simp only
    cases op with
    | offer new lu =>
      obtain ⟨hd, h1, h2, h3, h4, h5⟩ := offer_ok hx
      rcases h5 with ⟨h0, -, hp⟩ | ⟨h0, b1, b2, hp⟩
      · refine ⟨?_, ?_⟩
        · simp [ghostStep, h0, hp]
        · intro o ho; simp [ghostStep, h0] at ho
      · refine ⟨?_, ?_⟩
        · simp [ghostStep, h0, hp, entryOf, deadline]
        · intro o ho
          simp only [ghostStep, if_true, if_neg h0, Option.some.injEq] at ho
          subst ho
          exact ⟨h0, b1, by simp only; omega, ⟨hd, h1, h2⟩, fun _ => h3⟩
    | accept =>
      obtain ⟨p, -, -, -, hp, -, -⟩ := accept_ok hx
      refine ⟨?_, ?_⟩
      · simp [ghostStep, hp]
      · intro o ho; simp [ghostStep] at ho
    | renounce =>
      obtain ⟨hd, -, -, hg, -, hp, hn⟩ := renounce_ok hx
      refine ⟨?_, ?_⟩
      · simp only [ghostStep, if_true]; rw [hp]; exact hi.pend
      · intro o ho
        simp only [ghostStep, if_true] at ho
        obtain ⟨w1, w2, w3, w4, -⟩ := hi.wf o ho
        refine ⟨w1, w2, by simp only; omega, w4, ?_⟩
        intro hl
        simp only at hl
        rw [hn] at hl
        rw [inv_get?_of_open hi ho hl] at hg
        cases hg
    | guarded =>
      obtain ⟨he, -⟩ := guarded_ok hx
      subst he
      exact ⟨by simpa [ghostStep] using hi.pend, fun o ho => hi.wf o (by simpa [ghostStep] using ho)⟩
    | advance n =>
      simp only [apply] at hx
      injection hx with hx; subst hx
      refine ⟨by simpa [ghostStep] using hi.pend, ?_⟩
      intro o ho
      simp only [ghostStep, if_true] at ho
      obtain ⟨w1, w2, w3, w4, w5⟩ := hi.wf o ho
      exact ⟨w1, w2, by simp only; omega, w4, fun hl => w5 (by simp only at hl; omega)⟩

theorem runG_inv (c : Cfg) (f : Flavor) {x : GS} (hi : Inv c x) (ops : List (List Nat × Op)) :
    Inv c (runG c f x ops) := by
  induction ops generalizing x with
  | nil => exact hi
  | cons a as ih => exact ih (stepG_inv c f hi a)

/-- every state reached from an initial one satisfies the invariant -/
theorem reachable_inv (c : Cfg) (f : Flavor) (h : Option Nat) (start : Nat)
    (ops : List (List Nat × Op)) : Inv c (runG c f (initG h start) ops) :=
  runG_inv c f (init_inv c h start) ops

/-- the model component of the ghosted run is the plain run -/
theorem runG_s (c : Cfg) (f : Flavor) (x : GS) (ops : List (List Nat × Op)) :
    (runG c f x ops).s = run c f x.s ops := by
  induction ops generalizing x with
  | nil => rfl
  | cons a as ih =>
    simp only [runG, run, List.foldl_cons] at *
    rw [ih]
    congr 1
    unfold stepG step
    cases apply c f x.s a.1 a.2 <;> rfl

/-- with no live pending entry and no new offer, there is never a pending entry again -/
theorem step_no_offer_pending {c : Cfg} {f : Flavor} {s : State} (hp : s.pending = none)
    (a : List Nat × Op) (ha : a.2.isOffer = false) : (step c f s a).pending = none := by
  obtain ⟨auth, op⟩ := a
  unfold step
  cases hx : apply c f s auth op with
  | error e => exact hp
  | ok s' =>
    simp only
    cases op with
    | offer new lu =>
      obtain ⟨hd, -, -, -, -, h5⟩ := offer_ok hx
      rcases h5 with ⟨-, -, h⟩ | ⟨h0, -⟩
      · exact h
      · simp [Op.isOffer, h0] at ha
    | accept => obtain ⟨p, -, -, -, h, -⟩ := accept_ok hx; exact h
    | renounce => obtain ⟨hd, -, -, -, -, h, -⟩ := renounce_ok hx; rw [h]; exact hp
    | guarded => obtain ⟨he, -⟩ := guarded_ok hx; subst he; exact hp
    | advance n => simp only [apply] at hx; injection hx with hx; subst hx; exact hp

theorem accept_none_fails (f : Flavor) {s : State} (hp : s.pending = none) (auth : List Nat) :
    ∃ e, accept f s auth = .error e := by
  cases h : accept f s auth with
  | error e => exact ⟨e, rfl⟩
  | ok s' =>
    obtain ⟨p, hg, -⟩ := accept_ok h
    rw [hp] at hg; cases hg

/-- the holder changes only through `accept` or `renounce` -/
theorem holder_change {c : Cfg} {f : Flavor} {s s' : State} {auth : List Nat} {op : Op}
    (h : apply c f s auth op = .ok s') (hne : s'.holder ≠ s.holder) :
    (op = .accept ∧ ∃ p, Temp.get? s.pending s.now = some p ∧ p ∈ auth ∧ s'.holder = some p) ∨
    (op = .renounce ∧ s'.holder = none ∧ Temp.get? s.pending s.now = none ∧
      ∃ hd, s.holder = some hd ∧ hd ∈ auth) := by
  cases op with
  | offer new lu => obtain ⟨hd, -, -, h3, -⟩ := offer_ok h; exact absurd h3 hne
  | accept =>
    obtain ⟨p, h1, h2, h3, -⟩ := accept_ok h
    exact Or.inl ⟨rfl, p, h1, h2, h3⟩
  | renounce =>
    obtain ⟨hd, h1, h2, h3, h4, -⟩ := renounce_ok h
    exact Or.inr ⟨rfl, h4, h3, hd, h1, h2⟩
  | guarded => obtain ⟨he, -⟩ := guarded_ok h; subst he; exact absurd rfl hne
  | advance n => simp only [apply] at h; injection h with h; subst h; exact absurd rfl hne

/-- once nobody holds the role (and the invariant holds), nobody ever does again -/
theorem holder_none_final (c : Cfg) (f : Flavor) (rest : List (List Nat × Op)) :
    ∀ x : GS, Inv c x → x.s.holder = none → (runG c f x rest).s.holder = none := by
  induction rest with
  | nil => intro x _ h; exact h
  | cons a as ih =>
    intro x hi hn
    simp only [runG, List.foldl_cons]
    refine ih _ (stepG_inv c f hi a) ?_
    obtain ⟨auth, op⟩ := a
    unfold stepG
    cases hx : apply c f x.s auth op with
    | error e => exact hn
    | ok s' =>
      simp only
      apply Classical.byContradiction
      intro hne
      rcases holder_change hx (by rw [hn]; exact hne) with ⟨-, p, hg, -, -⟩ | ⟨-, -, -, hd, h1, -⟩
      · obtain ⟨o, ho, -, hl⟩ := inv_get?_some hi hg
        obtain ⟨-, -, -, ⟨hd, w4, -⟩, w6⟩ := hi.wf o ho
        rw [w6 hl, w4] at hn; cases hn
      · rw [hn] at h1; cases h1

end OZ.RoleTransfer
