import OZ.Model.RegIrs
import OZ.Lemmas.RegList
/-
Invariant and characterisation lemmas for the identity registry storage (C20).
-/
namespace OZ.RegIrs
open OZ.Reg

structure Inv (s : State) : Prop where
  profDom : ∀ a, (s.profile a).isSome = (s.identity a).isSome
  recNone : ∀ a, (s.recoveredTo a).isSome = true → s.identity a = none
  cdLen : ∀ a p, s.profile a = some p → 1 ≤ p.countries.length ∧ p.countries.length ≤ MAX_COUNTRY_ENTRIES
  cdValid : ∀ a p, s.profile a = some p → p.countries.all validCD = true

theorem inv_init : Inv init := by
  constructor <;> intros <;> simp_all [init]

theorem isSome_false_iff {α : Type} (o : Option α) : o.isSome = false ↔ o = none := by
  cases o <;> simp

/-! ### characterisations of acceptance -/

theorem addIdentity_ok_iff (s s' : State) (a ident ty : Nat) (cs : List CD) :
    addIdentity s a ident ty cs = .ok s' ↔
      (s.recoveredTo a = none ∧ cs ≠ [] ∧ cs.length ≤ MAX_COUNTRY_ENTRIES ∧ cs.all validCD = true ∧
        s.identity a = none) ∧
      s' = { s with identity := updD s.identity a (some ident), profile := updD s.profile a (some ⟨ty, cs⟩) } := by
  unfold addIdentity
  cases h1 : s.recoveredTo a with
  | some x => simp
  | none =>
    simp only [Option.isSome_none, Bool.false_eq_true, if_false]
    by_cases h2 : cs = []
    · simp [h2]
    rw [if_neg h2]
    by_cases h3 : cs.length > MAX_COUNTRY_ENTRIES
    · rw [if_pos h3]; constructor
      · intro h; cases h
      · rintro ⟨⟨_, _, h, _⟩, _⟩; omega
    rw [if_neg h3]
    cases h4 : cs.all validCD with
    | false => simp
    | true =>
      simp only [Bool.not_true, Bool.false_eq_true, if_false]
      cases h5 : s.identity a with
      | some x => simp
      | none =>
        simp only [Option.isSome_none, Bool.false_eq_true, if_false]
        constructor
        · intro h; injection h with h; exact ⟨⟨(by first | trivial | rfl), h2, by omega, (by first | trivial | rfl), (by first | trivial | rfl)⟩, h.symm⟩
        · rintro ⟨_, rfl⟩; rfl

theorem modifyIdentity_ok_iff (s s' : State) (a ident : Nat) :
    modifyIdentity s a ident = .ok s' ↔
      (s.identity a).isSome = true ∧ s' = { s with identity := updD s.identity a (some ident) } := by
  unfold modifyIdentity
  cases h : s.identity a with
  | none => simp
  | some x =>
    simp only [Option.isNone_some, Bool.false_eq_true, if_false, Option.isSome_some, true_and]
    constructor
    · intro h'; injection h' with h'; exact h'.symm
    · rintro rfl; rfl

theorem removeIdentity_ok_iff {s : State} (hI : Inv s) (s' : State) (a : Nat) :
    removeIdentity s a = .ok s' ↔
      (s.identity a).isSome = true ∧
        s' = { s with identity := updD s.identity a none, profile := updD s.profile a none } := by
  unfold removeIdentity
  cases h : s.identity a with
  | none => simp
  | some x =>
    have hp : (s.profile a).isSome = true := by rw [hI.profDom, h]; rfl
    obtain ⟨p, hp⟩ := Option.isSome_iff_exists.1 hp
    simp only [Option.isNone_some, Bool.false_eq_true, if_false, hp, Option.isSome_some, true_and]
    constructor
    · intro h'; injection h' with h'; exact h'.symm
    · rintro rfl; rfl

theorem recoverIdentity_ok_iff {s : State} (hI : Inv s) (s' : State) (old new : Nat) :
    recoverIdentity s old new = .ok s' ↔
      ∃ ident p, s.recoveredTo new = none ∧ s.identity old = some ident ∧ s.identity new = none ∧
        s.profile old = some p ∧ s' = moveIdentity s old new ident p := by
  unfold recoverIdentity
  cases h1 : s.recoveredTo new with
  | some x => simp
  | none =>
    simp only [Option.isSome_none, Bool.false_eq_true, if_false]
    cases h2 : s.identity old with
    | none => simp
    | some ident =>
      simp only
      cases h3 : s.identity new with
      | some x => simp
      | none =>
        simp only [Option.isSome_none, Bool.false_eq_true, if_false]
        have hp : (s.profile old).isSome = true := by rw [hI.profDom, h2]; rfl
        obtain ⟨p, hp⟩ := Option.isSome_iff_exists.1 hp
        rw [hp]
        constructor
        · intro h; injection h with h; exact ⟨ident, p, (by first | trivial | rfl), (by first | trivial | rfl), (by first | trivial | rfl), (by first | trivial | rfl), h.symm⟩
        · rintro ⟨i', p', _, hi', _, hp', rfl⟩
          injection hi' with hi'; injection hp' with hp'; subst hi'; subst hp'; rfl

theorem addCountries_ok_iff (s s' : State) (a : Nat) (cs : List CD) :
    addCountryDataEntries s a cs = .ok s' ↔
      ∃ p, cs ≠ [] ∧ cs.all validCD = true ∧ s.profile a = some p ∧
        (p.countries ++ cs).length ≤ MAX_COUNTRY_ENTRIES ∧
        s' = { s with profile := updD s.profile a (some { p with countries := p.countries ++ cs }) } := by
  unfold addCountryDataEntries
  by_cases h1 : cs = []
  · simp [h1]
  rw [if_neg h1]
  cases h2 : cs.all validCD with
  | false => simp
  | true =>
    simp only [Bool.not_true, Bool.false_eq_true, if_false]
    cases h3 : s.profile a with
    | none => simp
    | some p =>
      simp only
      by_cases h4 : (p.countries ++ cs).length > MAX_COUNTRY_ENTRIES
      · rw [if_pos h4]; constructor
        · intro h; cases h
        · rintro ⟨p', _, _, hp', h, _⟩; injection hp' with hp'; subst hp'; omega
      · rw [if_neg h4]; constructor
        · intro h; injection h with h; exact ⟨p, h1, (by first | trivial | rfl), (by first | trivial | rfl), by omega, h.symm⟩
        · rintro ⟨p', _, _, hp', _, rfl⟩; injection hp' with hp'; subst hp'; rfl

theorem modifyCountry_ok_iff (s s' : State) (a i : Nat) (c : CD) :
    modifyCountryData s a i c = .ok s' ↔
      ∃ p, validCD c = true ∧ s.profile a = some p ∧ i < p.countries.length ∧
        s' = { s with profile := updD s.profile a (some { p with countries := p.countries.set i c }) } := by
  unfold modifyCountryData
  cases h1 : validCD c with
  | false => simp
  | true =>
    simp only [Bool.not_true, Bool.false_eq_true, if_false]
    cases h3 : s.profile a with
    | none => simp
    | some p =>
      simp only
      by_cases h4 : i ≥ p.countries.length
      · rw [if_pos h4]; constructor
        · intro h; cases h
        · rintro ⟨p', _, hp', h, _⟩; injection hp' with hp'; subst hp'; omega
      · rw [if_neg h4]; constructor
        · intro h; injection h with h; exact ⟨p, (by first | trivial | rfl), (by first | trivial | rfl), by omega, h.symm⟩
        · rintro ⟨p', _, hp', _, rfl⟩; injection hp' with hp'; subst hp'; rfl

theorem deleteCountry_ok_iff (s s' : State) (a i : Nat) :
    deleteCountryData s a i = .ok s' ↔
      ∃ p, s.profile a = some p ∧ p.countries.length ≠ 1 ∧ i < p.countries.length ∧
        s' = { s with profile := updD s.profile a (some { p with countries := p.countries.eraseIdx i }) } := by
  unfold deleteCountryData
  cases h3 : s.profile a with
  | none => simp
  | some p =>
    simp only
    by_cases h1 : p.countries.length = 1
    · rw [if_pos h1]; constructor
      · intro h; cases h
      · rintro ⟨p', hp', h, _⟩; injection hp' with hp'; subst hp'; exact absurd h1 h
    rw [if_neg h1]
    by_cases h4 : i ≥ p.countries.length
    · rw [if_pos h4]; constructor
      · intro h; cases h
      · rintro ⟨p', hp', _, h, _⟩; injection hp' with hp'; subst hp'; omega
    · rw [if_neg h4]; constructor
      · intro h; injection h with h; exact ⟨p, (by first | trivial | rfl), h1, by omega, h.symm⟩
      · rintro ⟨p', hp', _, _, rfl⟩; injection hp' with hp'; subst hp'; rfl

/-! ### the invariant along histories -/

/-- replacing the country list of a registered account by a valid list of 1..15 entries -/
theorem inv_setCountries {s : State} (hI : Inv s) {a : Nat} {p : Profile} (hp : s.profile a = some p)
    {cs : List CD} (h1 : 1 ≤ cs.length) (h2 : cs.length ≤ MAX_COUNTRY_ENTRIES) (hv : cs.all validCD = true) :
    Inv { s with profile := updD s.profile a (some { p with countries := cs }) } := by
  constructor
  · intro a'
    show (updD s.profile a _ a').isSome = _
    by_cases h : a' = a
    · subst h; rw [updD_same, ← hI.profDom, hp]; rfl
    · rw [updD_other _ _ _ _ h]; exact hI.profDom a'
  · exact hI.recNone
  · intro a' p' h
    change updD s.profile a _ a' = some p' at h
    by_cases ha : a' = a
    · subst ha; rw [updD_same] at h; injection h with h; subst h; exact ⟨h1, h2⟩
    · rw [updD_other _ _ _ _ ha] at h; exact hI.cdLen a' p' h
  · intro a' p' h
    change updD s.profile a _ a' = some p' at h
    by_cases ha : a' = a
    · subst ha; rw [updD_same] at h; injection h with h; subst h; exact hv
    · rw [updD_other _ _ _ _ ha] at h; exact hI.cdValid a' p' h

theorem all_set {l : List CD} (h : l.all validCD = true) (i : Nat) (c : CD) (hc : validCD c = true) :
    (l.set i c).all validCD = true := by
  rw [List.all_eq_true] at h ⊢
  intro x hx
  rcases List.mem_or_eq_of_mem_set hx with h' | h'
  · exact h x h'
  · rw [h']; exact hc

theorem all_eraseIdx {l : List CD} (h : l.all validCD = true) (i : Nat) : (l.eraseIdx i).all validCD = true := by
  rw [List.all_eq_true] at h ⊢
  intro x hx
  exact h x ((List.eraseIdx_sublist l i).subset hx)

theorem inv_next {s : State} (hI : Inv s) (o : Op) : Inv (next s o) := by
  unfold next
  cases hs : step s o with
  | error e => exact hI
  | ok s' =>
    cases o with
    | add a ident ty cs =>
      obtain ⟨⟨hr, hne, hl, hv, hid⟩, rfl⟩ := (addIdentity_ok_iff s s' a ident ty cs).1 hs
      constructor
      · intro a'
        show (updD s.profile a _ a').isSome = (updD s.identity a _ a').isSome
        by_cases h : a' = a
        · subst h; rw [updD_same, updD_same]; rfl
        · rw [updD_other _ _ _ _ h, updD_other _ _ _ _ h]; exact hI.profDom a'
      · intro a' h
        show updD s.identity a _ a' = none
        by_cases ha : a' = a
        · subst ha; change (s.recoveredTo a').isSome = true at h; rw [hr] at h; cases h
        · rw [updD_other _ _ _ _ ha]; exact hI.recNone a' h
      · intro a' p' h
        change updD s.profile a _ a' = some p' at h
        by_cases ha : a' = a
        · subst ha; rw [updD_same] at h; injection h with h; subst h
          exact ⟨List.length_pos_iff.2 hne, hl⟩
        · rw [updD_other _ _ _ _ ha] at h; exact hI.cdLen a' p' h
      · intro a' p' h
        change updD s.profile a _ a' = some p' at h
        by_cases ha : a' = a
        · subst ha; rw [updD_same] at h; injection h with h; subst h; exact hv
        · rw [updD_other _ _ _ _ ha] at h; exact hI.cdValid a' p' h
    | modify a ident =>
      obtain ⟨hsome, rfl⟩ := (modifyIdentity_ok_iff s s' a ident).1 hs
      constructor
      · intro a'
        show _ = (updD s.identity a _ a').isSome
        by_cases h : a' = a
        · subst h; rw [updD_same, hI.profDom, hsome]; rfl
        · rw [updD_other _ _ _ _ h]; exact hI.profDom a'
      · intro a' h
        show updD s.identity a _ a' = none
        by_cases ha : a' = a
        · subst ha; have := hI.recNone a' h; rw [this] at hsome; cases hsome
        · rw [updD_other _ _ _ _ ha]; exact hI.recNone a' h
      · exact hI.cdLen
      · exact hI.cdValid
    | remove a =>
      obtain ⟨_, rfl⟩ := (removeIdentity_ok_iff hI s' a).1 hs
      constructor
      · intro a'
        show (updD s.profile a none a').isSome = (updD s.identity a none a').isSome
        by_cases h : a' = a
        · subst h; rw [updD_same, updD_same]; rfl
        · rw [updD_other _ _ _ _ h, updD_other _ _ _ _ h]; exact hI.profDom a'
      · intro a' h
        show updD s.identity a none a' = none
        by_cases ha : a' = a
        · subst ha; rw [updD_same]
        · rw [updD_other _ _ _ _ ha]; exact hI.recNone a' h
      · intro a' p' h
        change updD s.profile a none a' = some p' at h
        by_cases ha : a' = a
        · subst ha; rw [updD_same] at h; cases h
        · rw [updD_other _ _ _ _ ha] at h; exact hI.cdLen a' p' h
      · intro a' p' h
        change updD s.profile a none a' = some p' at h
        by_cases ha : a' = a
        · subst ha; rw [updD_same] at h; cases h
        · rw [updD_other _ _ _ _ ha] at h; exact hI.cdValid a' p' h
    | recover old new =>
      obtain ⟨ident, p, hr, hio, hin, hp, rfl⟩ := (recoverIdentity_ok_iff hI s' old new).1 hs
      have hon : old ≠ new := by intro h; subst h; rw [hio] at hin; cases hin
      have hid : ∀ a', (moveIdentity s old new ident p).identity a' =
          if a' = old then none else if a' = new then some ident else s.identity a' := by
        intro a'; simp only [moveIdentity, updD]
      have hpr : ∀ a', (moveIdentity s old new ident p).profile a' =
          if a' = old then none else if a' = new then some p else s.profile a' := by
        intro a'; simp only [moveIdentity, updD]
      constructor
      · intro a'
        rw [hid, hpr]
        by_cases h1 : a' = old
        · rw [if_pos h1, if_pos h1]; rfl
        · by_cases h2 : a' = new
          · rw [if_neg h1, if_neg h1, if_pos h2, if_pos h2]; rfl
          · rw [if_neg h1, if_neg h1, if_neg h2, if_neg h2]; exact hI.profDom a'
      · intro a' h
        change (updD s.recoveredTo old (some new) a').isSome = true at h
        rw [hid]
        by_cases h1 : a' = old
        · rw [if_pos h1]
        · rw [if_neg h1]
          rw [updD_other _ _ _ _ h1] at h
          by_cases h2 : a' = new
          · subst h2; rw [hr] at h; cases h
          · rw [if_neg h2]; exact hI.recNone a' h
      · intro a' p' h
        rw [hpr] at h
        by_cases h1 : a' = old
        · rw [if_pos h1] at h; cases h
        · rw [if_neg h1] at h
          by_cases h2 : a' = new
          · rw [if_pos h2] at h; injection h with h; subst h; exact hI.cdLen old p hp
          · rw [if_neg h2] at h; exact hI.cdLen a' p' h
      · intro a' p' h
        rw [hpr] at h
        by_cases h1 : a' = old
        · rw [if_pos h1] at h; cases h
        · rw [if_neg h1] at h
          by_cases h2 : a' = new
          · rw [if_pos h2] at h; injection h with h; subst h; exact hI.cdValid old p hp
          · rw [if_neg h2] at h; exact hI.cdValid a' p' h
    | addCountries a cs =>
      obtain ⟨p, hne, hv, hp, hl, rfl⟩ := (addCountries_ok_iff s s' a cs).1 hs
      apply inv_setCountries hI hp _ hl
      · rw [List.all_append, hI.cdValid a p hp, hv]; rfl
      · have := (hI.cdLen a p hp).1; simp; omega
    | modifyCountry a i c =>
      obtain ⟨p, hv, hp, hi, rfl⟩ := (modifyCountry_ok_iff s s' a i c).1 hs
      apply inv_setCountries hI hp
      · rw [List.length_set]; exact (hI.cdLen a p hp).1
      · rw [List.length_set]; exact (hI.cdLen a p hp).2
      · exact all_set (hI.cdValid a p hp) i c hv
    | deleteCountry a i =>
      obtain ⟨p, hp, hne, hi, rfl⟩ := (deleteCountry_ok_iff s s' a i).1 hs
      have hlen := hI.cdLen a p hp
      apply inv_setCountries hI hp
      · rw [List.length_eraseIdx, if_pos hi]; omega
      · rw [List.length_eraseIdx, if_pos hi]; omega
      · exact all_eraseIdx (hI.cdValid a p hp) i

theorem inv_run {s : State} (hI : Inv s) (ops : List Op) : Inv (run s ops) := by
  induction ops generalizing s with
  | nil => exact hI
  | cons o os ih => exact ih (inv_next hI o)

/-- a `RecoveredTo` entry is never removed or overwritten -/
theorem recoveredTo_next {s : State} (hI : Inv s) (o : Op) (a b : Nat) (h : s.recoveredTo a = some b) :
    (next s o).recoveredTo a = some b := by
  unfold next
  cases hs : step s o with
  | error e => exact h
  | ok s' =>
    cases o with
    | add a' ident ty cs => obtain ⟨_, rfl⟩ := (addIdentity_ok_iff s s' a' ident ty cs).1 hs; exact h
    | modify a' ident => obtain ⟨_, rfl⟩ := (modifyIdentity_ok_iff s s' a' ident).1 hs; exact h
    | remove a' => obtain ⟨_, rfl⟩ := (removeIdentity_ok_iff hI s' a').1 hs; exact h
    | recover old new =>
      obtain ⟨ident, p, _, hio, _, _, rfl⟩ := (recoverIdentity_ok_iff hI s' old new).1 hs
      show updD s.recoveredTo old (some new) a = some b
      have : a ≠ old := by
        intro hao; subst hao
        have := hI.recNone a (by rw [h]; rfl); rw [this] at hio; cases hio
      rw [updD_other _ _ _ _ this]; exact h
    | addCountries a' cs => obtain ⟨p, _, _, _, _, rfl⟩ := (addCountries_ok_iff s s' a' cs).1 hs; exact h
    | modifyCountry a' i c => obtain ⟨p, _, _, _, rfl⟩ := (modifyCountry_ok_iff s s' a' i c).1 hs; exact h
    | deleteCountry a' i => obtain ⟨p, _, _, _, rfl⟩ := (deleteCountry_ok_iff s s' a' i).1 hs; exact h

theorem recoveredTo_run {s : State} (hI : Inv s) (ops : List Op) (a b : Nat) (h : s.recoveredTo a = some b) :
    (run s ops).recoveredTo a = some b := by
  induction ops generalizing s with
  | nil => exact h
  | cons o os ih => exact ih (inv_next hI o) (recoveredTo_next hI o a b h)

def Reachable (s : State) : Prop := ∃ ops, s = run init ops

theorem reachable_inv {s : State} (h : Reachable s) : Inv s := by
  obtain ⟨ops, rfl⟩ := h
  exact inv_run inv_init ops

end OZ.RegIrs
