import OZ.Model.IdentityMon
import OZ.Lemmas.IdentityHist
/-
Helper lemmas for the soundness of the C15 monitor (OZ/Props/C15Mon.lean), part 1: association
lists, and the agreement between the monitor's ghost state and the model's world, component by
component (registries, identity registry storage, identity stores, claim issuers), preserved by
every accepted operation.
-/
namespace OZ.Identity.Mon
open OZ.Host OZ.Identity OZ.ClaimIssuer

/-! ### association lists -/

section assoc
variable {κ ν : Type} [BEq κ] [LawfulBEq κ] [DecidableEq κ]

theorem assocGet_cons (p : κ × ν) (l : List (κ × ν)) (k : κ) :
    assocGet (p :: l) k = if p.1 = k then some p.2 else assocGet l k := by
  unfold assocGet
  rw [List.find?_cons]
  by_cases h : p.1 = k
  · rw [if_pos h]
    have : (p.1 == k) = true := by simpa using h
    rw [this]; rfl
  · rw [if_neg h]
    have : (p.1 == k) = false := by simpa using h
    rw [this]

theorem assocGet_filter (l : List (κ × ν)) (k k' : κ) :
    assocGet (l.filter (fun p => !(p.1 == k))) k' = if k' = k then none else assocGet l k' := by
  induction l with
  | nil => simp [assocGet]
  | cons p l ih =>
    by_cases hp : p.1 = k
    · have : (!(p.1 == k)) = false := by simp [hp]
      rw [List.filter_cons_of_neg (by simp [hp]), ih, assocGet_cons]
      by_cases hk : k' = k
      · rw [if_pos hk, if_pos hk]
      · rw [if_neg hk, if_neg hk, if_neg (by rw [hp]; exact fun c => hk c.symm)]
    · rw [List.filter_cons_of_pos (by simp [hp]), assocGet_cons, assocGet_cons, ih]
      by_cases hk : k' = k
      · rw [if_pos hk, if_pos hk, if_neg (by rw [hk]; exact hp)]
      · simp only [if_neg hk]

theorem assocGet_set (l : List (κ × ν)) (k : κ) (v : ν) (k' : κ) :
    assocGet (assocSet l k v) k' = if k' = k then some v else assocGet l k' := by
  unfold assocSet
  rw [assocGet_cons, assocGet_filter]
  by_cases hk : k' = k
  · simp only [if_pos hk, if_pos hk.symm]
  · have hk' : ¬ k = k' := fun c => hk c.symm
    simp only [if_neg hk, if_neg hk']

theorem assocGet_del (l : List (κ × ν)) (k k' : κ) :
    assocGet (assocDel l k) k' = if k' = k then none else assocGet l k' := assocGet_filter l k k'

/-- mapping the values (keys untouched) -/
theorem assocGet_map (l : List (κ × ν)) (F : κ × ν → κ × ν) (hF : ∀ p, (F p).1 = p.1) (k : κ) :
    assocGet (l.map F) k = (l.find? (fun p => p.1 == k)).map (fun p => (F p).2) := by
  induction l with
  | nil => rfl
  | cons p l ih =>
    rw [List.map_cons, assocGet_cons, List.find?_cons, hF]
    by_cases h : p.1 = k
    · rw [if_pos h]
      have : (p.1 == k) = true := by simpa using h
      rw [this]; rfl
    · rw [if_neg h]
      have : (p.1 == k) = false := by simpa using h
      rw [this]; exact ih

omit [DecidableEq κ] in
theorem find?_key {l : List (κ × ν)} {k : κ} {p : κ × ν} (h : l.find? (fun p => p.1 == k) = some p) :
    p.1 = k := by
  have := List.find?_some h
  simpa using this

end assoc

theorem upd_apply {β} (f : Nat → β) (a : Nat) (v : β) (x : Nat) : upd f a v x = if x = a then v else f x := rfl

/-! ### registries -/

structure RegAgree (req : List (Nat × Nat)) (trust : List ((Nat × Nat) × List Nat))
    (regs : Nat → Option Reg) : Prop where
  dom : ∀ r, (regs r).isSome = true ↔ r ∈ REGS
  inv : ∀ r reg, regs r = some reg → reg.Inv
  req : ∀ r t, (r, t) ∈ req ↔ ∃ reg, regs r = some reg ∧ t ∈ reg.topics
  trust : ∀ r i, assocGet trust (r, i) = (regs r).bind (fun reg => reg.issuerTopics i)

theorem topics_upd (regs : Nat → Option Reg) (r : Nat) (reg' : Reg) (x t : Nat) :
    (∃ reg, upd regs r (some reg') x = some reg ∧ t ∈ reg.topics) ↔
      if x = r then t ∈ reg'.topics else ∃ reg, regs x = some reg ∧ t ∈ reg.topics := by
  rw [upd_apply]
  by_cases h : x = r
  · rw [if_pos h, if_pos h]
    constructor
    · rintro ⟨reg, e, ht⟩; injection e with e; subst e; exact ht
    · intro ht; exact ⟨reg', rfl, ht⟩
  · rw [if_neg h, if_neg h]

theorem bind_upd {β} (regs : Nat → Option Reg) (r : Nat) (reg' : Reg) (x : Nat) (f : Reg → Option β) :
    (upd regs r (some reg') x).bind f = if x = r then f reg' else (regs x).bind f := by
  rw [upd_apply]
  by_cases h : x = r
  · rw [if_pos h, if_pos h]; rfl
  · rw [if_neg h, if_neg h]

theorem erase_eq_filter_ne {l : List Nat} (h : l.Nodup) (t : Nat) :
    l.erase t = l.filter (fun x => decide (x ≠ t)) := by
  rw [h.erase_eq_filter]
  congr 1
  funext x
  by_cases hx : x = t <;> simp [hx]

theorem regAgree_step {g : G} {regs : Nat → Option Reg} {r : Nat} {reg reg' : Reg} (rop : RegOp)
    (h : RegAgree g.req g.trust regs) (hr : regs r = some reg) (e : rop.apply reg = .ok reg') :
    RegAgree (updateReg g r rop).req (updateReg g r rop).trust (upd regs r (some reg')) := by
  have hinv := h.inv r reg hr
  have hdom : ∀ x, (upd regs r (some reg') x).isSome = true ↔ x ∈ REGS := by
    intro x
    rw [upd_apply]
    by_cases hx : x = r
    · rw [if_pos hx, hx]
      exact ⟨fun _ => (h.dom r).mp (by rw [hr]; rfl), fun _ => rfl⟩
    · rw [if_neg hx]; exact h.dom x
  have hinv' : ∀ x reg'', upd regs r (some reg') x = some reg'' → reg''.Inv := by
    intro x reg'' hx
    rw [upd_apply] at hx
    by_cases hxr : x = r
    · rw [if_pos hxr] at hx; injection hx with hx; subst hx; exact inv_apply rop hinv e
    · rw [if_neg hxr] at hx; exact h.inv x reg'' hx
  have hreq : ∀ t, (r, t) ∈ g.req ↔ t ∈ reg.topics := by
    intro t
    rw [h.req]
    constructor
    · rintro ⟨reg0, e0, ht⟩; rw [hr] at e0; injection e0 with e0; subst e0; exact ht
    · intro ht; exact ⟨reg, hr, ht⟩
  have htrust : ∀ i, assocGet g.trust (r, i) = reg.issuerTopics i := by
    intro i; rw [h.trust, hr]; rfl
  cases rop with
  | addTopic t =>
    obtain ⟨hnot, htop, hit, _⟩ := addTopic_spec e
    refine ⟨hdom, hinv', ?_, ?_⟩
    · intro x y
      rw [topics_upd]
      show (x, y) ∈ (r, t) :: g.req ↔ _
      rw [List.mem_cons]
      by_cases hx : x = r
      · subst hx
        rw [if_pos rfl, htop, List.mem_append, List.mem_singleton, hreq]
        constructor
        · rintro (h1 | h1)
          · injection h1 with _ h1; exact .inr h1
          · exact .inl h1
        · rintro (h1 | h1)
          · exact .inr h1
          · exact .inl (by rw [h1])
      · rw [if_neg hx, ← h.req]
        constructor
        · rintro (h1 | h1)
          · injection h1 with h1 _; exact absurd h1 hx
          · exact h1
        · exact .inr
    · intro x i
      rw [bind_upd]
      show assocGet g.trust (x, i) = _
      by_cases hx : x = r
      · subst hx; rw [if_pos rfl, hit]; exact htrust i
      · rw [if_neg hx]; exact h.trust x i
  | removeTopic t =>
    obtain ⟨_, htop, _, hit⟩ := removeTopic_spec hinv e
    refine ⟨hdom, hinv', ?_, ?_⟩
    · intro x y
      rw [topics_upd]
      show (x, y) ∈ g.req.filter (fun p => !(p == (r, t))) ↔ _
      rw [List.mem_filter]
      by_cases hx : x = r
      · subst hx
        rw [if_pos rfl, htop, hreq]
        constructor
        · rintro ⟨h1, h2⟩
          refine ⟨h1, fun c => ?_⟩
          subst c
          simp at h2
        · rintro ⟨h1, h2⟩
          exact ⟨h1, by simp [h2]⟩
      · rw [if_neg hx, ← h.req]
        constructor
        · exact fun h1 => h1.1
        · exact fun h1 => ⟨h1, by simp [hx]⟩
    · intro x i
      rw [bind_upd]
      show assocGet (g.trust.map (fun p => if p.1.1 = r then (p.1, p.2.filter (· ≠ t)) else p)) (x, i) = _
      rw [assocGet_map _ _ (by intro p; by_cases hp : p.1.1 = r <;> simp [hp])]
      have hget := h.trust x i
      unfold assocGet at hget
      cases hf : g.trust.find? (fun p => p.1 == (x, i)) with
      | none =>
        rw [hf] at hget
        simp only [Option.map_none] at hget ⊢
        by_cases hx : x = r
        · subst hx
          rw [if_pos rfl, hit, ← htrust i]
          unfold assocGet; rw [hf]; rfl
        · rw [if_neg hx]; exact hget
      | some p =>
        rw [hf] at hget
        have hk := find?_key hf
        simp only [Option.map_some] at hget ⊢
        by_cases hx : x = r
        · subst hx
          have hp1 : p.1.1 = x := by rw [hk]
          rw [if_pos rfl, if_pos hp1, hit]
          have h2 : reg.issuerTopics i = some p.2 := by rw [← htrust i]; unfold assocGet; rw [hf]; rfl
          rw [h2]
          simp only [Option.map_some]
          rw [erase_eq_filter_ne (hinv.issuerTopicsOk i _ h2).1]
        · have hp1 : ¬ p.1.1 = r := by rw [hk]; exact hx
          rw [if_neg hx, if_neg hp1]; exact hget
  | addIssuer i ts =>
    obtain ⟨_, htop, _, hit, _⟩ := addIssuer_spec e
    refine ⟨hdom, hinv', ?_, ?_⟩
    · intro x y
      rw [topics_upd]
      show (x, y) ∈ g.req ↔ _
      by_cases hx : x = r
      · subst hx; rw [if_pos rfl, htop]; exact hreq y
      · rw [if_neg hx]; exact h.req x y
    · intro x j
      rw [bind_upd]
      show assocGet (assocSet g.trust (r, i) ts) (x, j) = _
      rw [assocGet_set]
      by_cases hx : x = r
      · subst hx
        rw [if_pos rfl, hit, upd_apply]
        by_cases hj : j = i
        · subst hj; rw [if_pos rfl, if_pos rfl]
        · rw [if_neg hj, if_neg (show ¬ ((x, j) = (x, i)) by simp [hj])]; exact htrust j
      · rw [if_neg hx, if_neg (show ¬ ((x, j) = (r, i)) by simp [hx])]; exact h.trust x j
  | updateIssuer i ts =>
    obtain ⟨_, htop, _, hit, _⟩ := updateIssuer_spec e
    refine ⟨hdom, hinv', ?_, ?_⟩
    · intro x y
      rw [topics_upd]
      show (x, y) ∈ g.req ↔ _
      by_cases hx : x = r
      · subst hx; rw [if_pos rfl, htop]; exact hreq y
      · rw [if_neg hx]; exact h.req x y
    · intro x j
      rw [bind_upd]
      show assocGet (assocSet g.trust (r, i) ts) (x, j) = _
      rw [assocGet_set]
      by_cases hx : x = r
      · subst hx
        rw [if_pos rfl, hit, upd_apply]
        by_cases hj : j = i
        · subst hj; rw [if_pos rfl, if_pos rfl]
        · rw [if_neg hj, if_neg (show ¬ ((x, j) = (x, i)) by simp [hj])]; exact htrust j
      · rw [if_neg hx, if_neg (show ¬ ((x, j) = (r, i)) by simp [hx])]; exact h.trust x j
  | removeIssuer i =>
    obtain ⟨_, htop, _, hit⟩ := removeIssuer_spec e
    refine ⟨hdom, hinv', ?_, ?_⟩
    · intro x y
      rw [topics_upd]
      show (x, y) ∈ g.req ↔ _
      by_cases hx : x = r
      · subst hx; rw [if_pos rfl, htop]; exact hreq y
      · rw [if_neg hx]; exact h.req x y
    · intro x j
      rw [bind_upd]
      show assocGet (assocDel g.trust (r, i)) (x, j) = _
      rw [assocGet_del]
      by_cases hx : x = r
      · subst hx
        rw [if_pos rfl, hit, upd_apply]
        by_cases hj : j = i
        · subst hj; rw [if_pos rfl, if_pos rfl]
        · rw [if_neg hj, if_neg (show ¬ ((x, j) = (x, i)) by simp [hj])]; exact htrust j
      · rw [if_neg hx, if_neg (show ¬ ((x, j) = (r, i)) by simp [hx])]; exact h.trust x j

/-! ### identity registry storage -/

def IrsAgree (ident : List (Nat × Nat)) (irs : Irs) : Prop := ∀ a, assocGet ident a = irs.identity a

theorem irsAgree_add {ident : List (Nat × Nat)} {irs s' : Irs} {a d : Nat} (h : IrsAgree ident irs)
    (e : addIdentity irs a d = .ok s') : IrsAgree (assocSet ident a d) s' := by
  unfold addIdentity at e
  split at e
  · cases e
  · split at e
    · cases e
    · injection e with e; subst e
      intro x
      rw [assocGet_set]
      show _ = upd irs.identity a (some d) x
      rw [upd_apply]
      by_cases hx : x = a
      · rw [if_pos hx, if_pos hx]
      · rw [if_neg hx, if_neg hx]; exact h x

theorem irsAgree_modify {ident : List (Nat × Nat)} {irs s' : Irs} {a d : Nat} (h : IrsAgree ident irs)
    (e : modifyIdentity irs a d = .ok s') : IrsAgree (assocSet ident a d) s' := by
  unfold modifyIdentity at e
  split at e
  · cases e
  · injection e with e; subst e
    intro x
    rw [assocGet_set]
    show _ = upd irs.identity a (some d) x
    rw [upd_apply]
    by_cases hx : x = a
    · rw [if_pos hx, if_pos hx]
    · rw [if_neg hx, if_neg hx]; exact h x

theorem irsAgree_remove {ident : List (Nat × Nat)} {irs s' : Irs} {a : Nat} (h : IrsAgree ident irs)
    (e : removeIdentity irs a = .ok s') : IrsAgree (assocDel ident a) s' := by
  unfold removeIdentity at e
  split at e
  · cases e
  · injection e with e; subst e
    intro x
    rw [assocGet_del]
    show _ = upd irs.identity a none x
    rw [upd_apply]
    by_cases hx : x = a
    · rw [if_pos hx, if_pos hx]
    · rw [if_neg hx, if_neg hx]; exact h x

theorem irsAgree_recover {g : G} {irs s' : Irs} {a b : Nat} (h : IrsAgree g.ident irs)
    (e : recoverIdentity irs a b = .ok s') : IrsAgree (updateRecover g a b).ident s' := by
  unfold recoverIdentity at e
  split at e
  · cases e
  · split at e
    · cases e
    · rename_i d hd
      split at e
      · cases e
      · rename_i hb
        injection e with e; subst e
        have hga : assocGet g.ident a = some d := by rw [h a]; exact hd
        have hab : a ≠ b := by
          intro c; subst c; rw [hd] at hb; exact hb rfl
        unfold updateRecover
        rw [hga]
        intro x
        show assocGet (assocSet (assocDel g.ident a) b d) x = upd (upd irs.identity b (some d)) a none x
        rw [assocGet_set, assocGet_del, upd_apply, upd_apply]
        by_cases hxa : x = a
        · rw [if_pos hxa, if_neg (by rw [hxa]; exact hab), if_pos hxa]
        · rw [if_neg hxa, if_neg hxa]
          by_cases hxb : x = b
          · rw [if_pos hxb, if_pos hxb]
          · rw [if_neg hxb, if_neg hxb]; exact h x

/-! ### identity stores -/

/-- an identity store as the library keeps it: well-formed, duplicate-free index, and every stored
claim is indexed under the topic of its id -/
def Tight {σ : Type} (st : IdStore σ) : Prop :=
  st.WF ∧ st.IdxNodup ∧ ∀ i t, (st.claim i t).isSome = true → (i, t) ∈ st.byTopic t

structure IdsAgree (claims : List ((Nat × Nat × Nat) × Claim SymSig)) (loose : List Nat)
    (ids : Nat → Option (IdStore SymSig)) : Prop where
  dom : ∀ d, (ids d).isSome = true ↔ d ∈ IDS
  claims : ∀ d i t, assocGet claims (d, i, t) = (ids d).bind (fun st => st.claim i t)
  tight : ∀ d st, ids d = some st → d ∉ loose → Tight st

theorem upd2_apply {β} (f : Nat → Nat → β) (a b : Nat) (v : β) (x y : Nat) :
    upd2 f a b v x y = if x = a ∧ y = b then v else f x y := rfl

theorem idsAgree_set {claims claims' : List ((Nat × Nat × Nat) × Claim SymSig)} {loose loose' : List Nat}
    {ids : Nat → Option (IdStore SymSig)} {d : Nat} {st st' : IdStore SymSig}
    (h : IdsAgree claims loose ids) (hst : ids d = some st)
    (hc : ∀ d' i t, assocGet claims' (d', i, t) = if d' = d then st'.claim i t else assocGet claims (d', i, t))
    (hl : ∀ x, x ∈ loose → x ∈ loose')
    (ht : d ∉ loose' → Tight st → Tight st') : IdsAgree claims' loose' (upd ids d (some st')) := by
  refine ⟨?_, ?_, ?_⟩
  · intro x
    rw [upd_apply]
    by_cases hx : x = d
    · rw [if_pos hx, hx]
      exact ⟨fun _ => (h.dom d).mp (by rw [hst]; rfl), fun _ => rfl⟩
    · rw [if_neg hx]; exact h.dom x
  · intro x i t
    rw [hc, upd_apply]
    by_cases hx : x = d
    · rw [if_pos hx, if_pos hx]; rfl
    · rw [if_neg hx, if_neg hx]; exact h.claims x i t
  · intro x sx hx hnl
    rw [upd_apply] at hx
    by_cases hxd : x = d
    · rw [if_pos hxd] at hx
      injection hx with hx; subst hx
      subst hxd
      exact ht hnl (h.tight x st hst (fun c => hnl (hl x c)))
    · rw [if_neg hxd] at hx
      exact h.tight x sx hx (fun c => hnl (hl x c))

theorem storeClaim_claim {σ : Type} (st : IdStore σ) (c : Claim σ) :
    (storeClaim st c).claim = upd2 st.claim c.issuer c.topic (some c) := by
  unfold storeClaim; split <;> rfl

theorem rawPutSt_claim {σ : Type} (st : IdStore σ) (ci ct : Nat) (c : Claim σ) :
    (rawPutSt st ci ct c).claim = upd2 st.claim ci ct (some c) := by
  unfold rawPutSt; split <;> rfl

theorem mem_indexAdd {σ : Type} {st : IdStore σ} {topic : Nat} {id0 id : Nat × Nat} {t : Nat} :
    id ∈ (indexAdd st topic id0).byTopic t ↔ id ∈ st.byTopic t ∨ (t = topic ∧ id = id0) := by
  unfold indexAdd
  show id ∈ upd st.byTopic topic (st.byTopic topic ++ [id0]) t ↔ _
  rw [upd_apply]
  by_cases ht : t = topic
  · subst ht
    rw [if_pos rfl, List.mem_append, List.mem_singleton]
    constructor
    · rintro (h | h)
      · exact .inl h
      · exact .inr ⟨rfl, h⟩
    · rintro (h | ⟨_, h⟩)
      · exact .inl h
      · exact .inr h
  · rw [if_neg ht]
    constructor
    · exact .inl
    · rintro (h | ⟨h, _⟩)
      · exact h
      · exact absurd h ht

theorem tight_storeClaim {σ : Type} {st : IdStore σ} (c : Claim σ) (h : Tight st) : Tight (storeClaim st c) := by
  obtain ⟨hw, hn, hx⟩ := h
  refine ⟨wf_storeClaim c hw, idxNodup_storeClaim c hw hn, ?_⟩
  intro i t hs
  rw [storeClaim_claim, upd2_apply] at hs
  unfold storeClaim
  by_cases hc : (st.claim c.issuer c.topic).isSome = true
  · rw [if_pos hc]
    show (i, t) ∈ st.byTopic t
    by_cases e : i = c.issuer ∧ t = c.topic
    · rw [e.1, e.2]; exact hx _ _ hc
    · rw [if_neg e] at hs; exact hx i t hs
  · rw [if_neg hc, mem_indexAdd]
    by_cases e : i = c.issuer ∧ t = c.topic
    · exact .inr ⟨e.2, by rw [e.1, e.2]⟩
    · rw [if_neg e] at hs; exact .inl (hx i t hs)

theorem tight_rawPut {σ : Type} {st : IdStore σ} (ci ct : Nat) (c : Claim σ) (h : Tight st) :
    Tight (rawPutSt st ci ct c) := by
  obtain ⟨hw, hn, hx⟩ := h
  refine ⟨wf_rawPut ci ct c hw, idxNodup_rawPut ci ct c hn, ?_⟩
  intro i t hs
  rw [rawPutSt_claim, upd2_apply] at hs
  unfold rawPutSt
  by_cases hc : (st.byTopic ct).contains (ci, ct) = true
  · rw [if_pos hc]
    show (i, t) ∈ st.byTopic t
    by_cases e : i = ci ∧ t = ct
    · rw [e.1, e.2]; exact List.contains_iff_mem.mp hc
    · rw [if_neg e] at hs; exact hx i t hs
  · rw [if_neg hc, mem_indexAdd]
    by_cases e : i = ci ∧ t = ct
    · exact .inr ⟨e.2, by rw [e.1, e.2]⟩
    · rw [if_neg e] at hs; exact .inl (hx i t hs)

theorem mem_indexRemove_of_ne {σ : Type} {st : IdStore σ} {topic : Nat} {id0 id : Nat × Nat} {t : Nat}
    (h : id ∈ st.byTopic t) (hne : id ≠ id0) : id ∈ (indexRemove st topic id0).byTopic t := by
  unfold indexRemove
  by_cases hc : (st.byTopic topic).contains id0 = true
  · rw [if_pos hc]
    show id ∈ upd st.byTopic topic ((st.byTopic topic).erase id0) t
    rw [upd_apply]
    by_cases ht : t = topic
    · rw [if_pos ht, ← ht]; exact (List.mem_erase_of_ne hne).mpr h
    · rw [if_neg ht]; exact h
  · rw [if_neg hc]; exact h

/-- the third component of `Tight` after deleting the claim of the id `(ci, ct)` and de-indexing that
id under any topic -/
theorem tight3_remove {σ : Type} {st : IdStore σ} {ci ct topic : Nat}
    (hx : ∀ i t, (st.claim i t).isSome = true → (i, t) ∈ st.byTopic t) :
    ∀ i t, ((indexRemove { st with claim := upd2 st.claim ci ct none } topic (ci, ct)).claim i t).isSome = true →
      (i, t) ∈ (indexRemove { st with claim := upd2 st.claim ci ct none } topic (ci, ct)).byTopic t := by
  intro i t hs
  rw [indexRemove_claim] at hs
  have hs' : (upd2 st.claim ci ct none i t).isSome = true := hs
  rw [upd2_apply] at hs'
  by_cases e : i = ci ∧ t = ct
  · rw [if_pos e] at hs'; cases hs'
  · rw [if_neg e] at hs'
    apply mem_indexRemove_of_ne (st := { st with claim := upd2 st.claim ci ct none }) (hx i t hs')
    intro c; injection c with c1 c2; exact e ⟨c1, c2⟩

theorem removeClaimSt_unpack {σ : Type} {st st' : IdStore σ} {ci ct : Nat} (e : removeClaimSt st ci ct = .ok st') :
    ∃ c, st.claim ci ct = some c ∧
      st' = indexRemove { st with claim := upd2 st.claim ci ct none } c.topic (ci, ct) := by
  unfold removeClaimSt at e
  cases hc : st.claim ci ct with
  | none => rw [hc] at e; cases e
  | some c => rw [hc] at e; injection e with e; exact ⟨c, rfl, e.symm⟩

theorem tight_removeClaim {σ : Type} {st st' : IdStore σ} {ci ct : Nat} (h : Tight st)
    (htop : ∀ c, st.claim ci ct = some c → c.topic = ct)
    (e : removeClaimSt st ci ct = .ok st') : Tight st' := by
  obtain ⟨hw, hn, hx⟩ := h
  obtain ⟨h1, h2⟩ := wf_removeClaim hw hn htop e
  refine ⟨h1, h2, ?_⟩
  obtain ⟨c, _, rfl⟩ := removeClaimSt_unpack e
  exact tight3_remove hx

theorem tight_rawDel {σ : Type} {st : IdStore σ} (ci ct : Nat) (h : Tight st) : Tight (rawDelSt st ci ct) := by
  obtain ⟨hw, hn, hx⟩ := h
  obtain ⟨h1, h2⟩ := wf_rawDel ci ct hw hn
  exact ⟨h1, h2, tight3_remove hx⟩

theorem tight_empty {σ : Type} : Tight (IdStore.empty : IdStore σ) :=
  ⟨wf_empty, idxNodup_empty, fun i t h => by cases h⟩

/-- the ghost claims after writing the id `(ci, ct)` of identity `d` -/
theorem claims_set {claims : List ((Nat × Nat × Nat) × Claim SymSig)} {loose : List Nat}
    {ids : Nat → Option (IdStore SymSig)} {d : Nat} {st : IdStore SymSig}
    (h : IdsAgree claims loose ids) (hst : ids d = some st) (ci ct : Nat) (c : Claim SymSig) (d' i t : Nat) :
    assocGet (assocSet claims (d, ci, ct) c) (d', i, t) =
      if d' = d then upd2 st.claim ci ct (some c) i t else assocGet claims (d', i, t) := by
  rw [assocGet_set, upd2_apply]
  by_cases hd : d' = d
  · subst hd
    rw [if_pos rfl]
    by_cases e : i = ci ∧ t = ct
    · rw [if_pos e, if_pos (by rw [e.1, e.2])]
    · rw [if_neg e, if_neg (by intro c; injection c with _ c; injection c with c1 c2; exact e ⟨c1, c2⟩)]
      rw [h.claims, hst]; rfl
  · rw [if_neg hd, if_neg (by intro c; injection c with c _; exact hd c)]

theorem claims_del {claims : List ((Nat × Nat × Nat) × Claim SymSig)} {loose : List Nat}
    {ids : Nat → Option (IdStore SymSig)} {d : Nat} {st : IdStore SymSig}
    (h : IdsAgree claims loose ids) (hst : ids d = some st) (ci ct : Nat) (d' i t : Nat) :
    assocGet (assocDel claims (d, ci, ct)) (d', i, t) =
      if d' = d then upd2 st.claim ci ct none i t else assocGet claims (d', i, t) := by
  rw [assocGet_del, upd2_apply]
  by_cases hd : d' = d
  · subst hd
    rw [if_pos rfl]
    by_cases e : i = ci ∧ t = ct
    · rw [if_pos e, if_pos (by rw [e.1, e.2])]
    · rw [if_neg e, if_neg (by intro c; injection c with _ c; injection c with c1 c2; exact e ⟨c1, c2⟩)]
      rw [h.claims, hst]; rfl
  · rw [if_neg hd, if_neg (by intro c; injection c with c _; exact hd c)]

/-! ### claim issuers -/

def nonceOf (issuers : Nat → Option Issuer) (i d t : Nat) : Nat :=
  match issuers i with
  | some s => currentNonce s d t
  | none => 0

def revokedOf (issuers : Nat → Option Issuer) (i d t : Nat) (data : List Nat) : Bool :=
  match issuers i with
  | some s => isClaimRevoked s d t data
  | none => false

structure IssAgree (keys : List (Nat × Nat × Nat × Nat × Nat)) (nonce : List ((Nat × Nat × Nat) × Nat))
    (revoked : List ((Nat × Nat × Nat × List Nat) × Bool)) (issuers : Nat → Option Issuer) : Prop where
  dom : ∀ i, (issuers i).isSome = true ↔ i ∈ ISSUERS
  inv : ∀ i s, issuers i = some s → s.Inv
  keys : ∀ i k sc t r, (i, k, sc, t, r) ∈ keys ↔ ∃ s, issuers i = some s ∧ authorized s k sc t r
  nonce : ∀ i d t, (assocGet nonce (i, d, t)).getD 0 = nonceOf issuers i d t
  revoked : ∀ i d t data, (assocGet revoked (i, d, t, data)).getD false = revokedOf issuers i d t data

theorem issAgree_set {keys keys' : List (Nat × Nat × Nat × Nat × Nat)} {nonce nonce' : List ((Nat × Nat × Nat) × Nat)}
    {revoked revoked' : List ((Nat × Nat × Nat × List Nat) × Bool)} {issuers : Nat → Option Issuer}
    {i : Nat} {s s' : Issuer}
    (h : IssAgree keys nonce revoked issuers) (hs : issuers i = some s) (hinv : s'.Inv)
    (hk : ∀ x k sc t r, (x, k, sc, t, r) ∈ keys' ↔
      if x = i then authorized s' k sc t r else (x, k, sc, t, r) ∈ keys)
    (hn : ∀ x d t, (assocGet nonce' (x, d, t)).getD 0 =
      if x = i then currentNonce s' d t else (assocGet nonce (x, d, t)).getD 0)
    (hr : ∀ x d t data, (assocGet revoked' (x, d, t, data)).getD false =
      if x = i then isClaimRevoked s' d t data else (assocGet revoked (x, d, t, data)).getD false) :
    IssAgree keys' nonce' revoked' (upd issuers i (some s')) := by
  refine ⟨?_, ?_, ?_, ?_, ?_⟩
  · intro x
    rw [upd_apply]
    by_cases hx : x = i
    · rw [if_pos hx, hx]
      exact ⟨fun _ => (h.dom i).mp (by rw [hs]; rfl), fun _ => rfl⟩
    · rw [if_neg hx]; exact h.dom x
  · intro x sx hx
    rw [upd_apply] at hx
    by_cases hxi : x = i
    · rw [if_pos hxi] at hx; injection hx with hx; subst hx; exact hinv
    · rw [if_neg hxi] at hx; exact h.inv x sx hx
  · intro x k sc t r
    rw [hk, upd_apply]
    by_cases hx : x = i
    · rw [if_pos hx, if_pos hx]
      constructor
      · intro ha; exact ⟨s', rfl, ha⟩
      · rintro ⟨s0, e0, ha⟩; injection e0 with e0; subst e0; exact ha
    · rw [if_neg hx, if_neg hx]; exact h.keys x k sc t r
  · intro x d t
    rw [hn]
    unfold nonceOf
    rw [upd_apply]
    by_cases hx : x = i
    · rw [if_pos hx, if_pos hx]
    · rw [if_neg hx, if_neg hx]; exact h.nonce x d t
  · intro x d t data
    rw [hr]
    unfold revokedOf
    rw [upd_apply]
    by_cases hx : x = i
    · rw [if_pos hx, if_pos hx]
    · rw [if_neg hx, if_neg hx]; exact h.revoked x d t data

theorem issAgree_keys_at {keys : List (Nat × Nat × Nat × Nat × Nat)} {nonce : List ((Nat × Nat × Nat) × Nat)}
    {revoked : List ((Nat × Nat × Nat × List Nat) × Bool)} {issuers : Nat → Option Issuer} {i : Nat} {s : Issuer}
    (h : IssAgree keys nonce revoked issuers) (hs : issuers i = some s) (k sc t r : Nat) :
    (i, k, sc, t, r) ∈ keys ↔ authorized s k sc t r := by
  rw [h.keys]
  constructor
  · rintro ⟨s0, e0, ha⟩; rw [hs] at e0; injection e0 with e0; subst e0; exact ha
  · intro ha; exact ⟨s, hs, ha⟩

theorem issAgree_nonce_at {keys : List (Nat × Nat × Nat × Nat × Nat)} {nonce : List ((Nat × Nat × Nat) × Nat)}
    {revoked : List ((Nat × Nat × Nat × List Nat) × Bool)} {issuers : Nat → Option Issuer} {i : Nat} {s : Issuer}
    (h : IssAgree keys nonce revoked issuers) (hs : issuers i = some s) (d t : Nat) :
    (assocGet nonce (i, d, t)).getD 0 = currentNonce s d t := by
  rw [h.nonce]; unfold nonceOf; rw [hs]

theorem issAgree_revoked_at {keys : List (Nat × Nat × Nat × Nat × Nat)} {nonce : List ((Nat × Nat × Nat) × Nat)}
    {revoked : List ((Nat × Nat × Nat × List Nat) × Bool)} {issuers : Nat → Option Issuer} {i : Nat} {s : Issuer}
    (h : IssAgree keys nonce revoked issuers) (hs : issuers i = some s) (d t : Nat) (data : List Nat) :
    (assocGet revoked (i, d, t, data)).getD false = isClaimRevoked s d t data := by
  rw [h.revoked]; unfold revokedOf; rw [hs]

theorem invalidate_nonce {s s' : Issuer} {d t : Nat} (e : invalidateClaimSignatures s d t = .ok s') (d' t' : Nat) :
    currentNonce s' d' t' = if d' = d ∧ t' = t then currentNonce s d t + 1 else currentNonce s d' t' := by
  unfold invalidateClaimSignatures at e
  split at e
  · cases e
  · injection e with e; subst e
    show (upd2 s.nonce d t (some (currentNonce s d t + 1)) d' t').getD 0 = _
    rw [upd2_apply]
    by_cases h : d' = d ∧ t' = t
    · rw [if_pos h, if_pos h]; rfl
    · rw [if_neg h, if_neg h]; rfl

theorem setRevoked_apply (s : Issuer) (d t : Nat) (data : List Nat) (b : Bool) (d' t' : Nat) (data' : List Nat) :
    isClaimRevoked (setClaimRevoked s d t data b) d' t' data' =
      if d' = d ∧ t' = t ∧ data' = data then b else isClaimRevoked s d' t' data' := by
  unfold isClaimRevoked setClaimRevoked
  simp only
  split <;> rfl

/-! ### the whole ghost state against the whole world -/

structure AgreeW (g : G) (W : World SymSig) : Prop where
  ts : g.ts = W.env.timestamp
  net : W.env.network = 0
  cti : g.cti = W.vCti
  virs : g.virs = W.vIrs
  reg : RegAgree g.req g.trust W.regs
  irs : IrsAgree g.ident W.irs
  ids : IdsAgree g.claims g.loose W.ids
  iss : IssAgree g.keys g.nonce g.revoked W.issuers

theorem addClaim_unpack {W W' : World SymSig} {d : Nat} {c : Claim SymSig}
    (e : addClaim symVerify W d c = .ok W') :
    ∃ st, W.ids d = some st ∧ issuerConfirms symVerify W c.issuer d c.topic c.scheme c.sig c.data = true ∧
      W' = { W with ids := upd W.ids d (some (storeClaim st c)) } := by
  unfold addClaim at e
  cases hst : W.ids d with
  | none => rw [hst] at e; cases e
  | some st =>
    rw [hst] at e; simp only at e
    split at e
    · rename_i hc
      injection e with e
      exact ⟨st, rfl, hc, e.symm⟩
    · cases e

/-- **the ghost update mirrors every accepted operation** -/
theorem agree_update {g : G} {W W' : World SymSig} (op : Op SymSig) (h : AgreeW g W)
    (e : applyOp symVerify W op = .ok W') : AgreeW (update g op) W' := by
  cases op with
  | reg ra rop =>
    simp only [applyOp] at e
    obtain ⟨r, r', hr, hf, rfl⟩ := onReg_unpack e
    have hreg := regAgree_step rop h.reg hr hf
    cases rop <;> exact ⟨h.ts, h.net, h.cti, h.virs, hreg, h.irs, h.ids, h.iss⟩
  | irsAdd a d =>
    simp only [applyOp] at e
    obtain ⟨s, hf, rfl⟩ := onIrs_unpack e
    exact ⟨h.ts, h.net, h.cti, h.virs, h.reg, irsAgree_add h.irs hf, h.ids, h.iss⟩
  | irsModify a d =>
    simp only [applyOp] at e
    obtain ⟨s, hf, rfl⟩ := onIrs_unpack e
    exact ⟨h.ts, h.net, h.cti, h.virs, h.reg, irsAgree_modify h.irs hf, h.ids, h.iss⟩
  | irsRemove a =>
    simp only [applyOp] at e
    obtain ⟨s, hf, rfl⟩ := onIrs_unpack e
    exact ⟨h.ts, h.net, h.cti, h.virs, h.reg, irsAgree_remove h.irs hf, h.ids, h.iss⟩
  | irsRecover a b =>
    simp only [applyOp] at e
    obtain ⟨s, hf, rfl⟩ := onIrs_unpack e
    have hi := irsAgree_recover (g := g) h.irs hf
    revert hi
    show IrsAgree (updateRecover g a b).ident _ → AgreeW (updateRecover g a b) _
    unfold updateRecover
    cases assocGet g.ident a with
    | none => intro hi; exact ⟨h.ts, h.net, h.cti, h.virs, h.reg, hi, h.ids, h.iss⟩
    | some d => intro hi; exact ⟨h.ts, h.net, h.cti, h.virs, h.reg, hi, h.ids, h.iss⟩
  | addClaim d c =>
    simp only [applyOp] at e
    obtain ⟨st, hst, _, rfl⟩ := addClaim_unpack e
    refine ⟨h.ts, h.net, h.cti, h.virs, h.reg, h.irs, ?_, h.iss⟩
    apply idsAgree_set h.ids hst _ (fun x hx => hx) (fun _ ht => tight_storeClaim c ht)
    intro d' i t
    rw [storeClaim_claim]
    exact claims_set h.ids hst c.issuer c.topic c d' i t
  | rawPut d ci ct c =>
    simp only [applyOp] at e
    obtain ⟨st, st', hst, hf, rfl⟩ := onId_unpack e
    injection hf with hf; subst hf
    refine ⟨h.ts, h.net, h.cti, h.virs, h.reg, h.irs, ?_, h.iss⟩
    apply idsAgree_set h.ids hst _ (fun x hx => hx) (fun _ ht => tight_rawPut ci ct c ht)
    intro d' i t
    rw [rawPutSt_claim]
    exact claims_set h.ids hst ci ct c d' i t
  | removeClaim d ci ct =>
    simp only [applyOp] at e
    obtain ⟨st, st', hst, hf, rfl⟩ := onId_unpack e
    obtain ⟨c, hc, hst'⟩ := removeClaimSt_unpack hf
    refine ⟨h.ts, h.net, h.cti, h.virs, h.reg, h.irs, ?_, h.iss⟩
    have hgc : assocGet g.claims (d, ci, ct) = some c := by rw [h.ids.claims, hst]; exact hc
    apply idsAgree_set (loose' := if removesLoosely g d ci ct then d :: g.loose else g.loose) h.ids hst
    · intro d' i t
      rw [hst', indexRemove_claim]
      exact claims_del h.ids hst ci ct d' i t
    · intro x hx
      by_cases hl : removesLoosely g d ci ct = true
      · rw [if_pos hl]; exact List.mem_cons_of_mem _ hx
      · rw [if_neg hl]; exact hx
    · intro hnl ht
      have hl : removesLoosely g d ci ct = false := by
        cases hb : removesLoosely g d ci ct with
        | false => rfl
        | true => rw [hb, if_pos rfl] at hnl; exact absurd (List.mem_cons_self ..) hnl
      unfold removesLoosely at hl
      rw [hgc] at hl
      have htop : c.topic = ct := by simpa using hl
      exact tight_removeClaim ht (fun c' hc' => by rw [hc] at hc'; injection hc' with hc'; subst hc'; exact htop) hf
  | rawDel d ci ct =>
    simp only [applyOp] at e
    obtain ⟨st, st', hst, hf, rfl⟩ := onId_unpack e
    injection hf with hf; subst hf
    refine ⟨h.ts, h.net, h.cti, h.virs, h.reg, h.irs, ?_, h.iss⟩
    apply idsAgree_set h.ids hst _ (fun x hx => hx) (fun _ ht => tight_rawDel ci ct ht)
    intro d' i t
    show assocGet (assocDel g.claims (d, ci, ct)) (d', i, t) = if d' = d then (rawDelSt st ci ct).claim i t else _
    unfold rawDelSt
    rw [indexRemove_claim]
    exact claims_del h.ids hst ci ct d' i t
  | allowKey i k sc ra t =>
    simp only [applyOp] at e
    obtain ⟨s, s', hs, hf, rfl⟩ := onIssuer_unpack e
    obtain ⟨_, _, _, hauth⟩ := allowKey_spec hf
    obtain ⟨hn, hr⟩ := allowKey_frame hf
    refine ⟨h.ts, h.net, h.cti, h.virs, h.reg, h.irs, h.ids, ?_⟩
    apply issAgree_set h.iss hs (inv_allowKey (h.iss.inv i s hs) hf)
    · intro x k' sc' t' r'
      show (x, k', sc', t', r') ∈ (i, k, sc, t, ra) :: g.keys ↔ _
      rw [List.mem_cons]
      by_cases hx : x = i
      · subst hx
        rw [if_pos rfl, hauth, issAgree_keys_at h.iss hs]
        constructor
        · rintro (h1 | h1)
          · injection h1 with _ h1; injection h1 with h1 h2; injection h2 with h2 h3; injection h3 with h3 h4
            exact .inr ⟨h1, h2, h3, h4⟩
          · exact .inl h1
        · rintro (h1 | ⟨h1, h2, h3, h4⟩)
          · exact .inr h1
          · exact .inl (by rw [h1, h2, h3, h4])
      · rw [if_neg hx]
        constructor
        · rintro (h1 | h1)
          · injection h1 with h1 _; exact absurd h1 hx
          · exact h1
        · exact .inr
    · intro x d t'
      show (assocGet g.nonce (x, d, t')).getD 0 = _
      by_cases hx : x = i
      · subst hx; rw [if_pos rfl, issAgree_nonce_at h.iss hs]; unfold currentNonce; rw [hn]
      · rw [if_neg hx]
    · intro x d t' data
      show (assocGet g.revoked (x, d, t', data)).getD false = _
      by_cases hx : x = i
      · subst hx; rw [if_pos rfl, issAgree_revoked_at h.iss hs]; unfold isClaimRevoked; rw [hr]
      · rw [if_neg hx]
  | removeKey i k sc ra t =>
    simp only [applyOp] at e
    obtain ⟨s, s', hs, hf, rfl⟩ := onIssuer_unpack e
    obtain ⟨_, hauth⟩ := removeKey_spec (h.iss.inv i s hs) hf
    obtain ⟨hn, hr⟩ := removeKey_frame hf
    refine ⟨h.ts, h.net, h.cti, h.virs, h.reg, h.irs, h.ids, ?_⟩
    apply issAgree_set h.iss hs (inv_removeKey (h.iss.inv i s hs) hf)
    · intro x k' sc' t' r'
      show (x, k', sc', t', r') ∈ g.keys.filter (fun y => !(y == (i, k, sc, t, ra))) ↔ _
      rw [List.mem_filter]
      by_cases hx : x = i
      · subst hx
        rw [if_pos rfl, hauth, issAgree_keys_at h.iss hs]
        constructor
        · rintro ⟨h1, h2⟩
          refine ⟨h1, ?_⟩
          rintro ⟨c1, c2, c3, c4⟩
          subst c1 c2 c3 c4
          simp at h2
        · rintro ⟨h1, h2⟩
          refine ⟨h1, ?_⟩
          simp only [Bool.not_eq_eq_eq_not, Bool.not_true, beq_eq_false_iff_ne, ne_eq, Prod.mk.injEq, true_and]
          exact h2
      · rw [if_neg hx]
        constructor
        · exact fun h1 => h1.1
        · exact fun h1 => ⟨h1, by simp [hx]⟩
    · intro x d t'
      show (assocGet g.nonce (x, d, t')).getD 0 = _
      by_cases hx : x = i
      · subst hx; rw [if_pos rfl, issAgree_nonce_at h.iss hs]; unfold currentNonce; rw [hn]
      · rw [if_neg hx]
    · intro x d t' data
      show (assocGet g.revoked (x, d, t', data)).getD false = _
      by_cases hx : x = i
      · subst hx; rw [if_pos rfl, issAgree_revoked_at h.iss hs]; unfold isClaimRevoked; rw [hr]
      · rw [if_neg hx]
  | invalidate i d t =>
    simp only [applyOp] at e
    obtain ⟨s, s', hs, hf, rfl⟩ := onIssuer_unpack e
    obtain ⟨hk, hp, hr⟩ := invalidate_frame hf
    refine ⟨h.ts, h.net, h.cti, h.virs, h.reg, h.irs, h.ids, ?_⟩
    apply issAgree_set h.iss hs (inv_invalidate (h.iss.inv i s hs) hf)
    · intro x k' sc' t' r'
      show (x, k', sc', t', r') ∈ g.keys ↔ _
      by_cases hx : x = i
      · subst hx; rw [if_pos rfl, issAgree_keys_at h.iss hs]; unfold authorized; rw [hp]
      · rw [if_neg hx]
    · intro x d' t'
      show (assocGet (assocSet g.nonce (i, d, t) ((assocGet g.nonce (i, d, t)).getD 0 + 1)) (x, d', t')).getD 0 = _
      rw [assocGet_set, issAgree_nonce_at h.iss hs]
      by_cases hx : x = i
      · subst hx
        rw [if_pos rfl, invalidate_nonce hf]
        by_cases hdt : d' = d ∧ t' = t
        · rw [if_pos hdt, if_pos (by rw [hdt.1, hdt.2])]; rfl
        · rw [if_neg hdt, if_neg (by intro c; injection c with _ c; injection c with c1 c2; exact hdt ⟨c1, c2⟩)]
          exact issAgree_nonce_at h.iss hs d' t'
      · rw [if_neg hx, if_neg (by intro c; injection c with c _; exact hx c)]
    · intro x d' t' data
      show (assocGet g.revoked (x, d', t', data)).getD false = _
      by_cases hx : x = i
      · subst hx; rw [if_pos rfl, issAgree_revoked_at h.iss hs]; unfold isClaimRevoked; rw [hr]
      · rw [if_neg hx]
  | revoke i d t data v =>
    simp only [applyOp] at e
    obtain ⟨s, s', hs, hf, rfl⟩ := onIssuer_unpack e
    injection hf with hf; subst hf
    refine ⟨h.ts, h.net, h.cti, h.virs, h.reg, h.irs, h.ids, ?_⟩
    apply issAgree_set h.iss hs (inv_setClaimRevoked (h.iss.inv i s hs))
    · intro x k' sc' t' r'
      show (x, k', sc', t', r') ∈ g.keys ↔ _
      by_cases hx : x = i
      · subst hx; rw [if_pos rfl, issAgree_keys_at h.iss hs]; rfl
      · rw [if_neg hx]
    · intro x d' t'
      show (assocGet g.nonce (x, d', t')).getD 0 = _
      by_cases hx : x = i
      · subst hx; rw [if_pos rfl, issAgree_nonce_at h.iss hs]; rfl
      · rw [if_neg hx]
    · intro x d' t' data'
      show (assocGet (assocSet g.revoked (i, d, t, data) v) (x, d', t', data')).getD false = _
      rw [assocGet_set]
      by_cases hx : x = i
      · subst hx
        rw [if_pos rfl, setRevoked_apply]
        by_cases hdt : d' = d ∧ t' = t ∧ data' = data
        · rw [if_pos hdt, if_pos (by rw [hdt.1, hdt.2.1, hdt.2.2])]; rfl
        · rw [if_neg hdt, if_neg (by
            intro c; injection c with _ c; injection c with c1 c; injection c with c2 c3
            exact hdt ⟨c1, c2, c3⟩)]
          exact issAgree_revoked_at h.iss hs d' t' data'
      · rw [if_neg hx, if_neg (by intro c; injection c with c _; exact hx c)]
  | setCti ra =>
    simp only [applyOp] at e
    injection e with e; subst e
    exact ⟨h.ts, h.net, rfl, h.virs, h.reg, h.irs, h.ids, h.iss⟩
  | setIrs =>
    simp only [applyOp] at e
    injection e with e; subst e
    exact ⟨h.ts, h.net, h.cti, rfl, h.reg, h.irs, h.ids, h.iss⟩
  | time ts =>
    simp only [applyOp] at e
    injection e with e; subst e
    exact ⟨rfl, h.net, h.cti, h.virs, h.reg, h.irs, h.ids, h.iss⟩
  | valid i d t sc sd data =>
    simp only [applyOp] at e
    split at e
    · injection e with e; subst e; exact h
    · cases e
  | verify a =>
    simp only [applyOp] at e
    split at e
    · injection e with e; subst e; exact h
    · cases e

end OZ.Identity.Mon
