import OZ.Lemmas.SmartAccount
/-
Preservation of the smart-account storage invariant by every rule-management operation.
-/
namespace OZ.SmartAccount

/-! ### list helpers -/

theorem hasDup_false_iff {α : Type} [DecidableEq α] (l : List α) : hasDup l = false ↔ l.Nodup := by
  induction l with
  | nil => simp [hasDup]
  | cons a t ih =>
    simp only [hasDup, Bool.or_eq_false_iff, decide_eq_false_iff_not, List.nodup_cons, ih]

theorem eraseLast_sublist {α : Type} [DecidableEq α] (x : α) (l : List α) : (eraseLast x l).Sublist l := by
  induction l with
  | nil => exact List.Sublist.refl _
  | cons y ys ih =>
    unfold eraseLast
    by_cases h1 : x ∈ ys
    · rw [if_pos h1]; exact List.Sublist.cons_cons y ih
    · rw [if_neg h1]
      by_cases h2 : y = x
      · rw [if_pos h2]; exact List.Sublist.cons y (List.Sublist.refl _)
      · rw [if_neg h2]; exact List.Sublist.refl _

theorem mem_eraseLast {α : Type} [DecidableEq α] (x z : α) (l : List α) (hn : l.Nodup) :
    z ∈ eraseLast x l ↔ z ∈ l ∧ z ≠ x := by
  induction l with
  | nil => simp [eraseLast]
  | cons y ys ih =>
    rw [List.nodup_cons] at hn
    unfold eraseLast
    by_cases h1 : x ∈ ys
    · rw [if_pos h1, List.mem_cons, ih hn.2, List.mem_cons]
      have hyx : y ≠ x := fun e => hn.1 (e ▸ h1)
      constructor
      · rintro (e | ⟨m, ne⟩)
        · exact ⟨Or.inl e, e ▸ hyx⟩
        · exact ⟨Or.inr m, ne⟩
      · rintro ⟨e | m, ne⟩
        · exact Or.inl e
        · exact Or.inr ⟨m, ne⟩
    · rw [if_neg h1]
      by_cases h2 : y = x
      · rw [if_pos h2, List.mem_cons]
        constructor
        · intro m; exact ⟨Or.inr m, fun e => h1 (e ▸ m)⟩
        · rintro ⟨e | m, ne⟩
          · exact absurd (e.trans h2) ne
          · exact m
      · rw [if_neg h2, List.mem_cons]
        constructor
        · rintro (e | m)
          · exact ⟨Or.inl e, e ▸ h2⟩
          · exact ⟨Or.inr m, fun e => h1 (e ▸ m)⟩
        · rintro ⟨h, _⟩; exact h

theorem mem_insertKey (x z : Nat) (l : List Nat) : z ∈ insertKey x l ↔ z = x ∨ z ∈ l := by
  induction l with
  | nil => simp [insertKey]
  | cons y ys ih =>
    unfold insertKey
    by_cases h1 : x < y
    · rw [if_pos h1]; simp
    · rw [if_neg h1]
      by_cases h2 : x = y
      · rw [if_pos h2]; subst h2; simp
      · rw [if_neg h2, List.mem_cons, ih, List.mem_cons]
        constructor
        · rintro (e | e | m)
          · exact Or.inr (Or.inl e)
          · exact Or.inl e
          · exact Or.inr (Or.inr m)
        · rintro (e | e | m)
          · exact Or.inr (Or.inl e)
          · exact Or.inl e
          · exact Or.inr (Or.inr m)

theorem insertKey_pairwise (x : Nat) (l : List Nat) (h : l.Pairwise (· < ·)) : (insertKey x l).Pairwise (· < ·) := by
  induction l with
  | nil => simp [insertKey]
  | cons y ys ih =>
    rw [List.pairwise_cons] at h
    unfold insertKey
    by_cases h1 : x < y
    · rw [if_pos h1, List.pairwise_cons]
      refine ⟨?_, List.pairwise_cons.mpr h⟩
      intro b hb
      cases List.mem_cons.mp hb with
      | inl e => rw [e]; exact h1
      | inr m => exact Nat.lt_trans h1 (h.1 b m)
    · rw [if_neg h1]
      by_cases h2 : x = y
      · rw [if_pos h2]; exact List.pairwise_cons.mpr h
      · rw [if_neg h2, List.pairwise_cons]
        refine ⟨?_, ih h.2⟩
        intro b hb
        cases (mem_insertKey x b ys).mp hb with
        | inl e => rw [e]; omega
        | inr m => exact h.1 b m

theorem mapKeys_pairwise (l : List Nat) : (mapKeys l).Pairwise (· < ·) := by
  induction l with
  | nil => simp [mapKeys]
  | cons x xs ih => exact insertKey_pairwise x _ ih

theorem nodup_of_lt {l : List Nat} (h : l.Pairwise (· < ·)) : l.Nodup :=
  h.imp (fun hab => Nat.ne_of_lt hab)

theorem mapKeys_nodup (l : List Nat) : (mapKeys l).Nodup := nodup_of_lt (mapKeys_pairwise l)

/-- clearing one passing element of a duplicate-free list shortens the filtered list by one -/
theorem filter_clear_one (l : List Nat) (p q : Nat → Bool) (id : Nat) (hn : l.Nodup) (hid : id ∈ l)
    (hp : p id = true) (hq : q id = false) (hpq : ∀ i, i ≠ id → q i = p i) :
    (l.filter q).length + 1 = (l.filter p).length := by
  induction l with
  | nil => cases hid
  | cons a t ih =>
    rw [List.nodup_cons] at hn
    by_cases ha : a = id
    · subst ha
      have : t.filter q = t.filter p := List.filter_congr (fun i hi => hpq i (fun e => hn.1 (e ▸ hi)))
      rw [List.filter_cons_of_neg (by simp [hq]), List.filter_cons_of_pos hp, this, List.length_cons]
    · have hid' : id ∈ t := by
        cases List.mem_cons.mp hid with
        | inl e => exact absurd e.symm ha
        | inr m => exact m
      have ih' := ih hn.2 hid'
      have hqa : q a = p a := hpq a ha
      by_cases hpa : p a = true
      · rw [List.filter_cons_of_pos hpa, List.filter_cons_of_pos (by rw [hqa]; exact hpa), List.length_cons,
          List.length_cons]; omega
      · rw [List.filter_cons_of_neg hpa, List.filter_cons_of_neg (by rw [hqa]; exact hpa)]; exact ih'

/-! ### fingerprints never touch the invariant -/

theorem inv_fps {s : Store} (h : Inv s) (f : List Fp) : Inv { s with fps := f } :=
  ⟨h.sorted, h.ids_meta, h.lt_next, h.signers_ok, h.policies_ok, h.nonempty, h.count_eq, h.count_le⟩

theorem computeFingerprint_ok {t : RuleType} {sg : List Signer} {ps : List Nat} {fp : Fp}
    (h : computeFingerprint t sg ps = .ok fp) : sg.Nodup ∧ ps.Nodup := by
  unfold computeFingerprint at h
  by_cases h1 : hasDup sg = true
  · rw [if_pos h1] at h; cases h
  · rw [if_neg h1] at h
    by_cases h2 : hasDup ps = true
    · rw [if_pos h2] at h; cases h
    · exact ⟨(hasDup_false_iff sg).mp (by simpa using h1), (hasDup_false_iff ps).mp (by simpa using h2)⟩

theorem validateAndSetFingerprint_ok {s s1 : Store} {t : RuleType} {sg : List Signer} {ps : List Nat}
    (h : validateAndSetFingerprint s t sg ps = .ok s1) : (∃ f, s1 = { s with fps := f }) ∧ sg.Nodup ∧ ps.Nodup := by
  unfold validateAndSetFingerprint at h
  cases hc : computeFingerprint t sg ps with
  | error e => rw [hc] at h; cases h
  | ok fp =>
    rw [hc] at h
    dsimp only at h
    by_cases ha : s.fps.any (fpEq fp) = true
    · rw [if_pos ha] at h; cases h
    · rw [if_neg ha] at h
      injection h with h
      exact ⟨⟨_, h.symm⟩, computeFingerprint_ok hc⟩

theorem removeFingerprint_ok {s s1 : Store} {t : RuleType} {sg : List Signer} {ps : List Nat}
    (h : removeFingerprint s t sg ps = .ok s1) : ∃ f, s1 = { s with fps := f } := by
  unfold removeFingerprint at h
  cases hc : computeFingerprint t sg ps with
  | error e => rw [hc] at h; cases h
  | ok fp =>
    rw [hc] at h
    dsimp only at h
    injection h with h
    exact ⟨_, h.symm⟩

theorem validateSignersAndPolicies_ok {sg : List Signer} {ps : List Nat}
    (h : validateSignersAndPolicies sg ps = .ok ()) :
    sg.length ≤ MAX_SIGNERS ∧ ps.length ≤ MAX_POLICIES ∧ ¬ (sg = [] ∧ ps = []) := by
  unfold validateSignersAndPolicies at h
  by_cases h1 : sg.length > MAX_SIGNERS
  · rw [if_pos h1] at h; cases h
  · rw [if_neg h1] at h
    by_cases h2 : ps.length > MAX_POLICIES
    · rw [if_pos h2] at h; cases h
    · rw [if_neg h2] at h
      by_cases h3 : (sg.isEmpty && ps.isEmpty) = true
      · rw [if_pos h3] at h; cases h
      · refine ⟨by omega, by omega, ?_⟩
        rintro ⟨e1, e2⟩
        apply h3; rw [e1, e2]; rfl

theorem refingerprint_ok {s s2 : Store} {r : Rule} {sg : List Signer} {ps : List Nat}
    (h : refingerprint s r sg ps = .ok s2) :
    (∃ f, s2 = { s with fps := f }) ∧ sg.Nodup ∧ ps.Nodup ∧ sg.length ≤ MAX_SIGNERS ∧ ps.length ≤ MAX_POLICIES ∧
      ¬ (sg = [] ∧ ps = []) := by
  unfold refingerprint at h
  cases hv : validateSignersAndPolicies sg ps with
  | error e => rw [hv] at h; cases h
  | ok u =>
    rw [hv] at h
    dsimp only at h
    cases h1 : validateAndSetFingerprint s r.ctype sg ps with
    | error e => rw [h1] at h; cases h
    | ok s1 =>
      rw [h1] at h
      dsimp only at h
      obtain ⟨⟨f1, e1⟩, n1, n2⟩ := validateAndSetFingerprint_ok h1
      obtain ⟨f2, e2⟩ := removeFingerprint_ok h
      obtain ⟨l1, l2, ne⟩ := validateSignersAndPolicies_ok hv
      refine ⟨⟨f2, ?_⟩, n1, n2, l1, l2, ne⟩
      rw [e2, e1]

/-! ### the three kinds of store updates -/

theorem updN_same {β} (f : Nat → β) (a : Nat) (v : β) : updN f a v a = v := by simp [updN]
theorem updN_other {β} (f : Nat → β) (a x : Nat) (v : β) (h : x ≠ a) : updN f a v x = f x := by simp [updN, h]
theorem updT_same {β} (f : RuleType → β) (a : RuleType) (v : β) : updT f a v a = v := by simp [updT]
theorem updT_other {β} (f : RuleType → β) (a x : RuleType) (v : β) (h : x ≠ a) : updT f a v x = f x := by
  simp [updT, h]

theorem inv_setSigners {s : Store} (hI : Inv s) (id : Nat) (l : List Signer) (hn : l.Nodup)
    (hl : l.length ≤ MAX_SIGNERS) (hne : ¬ (l = [] ∧ (s.policies id).getD [] = [])) :
    Inv (setSigners s id l) := by
  refine ⟨hI.sorted, hI.ids_meta, hI.lt_next, ?_, hI.policies_ok, ?_, hI.count_eq, hI.count_le⟩
  · intro id' l' h
    by_cases e : id' = id
    · subst e
      simp only [setSigners, updN_same] at h
      injection h with h; subst h; exact ⟨hn, hl⟩
    · simp only [setSigners, updN_other _ _ _ _ e] at h
      exact hI.signers_ok id' l' h
  · intro id' m hm
    by_cases e : id' = id
    · subst e
      simp only [setSigners, updN_same, Option.getD_some]
      exact hne
    · simp only [setSigners, updN_other _ _ _ _ e]
      exact hI.nonempty id' m hm

theorem inv_setPolicies {s : Store} (hI : Inv s) (id : Nat) (l : List Nat) (hn : l.Nodup)
    (hl : l.length ≤ MAX_POLICIES) (hne : ¬ ((s.signers id).getD [] = [] ∧ l = [])) :
    Inv (setPolicies s id l) := by
  refine ⟨hI.sorted, hI.ids_meta, hI.lt_next, hI.signers_ok, ?_, ?_, hI.count_eq, hI.count_le⟩
  · intro id' l' h
    by_cases e : id' = id
    · subst e
      simp only [setPolicies, updN_same] at h
      injection h with h; subst h; exact ⟨hn, hl⟩
    · simp only [setPolicies, updN_other _ _ _ _ e] at h
      exact hI.policies_ok id' l' h
  · intro id' m hm
    by_cases e : id' = id
    · subst e
      simp only [setPolicies, updN_same, Option.getD_some]
      exact hne
    · simp only [setPolicies, updN_other _ _ _ _ e]
      exact hI.nonempty id' m hm

theorem inv_setMeta {s : Store} (hI : Inv s) (id : Nat) (m m' : Meta) (hm : s.metas id = some m)
    (hc : m'.ctype = m.ctype) : Inv { s with metas := updN s.metas id (some m') } := by
  have hsome : ∀ i, (updN s.metas id (some m') i).isSome = (s.metas i).isSome := by
    intro i
    by_cases e : i = id
    · subst e; rw [updN_same, hm]; rfl
    · rw [updN_other _ _ _ _ e]
  refine ⟨hI.sorted, ?_, ?_, hI.signers_ok, hI.policies_ok, ?_, ?_, hI.count_le⟩
  · intro t id'
    rw [hI.ids_meta]
    by_cases e : id' = id
    · subst e
      simp only [updN_same, hm, Option.some.injEq, exists_eq_left']
      rw [hc]
    · simp only [updN_other _ _ _ _ e]
  · intro id' m'' h
    by_cases e : id' = id
    · subst e; exact hI.lt_next _ m hm
    · simp only [updN_other _ _ _ _ e] at h; exact hI.lt_next _ _ h
  · intro id' m'' h
    by_cases e : id' = id
    · subst e; exact hI.nonempty _ m hm
    · simp only [updN_other _ _ _ _ e] at h; exact hI.nonempty _ _ h
  · show s.count = _
    rw [hI.count_eq]
    congr 1
    exact List.filter_congr (fun i _ => (hsome i).symm)

/-! ### every operation preserves the invariant -/

theorem inv_empty : Inv Store.empty := by
  refine ⟨?_, ?_, ?_, ?_, ?_, ?_, ?_, ?_⟩
  · intro t; exact List.Pairwise.nil
  · intro t id; simp [Store.empty]
  · intro id m h; simp [Store.empty] at h
  · intro id l h; simp [Store.empty] at h
  · intro id l h; simp [Store.empty] at h
  · intro id m h; simp [Store.empty] at h
  · simp [Store.empty]
  · simp [Store.empty, MAX_CONTEXT_RULES]

theorem getContextRule_fields {s : Store} {id : Nat} {r : Rule} (h : getContextRule s id = .ok r) :
    ∃ m, s.metas id = some m ∧ r.ctype = m.ctype ∧ r.name = m.name ∧ r.validUntil = m.validUntil ∧
      r.signers = (s.signers id).getD [] ∧ r.policies = (s.policies id).getD [] := by
  obtain ⟨m, hm, hr⟩ := (getContextRule_ok_iff s id r).mp h
  exact ⟨m, hm, by rw [hr], by rw [hr], by rw [hr], by rw [hr], by rw [hr]⟩

theorem updateName_inv {s s' : Store} {id name : Nat} (hI : Inv s) (h : updateName s id name = .ok s') : Inv s' := by
  unfold updateName at h
  cases hg : getContextRule s id with
  | error e => rw [hg] at h; cases h
  | ok r =>
    rw [hg] at h
    dsimp only at h
    injection h with h; subst h
    obtain ⟨m, hm, hc, _⟩ := getContextRule_fields hg
    exact inv_setMeta hI id m _ hm hc

theorem updateValidUntil_inv {s s' : Store} {now id : Nat} {vu : Option Nat} (hI : Inv s)
    (h : updateValidUntil s now id vu = .ok s') : Inv s' := by
  unfold updateValidUntil at h
  cases hg : getContextRule s id with
  | error e => rw [hg] at h; cases h
  | ok r =>
    rw [hg] at h
    dsimp only at h
    cases hv : checkValidUntil now vu with
    | error e => rw [hv] at h; cases h
    | ok u =>
      rw [hv] at h
      dsimp only at h
      injection h with h; subst h
      obtain ⟨m, hm, hc, _⟩ := getContextRule_fields hg
      exact inv_setMeta hI id m _ hm hc

theorem addSigner_inv {s s' : Store} {id : Nat} {x : Signer} (hI : Inv s) (h : addSigner s id x = .ok s') : Inv s' := by
  unfold addSigner at h
  cases hg : getContextRule s id with
  | error e => rw [hg] at h; cases h
  | ok r =>
    rw [hg] at h
    dsimp only at h
    unfold addSignerTo at h
    by_cases hx : x ∈ r.signers
    · rw [if_pos hx] at h; cases h
    · rw [if_neg hx] at h
      cases hr : refingerprint s r (r.signers ++ [x]) r.policies with
      | error e => rw [hr] at h; cases h
      | ok s2 =>
        rw [hr] at h
        dsimp only at h
        injection h with h; subst h
        obtain ⟨⟨f, e⟩, n1, _, l1, _, ne⟩ := refingerprint_ok hr
        obtain ⟨m, _, _, _, _, _, hp⟩ := getContextRule_fields hg
        rw [e]
        refine inv_setSigners (inv_fps hI f) id _ n1 l1 ?_
        rw [hp] at ne; exact ne

theorem removeSigner_inv {s s' : Store} {id : Nat} {x : Signer} (hI : Inv s) (h : removeSigner s id x = .ok s') :
    Inv s' := by
  unfold removeSigner at h
  cases hg : getContextRule s id with
  | error e => rw [hg] at h; cases h
  | ok r =>
    rw [hg] at h
    dsimp only at h
    unfold removeSignerFrom at h
    by_cases hx : x ∈ r.signers
    · rw [if_pos hx] at h
      cases hr : refingerprint s r (eraseLast x r.signers) r.policies with
      | error e => rw [hr] at h; cases h
      | ok s2 =>
        rw [hr] at h
        dsimp only at h
        injection h with h; subst h
        obtain ⟨⟨f, e⟩, n1, _, l1, _, ne⟩ := refingerprint_ok hr
        obtain ⟨m, _, _, _, _, _, hp⟩ := getContextRule_fields hg
        rw [e]
        refine inv_setSigners (inv_fps hI f) id _ n1 l1 ?_
        rw [hp] at ne; exact ne
    · rw [if_neg hx] at h; cases h

theorem addPolicy_inv {s s' : Store} {id p : Nat} {io : Bool} (hI : Inv s) (h : addPolicy s id p io = .ok s') :
    Inv s' := by
  unfold addPolicy at h
  cases hg : getContextRule s id with
  | error e => rw [hg] at h; cases h
  | ok r =>
    rw [hg] at h
    dsimp only at h
    unfold addPolicyTo at h
    by_cases hx : p ∈ r.policies
    · rw [if_pos hx] at h; cases h
    · rw [if_neg hx] at h
      by_cases hio : (!io) = true
      · rw [if_pos hio] at h; cases h
      · rw [if_neg hio] at h
        cases hr : refingerprint s r r.signers (r.policies ++ [p]) with
        | error e => rw [hr] at h; cases h
        | ok s2 =>
          rw [hr] at h
          dsimp only at h
          injection h with h; subst h
          obtain ⟨⟨f, e⟩, _, n2, _, l2, ne⟩ := refingerprint_ok hr
          obtain ⟨m, _, _, _, _, hsg, _⟩ := getContextRule_fields hg
          rw [e]
          refine inv_setPolicies (inv_fps hI f) id _ n2 l2 ?_
          rw [hsg] at ne; exact ne

theorem removePolicy_inv {s s' : Store} {id p : Nat} (hI : Inv s) (h : removePolicy s id p = .ok s') : Inv s' := by
  unfold removePolicy at h
  cases hg : getContextRule s id with
  | error e => rw [hg] at h; cases h
  | ok r =>
    rw [hg] at h
    dsimp only at h
    unfold removePolicyFrom at h
    by_cases hx : p ∈ r.policies
    · rw [if_pos hx] at h
      cases hr : refingerprint s r r.signers (eraseLast p r.policies) with
      | error e => rw [hr] at h; cases h
      | ok s2 =>
        rw [hr] at h
        dsimp only at h
        injection h with h; subst h
        obtain ⟨⟨f, e⟩, _, n2, _, l2, ne⟩ := refingerprint_ok hr
        obtain ⟨m, _, _, _, _, hsg, _⟩ := getContextRule_fields hg
        rw [e]
        refine inv_setPolicies (inv_fps hI f) id _ n2 l2 ?_
        rw [hsg] at ne; exact ne
    · rw [if_neg hx] at h; cases h

/-- `storeRule` at the fresh id + counters -/
theorem inv_storeRule {s : Store} (hI : Inv s) (t : RuleType) (name : Nat) (vu : Option Nat)
    (sg : List Signer) (pv : List Nat) (hsg : sg.Nodup) (hsl : sg.length ≤ MAX_SIGNERS) (hpn : pv.Nodup)
    (hpl : pv.length ≤ MAX_POLICIES) (hne : ¬ (sg = [] ∧ pv = [])) (hc : s.count < MAX_CONTEXT_RULES) :
    Inv { storeRule s s.nextId t name vu sg pv with nextId := s.nextId + 1, count := s.count + 1 } := by
  have hfresh : s.metas s.nextId = none := by
    cases hm : s.metas s.nextId with
    | none => rfl
    | some m => exact absurd (hI.lt_next _ m hm) (Nat.lt_irrefl _)
  refine ⟨?_, ?_, ?_, ?_, ?_, ?_, ?_, ?_⟩
  · intro t'
    by_cases e : t' = t
    · subst e
      simp only [storeRule, updT_same]
      rw [List.pairwise_append]
      refine ⟨hI.sorted _, by simp, ?_⟩
      intro a ha b hb
      rw [List.mem_singleton] at hb; subst hb
      obtain ⟨m, hm, _⟩ := (hI.ids_meta _ a).mp ha
      exact hI.lt_next a m hm
    · simp only [storeRule, updT_other _ _ _ _ e]; exact hI.sorted t'
  · intro t' id'
    by_cases e : id' = s.nextId
    · subst e
      simp only [storeRule, updN_same, Option.some.injEq, exists_eq_left']
      by_cases et : t' = t
      · subst et; simp [updT_same]
      · simp only [updT_other _ _ _ _ et]
        constructor
        · intro hm
          obtain ⟨m, hm', _⟩ := (hI.ids_meta t' _).mp hm
          rw [hfresh] at hm'; cases hm'
        · intro h; exact absurd h.symm et
    · simp only [storeRule, updN_other _ _ _ _ e]
      rw [← hI.ids_meta]
      by_cases et : t' = t
      · subst et
        simp only [updT_same, List.mem_append, List.mem_singleton]
        constructor
        · rintro (h | h)
          · exact h
          · exact absurd h e
        · intro h; exact Or.inl h
      · simp only [updT_other _ _ _ _ et]
  · intro id' m h
    by_cases e : id' = s.nextId
    · subst e; exact Nat.lt_succ_self _
    · simp only [storeRule, updN_other _ _ _ _ e] at h
      exact Nat.lt_succ_of_lt (hI.lt_next _ _ h)
  · intro id' l h
    by_cases e : id' = s.nextId
    · subst e
      simp only [storeRule, updN_same] at h
      injection h with h; subst h; exact ⟨hsg, hsl⟩
    · simp only [storeRule, updN_other _ _ _ _ e] at h; exact hI.signers_ok _ _ h
  · intro id' l h
    by_cases e : id' = s.nextId
    · subst e
      simp only [storeRule, updN_same] at h
      injection h with h; subst h; exact ⟨hpn, hpl⟩
    · simp only [storeRule, updN_other _ _ _ _ e] at h; exact hI.policies_ok _ _ h
  · intro id' m h
    by_cases e : id' = s.nextId
    · subst e
      simp only [storeRule, updN_same, Option.getD_some]; exact hne
    · simp only [storeRule, updN_other _ _ _ _ e] at h ⊢; exact hI.nonempty _ _ h
  · show s.count + 1 = _
    simp only [storeRule]
    rw [List.range_succ, List.filter_append, List.length_append, hI.count_eq]
    have h1 : (List.range s.nextId).filter (fun i => (updN s.metas s.nextId (some { name := name, ctype := t, validUntil := vu }) i).isSome)
        = (List.range s.nextId).filter (fun i => (s.metas i).isSome) := by
      apply List.filter_congr
      intro i hi
      have : i ≠ s.nextId := Nat.ne_of_lt (List.mem_range.mp hi)
      rw [updN_other _ _ _ _ this]
    rw [h1]
    simp [updN_same]
  · show s.count + 1 ≤ MAX_CONTEXT_RULES
    exact hc

theorem addContextRule_inv {s s' : Store} {now : Nat} {t : RuleType} {name : Nat} {vu : Option Nat}
    {sg : List Signer} {pm : List Nat} {io : Nat → Bool} {r : Rule} (hI : Inv s)
    (h : addContextRule s now t name vu sg pm io = .ok (s', r)) : Inv s' := by
  unfold addContextRule at h
  by_cases hc : s.count ≥ MAX_CONTEXT_RULES
  · rw [if_pos hc] at h; cases h
  · rw [if_neg hc] at h
    by_cases hd : hasDup sg = true
    · rw [if_pos hd] at h; cases h
    · rw [if_neg hd] at h
      cases h1 : checkValidUntil now vu with
      | error e => rw [h1] at h; cases h
      | ok u =>
        rw [h1] at h; dsimp only at h
        cases h2 : validateSignersAndPolicies sg (mapKeys pm) with
        | error e => rw [h2] at h; cases h
        | ok u2 =>
          rw [h2] at h; dsimp only at h
          cases h3 : validateAndSetFingerprint s t sg (mapKeys pm) with
          | error e => rw [h3] at h; cases h
          | ok s1 =>
            rw [h3] at h; dsimp only at h
            cases h4 : installAll io (mapKeys pm) with
            | error e => rw [h4] at h; cases h
            | ok u4 =>
              rw [h4] at h; dsimp only at h
              unfold bumpCounters at h
              by_cases h5 : s.nextId + 1 > U32_MAX
              · rw [if_pos h5] at h; cases h
              · rw [if_neg h5] at h
                dsimp only at h
                injection h with h
                injection h with hs' _
                subst hs'
                obtain ⟨⟨f, e1⟩, n1, _⟩ := validateAndSetFingerprint_ok h3
                obtain ⟨l1, l2, ne⟩ := validateSignersAndPolicies_ok h2
                subst e1
                have hc' : s.count < MAX_CONTEXT_RULES := by omega
                exact inv_storeRule (inv_fps hI f) t name vu sg (mapKeys pm) n1 l1 (mapKeys_nodup pm) l2 ne hc'

theorem removeContextRule_inv {s s' : Store} {id : Nat} (hI : Inv s) (h : removeContextRule s id = .ok s') :
    Inv s' := by
  unfold removeContextRule at h
  cases hg : getContextRule s id with
  | error e => rw [hg] at h; cases h
  | ok r =>
    rw [hg] at h; dsimp only at h
    cases h1 : removeFingerprint s r.ctype r.signers r.policies with
    | error e => rw [h1] at h; cases h
    | ok s1 =>
      rw [h1] at h; dsimp only at h
      obtain ⟨f, e1⟩ := removeFingerprint_ok h1
      subst e1
      obtain ⟨m, hm, hct, _⟩ := getContextRule_fields hg
      unfold decCount at h
      by_cases h0 : (dropRule { s with fps := f } id r.ctype).count = 0
      · rw [if_pos h0] at h; cases h
      · rw [if_neg h0] at h
        injection h with h; subst h
        have hlt : id < s.nextId := hI.lt_next id m hm
        have hnd : ∀ t, (s.ids t).Nodup := fun t => nodup_of_lt (hI.sorted t)
        refine ⟨?_, ?_, ?_, ?_, ?_, ?_, ?_, ?_⟩
        · intro t'
          by_cases e : t' = r.ctype
          · subst e
            simp only [dropRule, updT_same]
            exact (hI.sorted _).sublist (eraseLast_sublist _ _)
          · simp only [dropRule, updT_other _ _ _ _ e]; exact hI.sorted t'
        · intro t' id'
          by_cases e : id' = id
          · subst e
            simp only [dropRule, updN_same]
            constructor
            · intro hmem
              exfalso
              by_cases et : t' = r.ctype
              · subst et
                simp only [updT_same] at hmem
                exact ((mem_eraseLast _ _ _ (hnd _)).mp hmem).2 rfl
              · simp only [updT_other _ _ _ _ et] at hmem
                obtain ⟨m', hm', hc'⟩ := (hI.ids_meta t' _).mp hmem
                rw [hm] at hm'; injection hm' with hm'; subst hm'
                exact et (by rw [hct]; exact hc'.symm)
            · rintro ⟨m', hm', _⟩; cases hm'
          · simp only [dropRule, updN_other _ _ _ _ e]
            rw [← hI.ids_meta]
            by_cases et : t' = r.ctype
            · subst et
              simp only [updT_same]
              rw [mem_eraseLast _ _ _ (hnd _)]
              exact ⟨fun h => h.1, fun h => ⟨h, e⟩⟩
            · simp only [updT_other _ _ _ _ et]
        · intro id' m' h
          by_cases e : id' = id
          · subst e; simp only [dropRule, updN_same] at h; cases h
          · simp only [dropRule, updN_other _ _ _ _ e] at h; exact hI.lt_next _ _ h
        · intro id' l h
          by_cases e : id' = id
          · subst e; simp only [dropRule, updN_same] at h; cases h
          · simp only [dropRule, updN_other _ _ _ _ e] at h; exact hI.signers_ok _ _ h
        · intro id' l h
          by_cases e : id' = id
          · subst e; simp only [dropRule, updN_same] at h; cases h
          · simp only [dropRule, updN_other _ _ _ _ e] at h; exact hI.policies_ok _ _ h
        · intro id' m' h
          by_cases e : id' = id
          · subst e; simp only [dropRule, updN_same] at h; cases h
          · simp only [dropRule, updN_other _ _ _ _ e] at h ⊢; exact hI.nonempty _ _ h
        · show s.count - 1 = _
          simp only [dropRule]
          have := filter_clear_one (List.range s.nextId) (fun i => (s.metas i).isSome)
            (fun i => (updN s.metas id none i).isSome) id List.nodup_range (List.mem_range.mpr hlt)
            (by simp [hm]) (by simp [updN_same]) (fun i hi => by simp [updN_other _ _ _ _ hi])
          rw [hI.count_eq]; omega
        · show s.count - 1 ≤ MAX_CONTEXT_RULES
          have := hI.count_le; omega

theorem applyOp_inv {s s' : Store} {now : Nat} {op : Op} (hI : Inv s) (h : applyOp s now op = .ok s') : Inv s' := by
  cases op with
  | add t name vu sg pm io =>
    simp only [applyOp] at h
    cases ha : addContextRule s now t name vu sg pm io with
    | error e => rw [ha] at h; cases h
    | ok p =>
      obtain ⟨s1, r⟩ := p
      rw [ha] at h; dsimp only at h
      injection h with h; subst h
      exact addContextRule_inv hI ha
  | remove id => exact removeContextRule_inv hI h
  | setName id name => exact updateName_inv hI h
  | setValidUntil id vu => exact updateValidUntil_inv hI h
  | addSigner id x => exact addSigner_inv hI h
  | removeSigner id x => exact removeSigner_inv hI h
  | addPolicy id p io => exact addPolicy_inv hI h
  | removePolicy id p => exact removePolicy_inv hI h

theorem run_inv_of {s : Store} (hI : Inv s) (hist : List (Nat × Op)) : Inv (run s hist) := by
  induction hist generalizing s with
  | nil => exact hI
  | cons a rest ih =>
    obtain ⟨now, op⟩ := a
    unfold run
    cases h : applyOp s now op with
    | ok s' => exact ih (applyOp_inv hI h)
    | error e => exact ih hI

end OZ.SmartAccount
