import OZ.Lemmas.SmartAccountInv
import OZ.Model.SmartAccountMon
/-
Helper lemmas for the soundness proof of the C03 monitor (OZ/Props/C03Mon.lean), part 1:
list facts (the monitor's `sortDedup` / `filter (· != x)` / `mergeSort` against the model's
`mapKeys` / `eraseLast` / id lists), and the ghost list `allRules s` (all stored rules of a model
store by ascending id) that the monitor's own rule list must equal.
-/
namespace OZ.SmartAccount.Mon
open OZ.SmartAccount

theorem insertSorted_eq (x : Nat) (l : List Nat) : insertSorted x l = insertKey x l := by
  induction l with
  | nil => rfl
  | cons y ys ih =>
    unfold insertSorted insertKey
    by_cases h1 : x < y
    · rw [if_pos h1, if_pos h1]
    · rw [if_neg h1, if_neg h1]
      by_cases h2 : x = y
      · rw [if_pos h2, if_pos (by simp [h2])]
      · rw [if_neg h2, if_neg (by simp [h2]), ih]

theorem sortDedup_eq (l : List Nat) : sortDedup l = mapKeys l := by
  induction l with
  | nil => rfl
  | cons x xs ih =>
    show insertSorted x (sortDedup xs) = insertKey x (mapKeys xs)
    rw [ih, insertSorted_eq]

theorem filter_ne_eq_eraseLast {α : Type} [DecidableEq α] (x : α) (l : List α) (hn : l.Nodup) :
    l.filter (· != x) = eraseLast x l := by
  induction l with
  | nil => rfl
  | cons y ys ih =>
    rw [List.nodup_cons] at hn
    unfold eraseLast
    by_cases h1 : x ∈ ys
    · have hyx : y ≠ x := fun e => hn.1 (e ▸ h1)
      rw [if_pos h1, List.filter_cons_of_pos (by simp [hyx]), ih hn.2]
    · rw [if_neg h1]
      have hall : ys.filter (· != x) = ys := by
        rw [List.filter_eq_self]
        intro a ha
        have : a ≠ x := fun e => h1 (e ▸ ha)
        simp [this]
      by_cases h2 : y = x
      · rw [if_pos h2, List.filter_cons_of_neg (by simp [h2]), hall]
      · rw [if_neg h2, List.filter_cons_of_pos (by simp [h2]), hall]

/-- two strictly ascending lists with the same members are equal -/
theorem eq_of_sorted_mem_iff : ∀ (l1 l2 : List Nat), l1.Pairwise (· < ·) → l2.Pairwise (· < ·) →
    (∀ x, x ∈ l1 ↔ x ∈ l2) → l1 = l2
  | [], [], _, _, _ => rfl
  | [], b :: t, _, _, h => by have := (h b).mpr (by simp); cases this
  | a :: t, [], _, _, h => by have := (h a).mp (by simp); cases this
  | a :: t1, b :: t2, h1, h2, h => by
    rw [List.pairwise_cons] at h1 h2
    have hab : a = b := by
      have ha : a ∈ b :: t2 := (h a).mp (by simp)
      have hb : b ∈ a :: t1 := (h b).mpr (by simp)
      cases List.mem_cons.mp ha with
      | inl e => exact e
      | inr m =>
        cases List.mem_cons.mp hb with
        | inl e => exact e.symm
        | inr m' =>
          have := h2.1 a m
          have := h1.1 b m'
          omega
    subst hab
    congr 1
    apply eq_of_sorted_mem_iff t1 t2 h1.2 h2.2
    intro x
    constructor
    · intro hx
      have := (h x).mp (List.mem_cons_of_mem _ hx)
      cases List.mem_cons.mp this with
      | inl e => have := h1.1 x hx; omega
      | inr m => exact m
    · intro hx
      have := (h x).mpr (List.mem_cons_of_mem _ hx)
      cases List.mem_cons.mp this with
      | inl e => have := h2.1 x hx; omega
      | inr m => exact m

theorem filterMap_filter_of_none {α β} (f : α → Option β) (p : α → Bool) (l : List α)
    (h : ∀ x ∈ l, p x = false → f x = none) : l.filterMap f = (l.filter p).filterMap f := by
  induction l with
  | nil => rfl
  | cons a t ih =>
    have iht := ih (fun x hx => h x (List.mem_cons_of_mem _ hx))
    by_cases hp : p a = true
    · rw [List.filter_cons_of_pos hp, List.filterMap_cons, List.filterMap_cons, iht]
    · have hp' : p a = false := by simpa using hp
      rw [List.filter_cons_of_neg hp, List.filterMap_cons, h a (by simp) hp', iht]

theorem filterMap_congr' {α β} (f g : α → Option β) (l : List α) (h : ∀ x ∈ l, f x = g x) :
    l.filterMap f = l.filterMap g := by
  induction l with
  | nil => rfl
  | cons a t ih =>
    rw [List.filterMap_cons, List.filterMap_cons, h a (by simp), ih (fun x hx => h x (List.mem_cons_of_mem _ hx))]

/-- a strictly ascending list is the filter of any strictly ascending list that contains it -/
theorem sorted_sub_eq_filter (l1 l2 : List Nat) (h1 : l1.Pairwise (· < ·)) (h2 : l2.Pairwise (· < ·))
    (hsub : ∀ x ∈ l2, x ∈ l1) : l1.filter (fun x => decide (x ∈ l2)) = l2 := by
  apply eq_of_sorted_mem_iff _ _ (h1.sublist List.filter_sublist) h2
  intro x
  rw [List.mem_filter]
  constructor
  · rintro ⟨_, h⟩; simpa using h
  · intro h; exact ⟨hsub x h, by simpa using h⟩


theorem byIdAsc_of_sorted (l : List GRule) (h : l.Pairwise (fun a b => a.id < b.id)) : byIdAsc l = l := by
  unfold byIdAsc
  apply List.mergeSort_of_pairwise
  exact h.imp (fun hab => by simpa using Nat.le_of_lt hab)

/-- two permutations of each other that are both strictly descending by id are equal -/
theorem eq_of_perm_desc : ∀ (l1 l2 : List GRule), l1.Perm l2 → l1.Pairwise (fun a b => b.id < a.id) →
    l2.Pairwise (fun a b => b.id < a.id) → l1 = l2
  | [], l2, hp, _, _ => (List.Perm.nil_eq hp)
  | a :: t1, [], hp, _, _ => by have := hp.length_eq; simp at this
  | a :: t1, b :: t2, hp, h1, h2 => by
    rw [List.pairwise_cons] at h1 h2
    have hab : a = b := by
      have ha : a ∈ b :: t2 := hp.mem_iff.mp (by simp)
      have hb : b ∈ a :: t1 := hp.mem_iff.mpr (by simp)
      cases List.mem_cons.mp ha with
      | inl e => exact e
      | inr m =>
        cases List.mem_cons.mp hb with
        | inl e => exact e.symm
        | inr m' =>
          have := h2.1 a m
          have := h1.1 b m'
          omega
    subst hab
    congr 1
    exact eq_of_perm_desc t1 t2 (List.Perm.cons_inv hp) h1.2 h2.2

theorem byIdDesc_of_sorted (l : List GRule) (h : l.Pairwise (fun a b => a.id < b.id)) : byIdDesc l = l.reverse := by
  unfold byIdDesc
  have hperm := List.mergeSort_perm l (fun a b => decide (a.id ≥ b.id))
  have hsorted : (l.mergeSort (fun a b => decide (a.id ≥ b.id))).Pairwise (fun a b => decide (a.id ≥ b.id) = true) :=
    List.pairwise_mergeSort (le := fun a b => decide (a.id ≥ b.id))
      (fun a b c hab hbc => by simp at hab hbc ⊢; omega) (fun a b => by simp; omega) l
  apply eq_of_perm_desc _ _ (hperm.trans (List.reverse_perm l).symm)
  · -- strict: ids are distinct
    have hne : (l.mergeSort (fun a b => decide (a.id ≥ b.id))).Pairwise (fun a b => a.id ≠ b.id) := by
      have hl : l.Pairwise (fun a b => a.id ≠ b.id) := h.imp (fun hab => Nat.ne_of_lt hab)
      exact (hperm.pairwise_iff (fun {a b} (hab : a.id ≠ b.id) => (Ne.symm hab : b.id ≠ a.id))).mpr hl
    exact (hsorted.and hne).imp (fun ⟨h1, h2⟩ => by simp at h1; omega)
  · rw [List.pairwise_reverse]; exact h


def gAt (s : Store) (id : Nat) : Option GRule :=
  match getContextRule s id with
  | .ok r => some (toG r)
  | .error _ => none

/-- all stored rules by ascending id: what the monitor's ghost list must be -/
def allRules (s : Store) : List GRule := (List.range s.nextId).filterMap (gAt s)

theorem gAt_some {s : Store} {id : Nat} {g : GRule} :
    gAt s id = some g ↔ ∃ r, getContextRule s id = .ok r ∧ toG r = g := by
  unfold gAt
  cases h : getContextRule s id with
  | error e => simp
  | ok r => simp

theorem gAt_id {s : Store} {id : Nat} {g : GRule} (h : gAt s id = some g) : g.id = id := by
  obtain ⟨r, hr, hg⟩ := gAt_some.mp h
  rw [← hg]; exact getContextRule_id hr

theorem gAt_none_of_ge {s : Store} (hI : Inv s) {id : Nat} (h : s.nextId ≤ id) : gAt s id = none := by
  unfold gAt
  cases hg : getContextRule s id with
  | error e => rfl
  | ok r =>
    obtain ⟨m, hm, _⟩ := (getContextRule_ok_iff s id r).mp hg
    have := hI.lt_next id m hm
    omega

theorem filterMap_sorted (f : Nat → Option GRule) (hf : ∀ i g, f i = some g → g.id = i) :
    ∀ (l : List Nat), l.Pairwise (· < ·) → (l.filterMap f).Pairwise (fun a b => a.id < b.id)
  | [], _ => by simp
  | i :: t, h => by
    rw [List.pairwise_cons] at h
    have ih := filterMap_sorted f hf t h.2
    cases hfi : f i with
    | none => rw [List.filterMap_cons_none hfi]; exact ih
    | some g =>
      rw [List.filterMap_cons_some hfi, List.pairwise_cons]
      refine ⟨?_, ih⟩
      intro b hb
      obtain ⟨j, hj, hfj⟩ := List.mem_filterMap.mp hb
      rw [hf i g hfi, hf j b hfj]
      exact h.1 j hj

theorem range_sorted (n : Nat) : (List.range n).Pairwise (· < ·) := by
  simpa using List.pairwise_lt_range (n := n)

theorem allRules_sorted (s : Store) : (allRules s).Pairwise (fun a b => a.id < b.id) :=
  filterMap_sorted (gAt s) (fun _ _ h => gAt_id h) _ (range_sorted _)

theorem mem_allRules {s : Store} (hI : Inv s) {g : GRule} :
    g ∈ allRules s ↔ ∃ r, getContextRule s g.id = .ok r ∧ toG r = g := by
  unfold allRules
  rw [List.mem_filterMap]
  constructor
  · rintro ⟨i, _, hi⟩
    have := gAt_id hi
    subst this
    exact gAt_some.mp hi
  · rintro ⟨r, hr, hg⟩
    refine ⟨g.id, ?_, gAt_some.mpr ⟨r, hr, hg⟩⟩
    obtain ⟨m, hm, _⟩ := (getContextRule_ok_iff s g.id r).mp hr
    exact List.mem_range.mpr (hI.lt_next _ m hm)

theorem find_id_sorted : ∀ (l : List GRule), l.Pairwise (fun a b => a.id < b.id) → ∀ g ∈ l,
    l.find? (fun r => r.id == g.id) = some g
  | [], _, g, hg => by cases hg
  | a :: t, h, g, hg => by
    rw [List.pairwise_cons] at h
    cases List.mem_cons.mp hg with
    | inl e => subst e; rw [List.find?_cons_of_pos (by simp)]
    | inr m =>
      have : a.id < g.id := h.1 g m
      rw [List.find?_cons_of_neg (by simp; omega)]
      exact find_id_sorted t h.2 g m

theorem allRules_find {s : Store} (hI : Inv s) {id : Nat} {r : Rule} (h : getContextRule s id = .ok r) :
    (allRules s).find? (fun g => g.id == id) = some (toG r) := by
  have hid := getContextRule_id h
  have hm : toG r ∈ allRules s := (mem_allRules hI).mpr ⟨r, by show getContextRule s r.id = _; rw [hid]; exact h, rfl⟩
  have := find_id_sorted _ (allRules_sorted s) _ hm
  rw [show (toG r).id = id from hid] at this
  exact this


/-! ### the ghost list restricted to one type = the model's id list of that type -/

theorem allRules_filter_ty {s : Store} (hI : Inv s) (t : RuleType) :
    (allRules s).filter (fun g => g.ty == t) = (s.ids t).filterMap (gAt s) := by
  unfold allRules
  have hsub : ∀ x ∈ s.ids t, x ∈ List.range s.nextId := by
    intro x hx
    obtain ⟨m, hm, _⟩ := (hI.ids_meta t x).mp hx
    exact List.mem_range.mpr (hI.lt_next x m hm)
  rw [← sorted_sub_eq_filter (List.range s.nextId) (s.ids t) (range_sorted _) (hI.sorted t) hsub]
  rw [List.filter_filterMap]
  rw [filterMap_filter_of_none (fun x => Option.filter (fun g => g.ty == t) (gAt s x))
    (fun x => decide (x ∈ s.ids t))]
  · apply filterMap_congr'
    intro x hx
    rw [List.mem_filter] at hx
    have hx2 : x ∈ s.ids t := by simpa using hx.2
    obtain ⟨m, hm, hmt⟩ := (hI.ids_meta t x).mp hx2
    have hg : getContextRule s x = .ok _ := (getContextRule_ok_iff s x _).mpr ⟨m, hm, rfl⟩
    simp only [gAt, hg, toG]
    simp [Option.filter, hmt]
  · intro x _ hx
    have hx2 : x ∉ s.ids t := by simpa using hx
    cases hg : gAt s x with
    | none => rfl
    | some g =>
      obtain ⟨r, hr, hgr⟩ := gAt_some.mp hg
      obtain ⟨m, hm, hrm⟩ := (getContextRule_ok_iff s x r).mp hr
      have hty : g.ty ≠ t := by
        intro e
        apply hx2
        rw [hI.ids_meta]
        refine ⟨m, hm, ?_⟩
        rw [← e, ← hgr, hrm]; rfl
      simp [Option.filter, hty]

theorem allRules_length {s : Store} (hI : Inv s) : (allRules s).length = s.count := by
  rw [hI.count_eq]
  unfold allRules
  generalize List.range s.nextId = l
  induction l with
  | nil => rfl
  | cons i t ih =>
    have hiff : (gAt s i).isSome = (s.metas i).isSome := by
      unfold gAt getContextRule
      cases s.metas i <;> rfl
    cases hg : gAt s i with
    | none =>
      rw [hg] at hiff
      rw [List.filterMap_cons_none hg, List.filter_cons_of_neg (by rw [← hiff]; simp), ih]
    | some g =>
      rw [hg] at hiff
      rw [List.filterMap_cons_some hg, List.filter_cons_of_pos (by rw [← hiff]; rfl), List.length_cons,
        List.length_cons, ih]

/-- `get_context_rules` over an id list of existing rules, seen through `toG` -/
theorem getContextRules_toG (s : Store) : ∀ (ids : List Nat), (∀ id ∈ ids, ∃ r, getContextRule s id = .ok r) →
    ∃ rs, getContextRules s ids = .ok rs ∧ rs.map toG = ids.filterMap (gAt s)
  | [], _ => ⟨[], rfl, rfl⟩
  | id :: rest, h => by
    obtain ⟨r, hr⟩ := h id (by simp)
    obtain ⟨rs, hrs, hmap⟩ := getContextRules_toG s rest (fun i hi => h i (List.mem_cons_of_mem _ hi))
    refine ⟨r :: rs, ?_, ?_⟩
    · unfold getContextRules; rw [hr, hrs]
    · have : gAt s id = some (toG r) := gAt_some.mpr ⟨r, hr, rfl⟩
      rw [List.filterMap_cons_some this, List.map_cons, hmap]

end OZ.SmartAccount.Mon
