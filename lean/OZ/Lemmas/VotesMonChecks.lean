import OZ.Lemmas.VotesMon
/-
Helper lemmas for the soundness proof of the C13 monitor (OZ/Props/C13Mon.lean), monitor side:
the structured observation of a model state (`obsOf` / `modelObs`), the relation between the
monitor's ghost state and the model state (`Agree`), and one lemma per check of the monitor
(`chk…_quiet`, `cpFail_quiet`): on the model's own observation the check reports nothing.
-/
namespace OZ.Votes.Mon
open OZ.Host OZ.Votes

/-! ### lists over `List.range n` -/

theorem getD_map_range {α} (n : Nat) (f : Nat → α) (a : Nat) (d : α) (h : a < n) :
    ((List.range n).map f).getD a d = f a := by
  simp [List.getD_eq_getElem?_getD, h]

theorem getD_replicate_same {α} (n : Nat) (x : α) (a : Nat) : (List.replicate n x).getD a x = x := by
  simp [List.getD_eq_getElem?_getD, List.getElem?_replicate]
  split <;> rfl

theorem map_range_set {α} (n : Nat) (f : Nat → α) (a : Nat) (x : α) :
    ((List.range n).map f).set a x = (List.range n).map (upd f a x) := by
  apply List.ext_getElem?
  intro i
  rw [List.getElem?_set]
  simp only [List.getElem?_map, List.length_map, List.length_range]
  by_cases hi : i < n
  · by_cases hai : a = i
    · subst hai; simp [hi, upd]
    · simp [hi, hai, upd]; intro e; exact absurd e.symm hai
  · by_cases hai : a = i
    · subst hai; simp [hi]
    · simp [hi, hai]

theorem delegatedSum_map (l : List Nat) (dg : Nat → Option Nat) (b : Nat → Int) (a : Nat) :
    delegatedSum (l.map dg) (l.map b) a = (l.map (fun i => if dg i = some a then b i else 0)).sum := by
  unfold delegatedSum
  induction l with
  | nil => rfl
  | cons x xs ih =>
    simp only [List.map_cons, List.zip_cons_cons, List.filterMap_cons, List.sum_cons]
    by_cases h : dg x = some a
    · simp only [h, if_true, List.sum_cons]; rw [ih]
    · simp only [h, if_false]; rw [ih]; omega

theorem sumN_cast (l : List Nat) (f : Nat → Nat) :
    ((sumN l f : Nat) : Int) = (l.map (fun i => (f i : Int))).sum := by
  unfold sumN
  induction l with
  | nil => rfl
  | cons x xs ih => simp only [List.map_cons, List.sum_cons]; rw [← ih]; omega

/-! ### the model's observation as structured data

`obsOf w q ok` is what the driver's `parseObs` reads back from the line the driver's
`stepLine` / `showState` prints for the model state with view `w`, the query list `q=` of the op
line and the outcome tag: field by field the same getters over the same accounts `0 .. N-1`
(`now`, `bal`, `units` / `ncp` only for the contracts that expose them, `del`, `votes`, `ts`,
the `fut` flag, one `hist` row per queried ledger), a getter that fails being printed `E`
(dropped by the integer-list parser, `failed` set). The print / parse round trip of numerals is
the trusted part. -/

def resInt? (x : Except Err Nat) : Option Int :=
  match x with
  | .ok v => some (v : Int)
  | .error _ => none

def obsOf (w : View) (q : List Nat) (ok : Bool) : Obs :=
  { ok := ok
    now := w.v.now
    bal := (List.range N).map w.bal
    units := if w.kind = .ex then none else some ((List.range N).map (getVotingUnits w.v))
    del := (List.range N).map (getDelegate w.v)
    votes := (List.range N).filterMap (fun i => resInt? (getVotes w.v i))
    ncp := if w.kind = .ex then none else some ((List.range N).map (numCheckpoints w.v))
    ts := (resInt? (getTotalSupply w.v)).getD 0
    fut := if futOk w.v then "acc" else "rej"
    hist := q.map (fun l => (l, histRow w.v l))
    failed := !((List.range N).all (fun i => isOk (getVotes w.v i)) && isOk (getTotalSupply w.v)) }

/-- the observation line of the model `m` after an op line with query list `q` -/
def modelObs (m : M) (q : List Nat) (ok : Bool) : Obs := obsOf (viewOf m) q ok

def balL (w : View) : List Int := (List.range N).map w.bal
def votesL (v : State) : List Int := (List.range N).map (fun i => (votesOf v i : Int))
def delL (v : State) : List (Option Nat) := (List.range N).map v.delegatee
def tsI (v : State) : Int := (latestVotes v.total : Int)
def unitsL (w : View) : Option (List Nat) :=
  if w.kind = .ex then none else some ((List.range N).map w.v.units)
def ncpL (w : View) : Option (List Nat) :=
  if w.kind = .ex then none else some ((List.range N).map (fun a => (w.v.tl a).num))

/-- `o` is the observation of the (well-formed) state with view `w` for the query list `q` -/
structure IsObs (w : View) (q : List Nat) (o : Obs) : Prop where
  now : o.now = w.v.now
  bal : o.bal = balL w
  units : o.units = unitsL w
  del : o.del = delL w.v
  votes : o.votes = votesL w.v
  ncp : o.ncp = ncpL w
  ts : o.ts = tsI w.v
  fut : w.v.now ≤ U32_MAX → o.fut = "rej"
  hist : o.hist = q.map (fun l => (l, histRow w.v l))
  failed : o.failed = false

theorem futOk_false (v : State) (h : v.now ≤ U32_MAX) : futOk v = false := by
  have e1 : ∀ a l, l ≥ v.now → isOk (getVotesAtCheckpoint v a l) = false := by
    intro a l hl; unfold getVotesAtCheckpoint; rw [if_pos hl]; rfl
  have e2 : ∀ l, l ≥ v.now → isOk (getTotalSupplyAtCheckpoint v l) = false := by
    intro l hl; unfold getTotalSupplyAtCheckpoint; rw [if_pos hl]; rfl
  unfold futOk
  simp only [List.zipIdx_cons, List.zipIdx_nil, List.any_cons, List.any_nil]
  rw [e1 _ _ (Nat.le_refl _), e1 _ _ (Nat.le_succ _), e1 _ _ h,
    e2 _ (Nat.le_refl _), e2 _ (Nat.le_succ _), e2 _ h]
  rfl

theorem obsOf_isObs {w : View} (hw : WFAll w.v) (q : List Nat) (ok : Bool) : IsObs w q (obsOf w q ok) := by
  have ev : ∀ i, getVotes w.v i = .ok (votesOf w.v i) := fun i => latest_present (hw.1 i)
  have et : getTotalSupply w.v = .ok (latestVotes w.v.total) := latest_present hw.2
  refine ⟨rfl, rfl, rfl, rfl, ?_, rfl, ?_, ?_, rfl, ?_⟩
  · show (List.range N).filterMap (fun i => resInt? (getVotes w.v i)) = votesL w.v
    have : (fun i => resInt? (getVotes w.v i)) = some ∘ (fun i => (votesOf w.v i : Int)) := by
      funext i; rw [ev i]; rfl
    rw [this, List.filterMap_eq_map]; rfl
  · show (resInt? (getTotalSupply w.v)).getD 0 = tsI w.v
    rw [et]; rfl
  · intro h
    show (if futOk w.v then "acc" else "rej") = "rej"
    rw [futOk_false _ h]; rfl
  · show (!((List.range N).all (fun i => isOk (getVotes w.v i)) && isOk (getTotalSupply w.v))) = false
    have : (List.range N).all (fun i => isOk (getVotes w.v i)) = true := by
      rw [List.all_eq_true]; intro i _; rw [ev i]; rfl
    rw [this, et]; rfl

/-! ### history rows -/

theorem histRow_future (v : State) (l : Nat) (h : l ≥ v.now) : (histRow v l).any (· ≠ "E") = false := by
  have e1 : ∀ i, showRes (getVotesAtCheckpoint v i l) = "E" := by
    intro i; unfold getVotesAtCheckpoint; rw [if_pos h]; rfl
  have e2 : showRes (getTotalSupplyAtCheckpoint v l) = "E" := by
    unfold getTotalSupplyAtCheckpoint; rw [if_pos h]; rfl
  unfold histRow
  rw [List.any_eq_false]
  intro x hx
  rw [List.mem_append] at hx
  have : x = "E" := by
    rcases hx with hx | hx
    · obtain ⟨i, _, rfl⟩ := List.mem_map.mp hx; exact e1 i
    · rw [List.mem_singleton] at hx; rw [hx, e2]
  simp [this]

/-- a row of past answers, through the specification of a lookup -/
def pastRow (v : State) (q : Nat) : List String :=
  (List.range N).map (fun i => toString (valueAt (v.tl i) q)) ++ [toString (valueAt v.total q)]

theorem histRow_past {v : State} (hw : WFAll v) {q : Nat} (h : q < v.now) : histRow v q = pastRow v q := by
  have e1 : ∀ i, showRes (getVotesAtCheckpoint v i q) = toString (valueAt (v.tl i) q) := by
    intro i; unfold getVotesAtCheckpoint
    rw [if_neg (by omega), lookup_eq_valueAt (hw.1 i)]; rfl
  have e2 : showRes (getTotalSupplyAtCheckpoint v q) = toString (valueAt v.total q) := by
    unfold getTotalSupplyAtCheckpoint
    rw [if_neg (by omega), lookup_eq_valueAt hw.2]; rfl
  unfold histRow pastRow
  simp only [e1, e2]

theorem pastRow_samePast {v v' : State} (h : SamePast v v') {q : Nat} (hq : q < v.now) :
    pastRow v' q = pastRow v q := by
  have e1 := fun x => h.2.1 x q hq
  have e2 := h.2.2 q hq
  unfold pastRow
  simp only [e1, e2]

theorem histRow_samePast {v v' : State} (hw : WFAll v) (hw' : WFAll v') (h : SamePast v v') {q : Nat}
    (hq : q < v.now) : histRow v' q = histRow v q := by
  rw [histRow_past hw hq, histRow_past hw' (by have := h.1; omega), pastRow_samePast h hq]

theorem VInv.wfAll {start : Nat} {w : View} (hi : VInv start w) : WFAll w.v := ⟨hi.inv.wf, hi.inv.wfT⟩

theorem histRow_before_start {start : Nat} {w : View} (hi : VInv start w) {q : Nat} (hq : q < start) :
    histRow w.v q = List.replicate (N + 1) "0" := by
  have hle : start ≤ w.v.now := hi.past.1
  rw [histRow_past hi.wfAll (by omega), pastRow_samePast hi.past hq]
  unfold pastRow
  simp only [init, valueAt, Timeline.empty, scan]
  decide

/-! ### the ghost table -/

/-- every recorded interval is over and carries the row the model answers for its ledgers -/
def TableOK (table : List (Nat × Nat × List String)) (v : State) : Prop :=
  ∀ e ∈ table, e.2.1 ≤ v.now ∧ ∀ q, e.1 ≤ q → q < e.2.1 → histRow v q = e.2.2

theorem expected_sound {start : Nat} {w : View} (hi : VInv start w)
    {table : List (Nat × Nat × List String)} (ht : TableOK table w.v) {q : Nat} (_hq : q < w.v.now)
    {r : List String} (he : expected start table q = some r) : r = histRow w.v q := by
  unfold expected at he
  split at he
  · rename_i hlt
    injection he with he
    rw [← he, histRow_before_start hi hlt]
  · rw [Option.map_eq_some_iff] at he
    obtain ⟨e, hf, hr⟩ := he
    have hmem := List.mem_of_find?_eq_some hf
    have hp := List.find?_some hf
    obtain ⟨lo, hi', r'⟩ := e
    simp only [decide_eq_true_eq] at hp
    simp only at hr
    subst hr
    exact ((ht _ hmem).2 q hp.1 hp.2).symm

/-! ### one model call, as the checks need it -/

structure Step (start : Nat) (w w' : View) (p : Parsed) (ok : Bool) : Prop where
  inv' : VInv start w'
  rej : ok = false → w' = w
  acc : ok = true → Trans w w' p
  adv : p.op = "advance" → ok = true

theorem delTarget_advance {p : Parsed} (h : p.op = "advance") : delTarget p = none := by
  unfold delTarget
  split <;> simp_all

theorem Step.kind {start : Nat} {w w' : View} {p : Parsed} {ok : Bool} (st : Step start w w' p ok) :
    w'.kind = w.kind := by
  cases ok with
  | false => rw [st.rej rfl]
  | true => exact (st.acc rfl).kind

theorem Step.past {start : Nat} {w w' : View} {p : Parsed} {ok : Bool} (st : Step start w w' p ok) :
    SamePast w.v w'.v := by
  cases ok with
  | false => rw [st.rej rfl]; exact SamePast.refl _
  | true => exact (st.acc rfl).past

theorem Step.tl {start : Nat} {w w' : View} {p : Parsed} {ok : Bool} (st : Step start w w' p ok) :
    ∀ x, TlStep w.v.now (w.v.tl x) (w'.v.tl x) := by
  cases ok with
  | false => rw [st.rej rfl]; exact fun _ => .inl rfl
  | true => exact (st.acc rfl).tl

theorem Step.now {start : Nat} {w w' : View} {p : Parsed} {ok : Bool} (st : Step start w w' p ok) :
    w'.v.now = w.v.now + (if p.op = "advance" then p.n else 0) := by
  cases ok with
  | false =>
    rw [st.rej rfl]
    have : ¬ p.op = "advance" := fun h => by have := st.adv h; cases this
    rw [if_neg this]; rfl
  | true => exact (st.acc rfl).now

theorem Step.idle {start : Nat} {w w' : View} {p : Parsed} {ok : Bool} (st : Step start w w' p ok)
    (h : p.op = "advance") :
    w'.v.tl = w.v.tl ∧ w'.v.total = w.v.total ∧ w'.v.units = w.v.units ∧ w'.bal = w.bal ∧
    w'.v.delegatee = w.v.delegatee := by
  have hok := st.adv h
  subst hok
  obtain ⟨a, b, c, d⟩ := (st.acc rfl).idle h
  refine ⟨a, b, c, d, ?_⟩
  rw [(st.acc rfl).del, delTarget_advance h]; rfl

/-- the clock stands still, or no timeline was touched -/
theorem Step.nowOrTl {start : Nat} {w w' : View} {p : Parsed} {ok : Bool} (st : Step start w w' p ok)
    (x : Nat) : w'.v.now = w.v.now ∨ w'.v.tl x = w.v.tl x := by
  by_cases h : p.op = "advance"
  · right; rw [(st.idle h).1]
  · left; have := st.now; rw [if_neg h] at this; exact this

/-- the ghost delegates follow the model's delegates -/
theorem Step.del {start : Nat} {w w' : View} {p : Parsed} {ok : Bool} (st : Step start w w' p ok) :
    delL w'.v = delStep (delL w.v) p ok := by
  unfold delStep
  cases ok with
  | false =>
    rw [st.rej rfl]
    cases delTarget p with
    | none => rfl
    | some x => rfl
  | true =>
    have hd := (st.acc rfl).del
    unfold delL
    rw [hd]
    cases delTarget p with
    | none => rfl
    | some x =>
      obtain ⟨a, d⟩ := x
      simp only [delUpd, if_true]
      rw [map_range_set]

/-! ### monitor state ↔ model state -/

structure Agree (start : Nat) (m : Mon) (w : View) : Prop where
  start : m.start = start
  now : m.prev.now = w.v.now
  bal : m.prev.bal = balL w
  votes : m.prev.votes = votesL w.v
  del : m.prev.del = delL w.v
  ts : m.prev.ts = tsI w.v
  units : m.prev.units = none ∨ m.prev.units = unitsL w
  ncp : m.prev.ncp = ncpL w ∨ (m.prev.ncp = none ∧ ∀ a, a < N → (w.v.tl a).num = 0)
  gdel : m.del = delL w.v
  table : TableOK m.table w.v
  lastCp : w.kind ≠ .ex → m.lastCp = (List.range N).map (fun a => lastLedger (w.v.tl a))

/-- the counters the monitor compares the new ones with -/
theorem Agree.prevCount {start : Nat} {m : Mon} {w : View} (hA : Agree start m w) (hk : w.kind ≠ .ex)
    {a : Nat} (ha : a < N) : (m.prev.ncp.getD (List.replicate N 0)).getD a 0 = (w.v.tl a).num := by
  rcases hA.ncp with h | ⟨h, hz⟩
  · rw [h]; unfold ncpL; rw [if_neg hk]
    simp only [Option.getD]
    exact getD_map_range N _ a 0 ha
  · rw [h]; simp only [Option.getD]
    rw [getD_replicate_same, hz a ha]

/-! ### the checks, one by one -/

theorem chkIdle_quiet {start : Nat} {m : Mon} {w w' : View} {p : Parsed} {ok : Bool} {q : List Nat} {o : Obs}
    (hA : Agree start m w) (st : Step start w w' p ok) (ho : IsObs w' q o) : chkIdle m p o = none := by
  unfold chkIdle
  rw [if_neg]
  rintro ⟨hadv, hbad⟩
  obtain ⟨e1, e2, e3, e4, e5⟩ := st.idle hadv
  have hnow := st.now; rw [if_pos hadv] at hnow
  have hk := st.kind
  rcases hbad with h | h | h | h | h | h | h
  · exact h (by rw [ho.now, hA.now, hnow])
  · exact h (by rw [ho.votes, hA.votes]; unfold votesL votesOf; rw [e1])
  · exact h (by rw [ho.ts, hA.ts]; unfold tsI; rw [e2])
  · exact h (by rw [ho.bal, hA.bal]; unfold balL; rw [e4])
  · exact h (by rw [ho.del, hA.del]; unfold delL; rw [e5])
  · obtain ⟨h1, h2⟩ := h
    rcases hA.units with hu | hu
    · rw [hu] at h1; cases h1
    · exact h2 (by rw [ho.units, hu]; unfold unitsL; rw [hk, e3])
  · obtain ⟨h1, h2⟩ := h
    rcases hA.ncp with hu | ⟨hu, _⟩
    · exact h2 (by rw [ho.ncp, hu]; unfold ncpL; rw [hk, e1])
    · rw [hu] at h1; cases h1

theorem chkFuture_quiet {w : View} {q : List Nat} {o : Obs} (ho : IsObs w q o) : chkFuture o = none := by
  unfold chkFuture
  rw [if_neg]
  rintro ⟨h1, h2⟩
  exact h1 (ho.fut (by rw [← ho.now]; exact h2))

/-- Σ of the observed balances delegated to `a` = the model's delegated units -/
theorem delegatedSum_model {start : Nat} {w : View} (hi : VInv start w) (a : Nat) :
    delegatedSum (delL w.v) (balL w) a = (delegatedTo (List.range N) w.v a : Int) := by
  unfold delL balL
  rw [delegatedSum_map]
  unfold delegatedTo
  rw [sumN_cast]
  congr 1
  apply List.map_congr_left
  intro i _
  rw [← hi.bal i]
  split <;> rfl

theorem chkVotes_quiet {start : Nat} {w : View} {q : List Nat} {o : Obs} (hi : VInv start w)
    (ho : IsObs w q o) : chkVotes (delL w.v) o = none := by
  unfold chkVotes
  have : badVotes (delL w.v) o = none := by
    unfold badVotes
    rw [List.find?_eq_none]
    intro a ha
    have ha' : a < N := List.mem_range.mp ha
    rw [ho.votes, ho.bal, delegatedSum_model hi a]
    unfold votesL
    rw [getD_map_range N _ a 0 ha', hi.inv.votes a]
    simp
  rw [this]

theorem chkTotal_quiet {start : Nat} {w : View} {q : List Nat} {o : Obs} (hi : VInv start w)
    (ho : IsObs w q o) : chkTotal o = none := by
  unfold chkTotal
  rw [if_neg]
  intro h
  apply h
  rw [ho.ts, ho.bal]
  unfold tsI balL
  rw [hi.inv.total, sumN_cast]
  congr 1
  apply List.map_congr_left
  intro i _
  exact hi.bal i

theorem chkUnits_quiet {start : Nat} {w : View} {q : List Nat} {o : Obs} (hi : VInv start w)
    (ho : IsObs w q o) : chkUnits o = none := by
  unfold chkUnits
  rw [if_neg]
  rintro ⟨h1, h2⟩
  apply h2
  rw [ho.units, ho.bal]
  rw [ho.units] at h1
  unfold unitsL at h1 ⊢
  by_cases hk : w.kind = .ex
  · rw [if_pos hk] at h1; cases h1
  · rw [if_neg hk]
    simp only [Option.getD, List.map_map]
    unfold balL
    apply List.map_congr_left
    intro i _
    exact hi.bal i

theorem chkDelegate_quiet {w : View} {q : List Nat} {o : Obs} (ho : IsObs w q o) :
    chkDelegate (delL w.v) o = none := by
  unfold chkDelegate
  rw [if_neg]
  intro h; exact h ho.del

theorem chkHistory_quiet {start : Nat} {w : View} {q : List Nat} {o : Obs}
    {table : List (Nat × Nat × List String)} (hi : VInv start w) (ho : IsObs w q o)
    (ht : TableOK table w.v) : chkHistory start table o = none := by
  unfold chkHistory
  have : o.hist.find? (histBad start table o) = none := by
    rw [List.find?_eq_none]
    intro x hx
    rw [ho.hist] at hx
    obtain ⟨l, _, rfl⟩ := List.mem_map.mp hx
    unfold histBad
    simp only
    by_cases hl : l ≥ o.now
    · rw [if_pos hl, histRow_future _ _ (by rw [← ho.now]; exact hl)]; simp
    · rw [if_neg hl]
      have hl' : l < w.v.now := by rw [← ho.now]; omega
      cases he : expected start table l with
      | none => simp
      | some r =>
        have := expected_sound hi ht hl' he
        simp [this]
  rw [this]

theorem chkRollback_quiet {start : Nat} {m : Mon} {w w' : View} {p : Parsed} {ok : Bool} {q : List Nat} {o : Obs}
    (hA : Agree start m w) (st : Step start w w' p ok) (ho : IsObs w' q o) (hok : o.ok = ok) :
    chkRollback m o = none := by
  unfold chkRollback
  rw [if_neg]
  rintro ⟨hno, hbad⟩
  have hf : ok = false := by
    cases ok with
    | false => rfl
    | true => exact absurd hok hno
  have hw := st.rej hf
  subst hw
  rcases hbad with h | h | h | h | h | h
  · exact h (by rw [ho.bal, hA.bal])
  · exact h (by rw [ho.votes, hA.votes])
  · exact h (by rw [ho.del, hA.del])
  · exact h (by rw [ho.ts, hA.ts])
  · obtain ⟨h1, h2⟩ := h
    rcases hA.ncp with hu | ⟨hu, _⟩
    · exact h2 (by rw [ho.ncp, hu])
    · rw [hu] at h1; cases h1
  · exact h (by rw [ho.now, hA.now])

theorem chkNegative_quiet {start : Nat} {w : View} {q : List Nat} {o : Obs} (hi : VInv start w)
    (ho : IsObs w q o) : chkNegative o = none := by
  unfold chkNegative
  rw [if_neg]
  intro h
  rw [List.any_eq_true] at h
  obtain ⟨x, hx, hneg⟩ := h
  rw [ho.bal] at hx
  obtain ⟨i, _, rfl⟩ := List.mem_map.mp hx
  rw [← hi.bal i] at hneg
  simp at hneg
  omega

/-- the checkpoint-counter rules for one account whose timeline makes one `TlStep` -/
theorem cpCheck_quiet {m : Mon} {o : Obs} {a now now' : Nat} {t t' : Timeline}
    (hs : TlStep now t t') (hn : now' = now ∨ t' = t) (hl : m.lastCp.getD a none = lastLedger t)
    (hon : o.now = now') (hv : o.votes.getD a 0 = (latestVotes t' : Int))
    (hpv : m.prev.votes.getD a 0 = (latestVotes t : Int)) : cpCheck m o a t'.num t.num = none := by
  unfold cpCheck
  rcases hs.facts with ⟨h1, h2, h3⟩ | ⟨h1, h2, h3⟩
  · rw [if_neg (by omega), if_neg (by omega), if_neg (fun h => by have := h.1; omega), if_neg]
    rintro ⟨_, hv', hl'⟩
    have hne : latestVotes t' ≠ latestVotes t := fun e => hv' (by rw [hv, hpv, e])
    have hlast := h3 hne
    rcases hn with hn | hn
    · exact hl' (by rw [hl, hlast, hon, hn])
    · exact hne (by rw [hn])
  · rw [if_neg (by omega), if_neg (by omega), if_neg, if_neg (fun h => by have := h.1; omega)]
    rintro ⟨_, hl'⟩
    rw [hl] at hl'
    rcases hn with hn | hn
    · exact h2 (by rw [hl', hon, hn])
    · rw [hn] at h1; omega

theorem lastCp_one {now now' : Nat} {t t' : Timeline} (hs : TlStep now t t') (hn : now' = now ∨ t' = t) :
    (if t'.num > t.num then some now' else lastLedger t) = lastLedger t' := by
  rcases hs.facts with ⟨h1, h2, _⟩ | ⟨h1, _, h3⟩
  · rw [if_neg (by omega), h2]
  · rw [if_pos (by omega), h3]
    rcases hn with hn | hn
    · rw [hn]
    · rw [hn] at h1; omega

theorem cpFail_quiet {start : Nat} {m : Mon} {w w' : View} {p : Parsed} {ok : Bool} {q : List Nat} {o : Obs}
    (hA : Agree start m w) (st : Step start w w' p ok) (ho : IsObs w' q o) : cpFail m o = none := by
  unfold cpFail
  have hk := st.kind
  rw [ho.ncp]
  by_cases hex : w.kind = .ex
  · unfold ncpL; rw [hk, if_pos hex]
  · rcases hA.ncp with hp | ⟨hp, _⟩
    · rw [hp]
      unfold ncpL
      rw [hk, if_neg hex, if_neg hex]
      simp only
      rw [List.findSome?_eq_none_iff]
      intro a ha
      have ha' : a < N := List.mem_range.mp ha
      rw [getD_map_range N _ a 0 ha', getD_map_range N _ a 0 ha']
      refine cpCheck_quiet (now := w.v.now) (now' := w'.v.now) (st.tl a) (st.nowOrTl a) ?_ ho.now ?_ ?_
      · rw [hA.lastCp hex]; exact getD_map_range N _ a none ha'
      · rw [ho.votes]; exact getD_map_range N _ a 0 ha'
      · rw [hA.votes]; exact getD_map_range N _ a 0 ha'
    · rw [hp]
      cases ncpL w' <;> rfl

/-- the monitor's new `lastCp` describes the model's new timelines -/
theorem lastCpStep_agree {start : Nat} {m : Mon} {w w' : View} {p : Parsed} {ok : Bool} {q : List Nat} {o : Obs}
    (hA : Agree start m w) (st : Step start w w' p ok) (ho : IsObs w' q o) (hex : w'.kind ≠ .ex) :
    lastCpStep m o = (List.range N).map (fun a => lastLedger (w'.v.tl a)) := by
  have hk := st.kind
  have hex' : w.kind ≠ .ex := by rw [← hk]; exact hex
  unfold lastCpStep
  rw [ho.ncp]
  unfold ncpL
  rw [if_neg hex]
  simp only
  apply List.map_congr_left
  intro a ha
  have ha' : a < N := List.mem_range.mp ha
  rw [getD_map_range N _ a 0 ha', hA.prevCount hex' ha', hA.lastCp hex', getD_map_range N _ a none ha',
    ho.now]
  exact lastCp_one (st.tl a) (st.nowOrTl a)

/-- the new ghost table is sound for the new state -/
theorem tableStep_ok {start : Nat} {m : Mon} {w w' : View} {p : Parsed} {ok : Bool} {o : Obs}
    (hi : VInv start w) (hA : Agree start m w) (st : Step start w w' p ok) :
    TableOK (tableStep m p o) w'.v := by
  have hsp := st.past
  have hold : TableOK m.table w'.v := by
    intro e he
    obtain ⟨h1, h2⟩ := hA.table e he
    refine ⟨Nat.le_trans h1 hsp.1, fun q' hq1 hq2 => ?_⟩
    rw [histRow_samePast hi.wfAll st.inv'.wfAll hsp (by omega)]
    exact h2 q' hq1 hq2
  unfold tableStep
  split
  · rename_i hc
    obtain ⟨hadv, _, _⟩ := hc
    obtain ⟨e1, e2, _, _, _⟩ := st.idle hadv
    have hnow := st.now; rw [if_pos hadv] at hnow
    intro e he
    rcases List.mem_cons.mp he with he | he
    · subst he
      simp only
      rw [hA.now]
      refine ⟨by omega, fun q' hq1 hq2 => ?_⟩
      rw [histRow_past st.inv'.wfAll (by omega)]
      unfold pastRow rowOf
      rw [e1, e2, valueAt_recent hi.inv.wfT hq1, hA.votes, hA.ts]
      have : ∀ i, valueAt (w.v.tl i) q' = votesOf w.v i := fun i => valueAt_recent (hi.inv.wf i) hq1
      simp only [this]
      unfold votesL tsI
      rw [List.map_map]
      rfl
    · exact hold e he
  · exact hold

/-- the monitor's initial state (`minit`) describes the model's initial state (`init`) -/
theorem init_agree (k : Kind) (c : Cfg) (start : Nat) :
    Agree start (monInit start) (viewOf (M.init k c start)) := by
  have e : viewOf (M.init k c start) = ⟨k, OZ.Votes.init start, fun _ => 0⟩ := by
    cases k <;> rfl
  rw [e]
  exact ⟨rfl, rfl, rfl, rfl, rfl, rfl, .inl rfl, .inr ⟨rfl, fun _ _ => rfl⟩, rfl,
    (fun e he => by cases he), fun _ => rfl⟩

end OZ.Votes.Mon
