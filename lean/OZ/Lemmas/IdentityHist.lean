import OZ.Lemmas.Identity
import OZ.Lemmas.ClaimIssuer
/-
Histories for C15: operation histories of one claim issuer, executable histories of the whole
stack (for concrete witnesses), the assumption on the signature oracle, example worlds.
-/
namespace OZ.ClaimIssuer
open OZ.Host OZ.Identity

/-- assumption on the signature oracle ("cryptography assumed"): signature bytes that verify under
a key verify for ONE message only (ideal, unforgeable signatures over an injective encoding) -/
def Binding {σ : Type} (V : Verifier σ) : Prop :=
  ∀ scheme pk m m' sig, V scheme pk m sig = true → V scheme pk m' sig = true → m = m'

/-- the state-changing entry points of a claim issuer built from the library helpers; `allow`
carries the storage of the registry contract it consults, as it is at that moment -/
inductive KeyOp where
  | allow (reg : Option Reg) (self pk registry scheme topic : Nat)
  | remove (pk registry scheme topic : Nat)
  | invalidate (identity topic : Nat)
  | revoke (identity topic : Nat) (data : List Nat) (revoked : Bool)

def KeyOp.apply (s : Issuer) : KeyOp → Except Err Issuer
  | .allow reg self pk registry scheme topic => allowKey s reg self pk registry scheme topic
  | .remove pk registry scheme topic => removeKey s pk registry scheme topic
  | .invalidate d t => invalidateClaimSignatures s d t
  | .revoke d t data b => .ok (setClaimRevoked s d t data b)

def issuerStep (s : Issuer) (op : KeyOp) : Issuer :=
  match op.apply s with
  | .ok s' => s'
  | .error _ => s

def issuerReplay (ops : List KeyOp) : Issuer := ops.foldl issuerStep Issuer.empty

theorem inv_keyOp {s s' : Issuer} (op : KeyOp) (h : s.Inv) (e : op.apply s = .ok s') : s'.Inv := by
  cases op with
  | allow reg self pk registry scheme topic => exact inv_allowKey h e
  | remove pk registry scheme topic => exact inv_removeKey h e
  | invalidate d t => exact inv_invalidate h e
  | revoke d t data b =>
    simp only [KeyOp.apply] at e
    injection e with e; subst e; exact inv_setClaimRevoked h

theorem inv_issuerStep {s : Issuer} (op : KeyOp) (h : s.Inv) : (issuerStep s op).Inv := by
  unfold issuerStep
  cases e : op.apply s with
  | ok s' => exact inv_keyOp op h e
  | error _ => exact h

theorem inv_issuerFoldl (ops : List KeyOp) : ∀ {s : Issuer}, s.Inv → (ops.foldl issuerStep s).Inv := by
  induction ops with
  | nil => intro s h; exact h
  | cons op rest ih => intro s h; exact ih (inv_issuerStep op h)

theorem inv_issuerReplay (ops : List KeyOp) : (issuerReplay ops).Inv := inv_issuerFoldl ops inv_empty

end OZ.ClaimIssuer

namespace OZ.Identity
open OZ.Host OZ.ClaimIssuer

variable {σ : Type}

/-- one operation with the host's rollback -/
def stepW (V : Verifier σ) (W : World σ) (op : Op σ) : World σ :=
  match applyOp V W op with
  | .ok W' => W'
  | .error _ => W

def runOps (V : Verifier σ) (W : World σ) (ops : List (Op σ)) : World σ := ops.foldl (stepW V) W

def Op.isRemoveClaim : Op σ → Bool
  | .removeClaim _ _ _ => true
  | _ => false

theorem safe_of_not_remove {W : World σ} {op : Op σ} (h : op.isRemoveClaim = false) : op.safe W := by
  cases op <;> first | trivial | (simp [Op.isRemoveClaim] at h)

/-- executable histories without `remove_claim` are reachable histories -/
theorem reach_runOps (V : Verifier σ) (W0 : World σ) (ops : List (Op σ)) :
    ∀ {W : World σ}, Reach V W0 W → (∀ op ∈ ops, op.isRemoveClaim = false) → Reach V W0 (runOps V W ops) := by
  induction ops with
  | nil => intro W h _; exact h
  | cons op rest ih =>
    intro W h hs
    apply ih
    · unfold stepW
      cases e : applyOp V W op with
      | ok W' => exact Reach.step op h (safe_of_not_remove (hs op (List.mem_cons_self ..))) e
      | error _ => exact h
    · intro o ho; exact hs o (List.mem_cons_of_mem _ ho)

/-! ### example worlds (ideal signatures: the signature bytes ARE the signed tuple) -/

def idealV : Verifier Msg := fun _ _ m sig => decide (sig = m)

theorem idealV_binding : Binding idealV := by
  intro scheme pk m m' sig h1 h2
  simp only [idealV, decide_eq_true_eq] at h1 h2
  rw [← h1, ← h2]

/-- registries at 0 and 1, issuers at 4 and 5, identity contracts at 8 and 9, everything empty -/
def freshWorld (τ : Type) : World τ :=
  { env := { network := 0, timestamp := 5 },
    regs := fun a => if a = 0 ∨ a = 1 then some Reg.empty else none,
    irs := Irs.empty,
    ids := fun a => if a = 8 ∨ a = 9 then some IdStore.empty else none,
    issuers := fun a => if a = 4 ∨ a = 5 then some Issuer.empty else none,
    vCti := none, vIrs := false }

theorem freshWorld_fresh (τ : Type) : (freshWorld τ).Fresh := by
  constructor
  · intro ra r h
    simp only [freshWorld] at h
    split at h
    · injection h with h; exact h.symm
    · cases h
  · intro d st h
    simp only [freshWorld] at h
    split at h
    · injection h with h; exact h.symm
    · cases h

/-- claim data: created_at = 0, valid_until = 9 -/
def exData : List Nat := [0, 0, 0, 0, 0, 0, 0, 0, 0, 0, 0, 0, 0, 0, 0, 9]

/-- issuer 4's claim about identity 8 for topic 1, signed (nonce 0) with key 1, Ed25519 -/
def exClaim : Claim Msg :=
  { topic := 1, scheme := 101, issuer := 4,
    sig := { len := 96, pk := 1,
             sig := { network := 0, issuer := 4, identity := 8, topic := 1, nonce := 0, data := exData } },
    data := exData }

/-- account 11 ↦ identity 8; topic 1 required, issuer 4 trusted for it and allowing key 1; the
identity holds issuer 4's claim -/
def exOps : List (Op Msg) :=
  [ .setIrs, .setCti 0, .reg 0 (.addTopic 1), .reg 0 (.addIssuer 4 [1]), .allowKey 4 1 101 0 1,
    .irsAdd 11 8, .addClaim 8 exClaim ]

def exWorld : World Msg := runOps idealV (freshWorld Msg) exOps

/-- the history of DESIGN.md §8-4: topic 7 required, nobody trusted for it, identity 8 holds nothing -/
def cexOps : List (Op Unit) := [ .setIrs, .setCti 0, .irsAdd 11 8, .reg 0 (.addTopic 7) ]

def noV : Verifier Unit := fun _ _ _ _ => false

def cexWorld : World Unit := runOps noV (freshWorld Unit) cexOps

end OZ.Identity
