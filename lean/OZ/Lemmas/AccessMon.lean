import OZ.Lemmas.AccessOps
import OZ.Model.AccessMon
/-
Helper lemmas for the soundness proof of the C06 monitor (OZ/Props/C06Mon.lean): list facts
(`eraseDups`, `firstFail`), the role block of a state satisfying the storage invariant passes
`checkRole`, the existing-roles list passes `existingCheck`, and the per-call facts behind the
verdict and the holder checks.
-/
namespace OZ.Access.Mon
open OZ.Host OZ.Access

/-! ### lists -/

theorem firstFail_none {α} {f : α → Option String} {l : List α} (h : ∀ x, x ∈ l → f x = none) :
    firstFail f l = none := by
  induction l with
  | nil => rfl
  | cons x xs ih =>
    unfold firstFail
    rw [h x (List.mem_cons_self ..)]
    exact ih (fun y hy => h y (List.mem_cons_of_mem _ hy))

theorem filter_ne_of_not_mem {a : Nat} {l : List Nat} (h : a ∉ l) :
    l.filter (fun b => !b == a) = l := by
  rw [List.filter_eq_self]
  intro b hb
  have : b ≠ a := fun e => h (e ▸ hb)
  simpa using this

theorem eraseDups_of_nodup : ∀ l : List Nat, l.Nodup → l.eraseDups = l
  | [], _ => rfl
  | a :: as, h => by
    rw [List.nodup_cons] at h
    rw [List.eraseDups_cons, filter_ne_of_not_mem h.1, eraseDups_of_nodup as h.2]

theorem nodupB_of_nodup {l : List Nat} (h : l.Nodup) : nodupB l = true := by
  unfold nodupB
  rw [eraseDups_of_nodup l h]
  simp

/-- a list of answers none of which failed is the list of its values -/
theorem map_some_filterMap {α} (l : List (Option α)) (h : ∀ x, x ∈ l → ∃ a, x = some a) :
    (l.filterMap id).map some = l := by
  induction l with
  | nil => rfl
  | cons x xs ih =>
    obtain ⟨a, ha⟩ := h x (List.mem_cons_self ..)
    subst ha
    simp only [List.filterMap_cons, id, List.map_cons]
    rw [ih (fun y hy => h y (List.mem_cons_of_mem _ hy))]

/-! ### the role block of a state -/

theorem toOption_getRoleMember (s : State) (r i : Nat) :
    (getRoleMember s r i).toOption = s.accounts r i := by
  unfold getRoleMember
  cases s.accounts r i <;> rfl

theorem members_eq (s : State) (r : Nat) :
    members s r = (List.range (cnt s r)).map (s.accounts r) := by
  unfold members
  apply List.map_congr_left
  intro i _
  exact toOption_getRoleMember s r i

theorem members_all_some {s : State} {r : Nat} (hi : RoleInv s r) :
    ∀ x, x ∈ members s r → ∃ a, x = some a := by
  intro x hx
  rw [members_eq, List.mem_map] at hx
  obtain ⟨i, hi', rfl⟩ := hx
  obtain ⟨a, ha, -⟩ := hi.fwd i (List.mem_range.mp hi')
  exact ⟨a, ha⟩

/-- the accounts enumerated for role `r` -/
def enumOf (s : State) (r : Nat) : List Nat := (members s r).filterMap id

theorem memOf_modelRole (s : State) (r : Nat) : memOf (modelRole s r) = enumOf s r := rfl

theorem enumOf_some {s : State} {r : Nat} (hi : RoleInv s r) : (enumOf s r).map some = members s r :=
  map_some_filterMap _ (members_all_some hi)

theorem members_length (s : State) (r : Nat) : (members s r).length = cnt s r := by
  simp [members]

theorem enumOf_length {s : State} {r : Nat} (hi : RoleInv s r) : (enumOf s r).length = cnt s r := by
  rw [← members_length s r, ← enumOf_some hi, List.length_map]

theorem members_getElem? {s : State} {r i : Nat} (h : i < cnt s r) :
    (members s r)[i]? = some (s.accounts r i) := by
  rw [members_eq, List.getElem?_map, List.getElem?_range h]
  rfl

theorem enumOf_getElem? {s : State} {r i a : Nat} (hi : RoleInv s r) (h : s.hasRole a r = some i) :
    (enumOf s r)[i]? = some a := by
  obtain ⟨hlt, hacc⟩ := hi.back a i h
  have h1 := members_getElem? (s := s) (r := r) hlt
  rw [← enumOf_some hi, List.getElem?_map, hacc] at h1
  cases hx : (enumOf s r)[i]? with
  | none => rw [hx] at h1; cases h1
  | some b => rw [hx] at h1; simp at h1; rw [h1]

theorem mem_enumOf {s : State} {r a : Nat} (hi : RoleInv s r) :
    a ∈ enumOf s r ↔ memb s a r = true := by
  constructor
  · intro h
    obtain ⟨i, hlt, hget⟩ := List.getElem_of_mem h
    rw [enumOf_length hi] at hlt
    obtain ⟨b, hb1, hb2⟩ := hi.fwd i hlt
    have h2 := enumOf_getElem? hi hb2
    rw [List.getElem?_eq_getElem (by rw [enumOf_length hi]; exact hlt), hget] at h2
    injection h2 with h2; subst h2
    simp [memb, hasRoleQ, hb2]
  · intro h
    simp only [memb, hasRoleQ, Option.isSome_iff_exists] at h
    obtain ⟨i, hi'⟩ := h
    exact List.mem_of_getElem? (enumOf_getElem? hi hi')

theorem enumOf_nodup {s : State} {r : Nat} (hi : RoleInv s r) : (enumOf s r).Nodup := by
  unfold List.Nodup
  rw [List.pairwise_iff_getElem]
  intro i j hi' hj hij e
  have hi2 := hi'; have hj2 := hj
  rw [enumOf_length hi] at hi2 hj2
  obtain ⟨a, _, ha⟩ := hi.fwd i hi2
  obtain ⟨b, _, hb⟩ := hi.fwd j hj2
  have e1 := enumOf_getElem? hi ha
  have e2 := enumOf_getElem? hi hb
  rw [List.getElem?_eq_getElem hi'] at e1
  rw [List.getElem?_eq_getElem hj] at e2
  injection e1 with e1; injection e2 with e2
  rw [e1, e2] at e; subst e
  rw [ha] at hb; injection hb with e; omega

theorem idxAt_modelRole (s : State) (r : Nat) {a : Nat} (h : a ∈ accs) :
    idxAt (modelRole s r) a = hasRoleQ s a r := by
  have hlt : a < N := List.mem_range.mp h
  unfold idxAt modelRole accs
  simp only
  rw [List.getElem?_map, List.getElem?_range hlt]
  rfl

theorem showOob_F {s : State} {r : Nat} (hi : RoleInv s r) : showOob s r = "F" := by
  unfold showOob getRoleMember
  rw [hi.beyond (cnt s r) (Nat.le_refl _)]

/-- **the role block of a state satisfying the storage invariant passes the refinement check**
against the membership relation of that state and its list of existing roles -/
theorem checkRole_model {s : State} (hi : Inv s) (r : Nat) :
    checkRole (memb s) s.existing (modelRole s r) = none := by
  have hr := hi.role r
  have c1 : (memOf (modelRole s r)).length = (modelRole s r).members.length := by
    rw [memOf_modelRole, enumOf_length hr]; exact (members_length s r).symm
  have c2 : (modelRole s r).members.length = (modelRole s r).count := members_length s r
  have c3 : nodupB (memOf (modelRole s r)) = true := nodupB_of_nodup (enumOf_nodup hr)
  have c4 : (modelRole s r).oob = "F" := showOob_F hr
  have c5 : hasRoleDiffers (memb s) (modelRole s r) = false := by
    unfold hasRoleDiffers
    rw [List.any_eq_false]
    intro a ha
    rw [idxAt_modelRole s r ha]
    simp [memb, modelRole]
  have c6 : membersDiffer (memb s) (modelRole s r) = false := by
    unfold membersDiffer
    rw [Bool.or_eq_false_iff, List.any_eq_false, List.any_eq_false, memOf_modelRole]
    refine ⟨?_, ?_⟩
    · intro a ha
      have := (mem_enumOf hr).mp ha
      simp [modelRole, this]
    · intro a _
      show ¬ (memb s a r && !(enumOf s r).contains a) = true
      cases hm : memb s a r with
      | false => simp
      | true => simp [(mem_enumOf hr).mpr hm]
  have c7 : indexWrong (modelRole s r) = false := by
    unfold indexWrong
    rw [List.any_eq_false]
    intro a ha
    rw [idxAt_modelRole s r ha, memOf_modelRole]
    cases hx : hasRoleQ s a r with
    | none => simp
    | some i => simp [enumOf_getElem? hr hx]
  have c8 : ((s.existing.contains (modelRole s r).role) != decide ((modelRole s r).count > 0)) = false := by
    show ((s.existing.contains r) != decide (cnt s r > 0)) = false
    by_cases h : 0 < cnt s r
    · have := (hi.exIff r).mpr h
      simp [this, h]
    · have : r ∉ s.existing := fun hm => h ((hi.exIff r).mp hm)
      simp [this, h]
  unfold checkRole
  rw [if_neg (by simp [c1]), if_neg (by simp [c2]), if_neg (by simp [c3]), if_neg (by simp [c4]),
    if_neg (by simp [c5]), if_neg (by simp [c6]), if_neg (by simp [c7]), if_neg (by rw [c8]; simp)]

/-! ### the existing-roles list of a state -/

theorem existingCheck_model {s : State} (hi : Inv s) (touched accts : List Nat)
    (hacc : ∀ a r, memb s a r = true → a ∈ accts) :
    existingCheck (memb s) touched accts s.existing = none := by
  have c1 : nodupB s.existing = true := nodupB_of_nodup hi.exNodup
  have c2 : ¬ s.existing.length > 256 := by have := hi.exLen; unfold MAX_ROLES at this; omega
  have c3 : existingEmpty (memb s) accts s.existing = false := by
    unfold existingEmpty
    rw [List.any_eq_false]
    intro r hr
    obtain ⟨a, -, ha⟩ := (hi.role r).fwd 0 ((hi.exIff r).mp hr)
    have hm : memb s a r = true := by simp [memb, hasRoleQ, ha]
    have : (univ accts).any (fun a => memb s a r) = true := by
      rw [List.any_eq_true]
      exact ⟨a, by unfold univ; exact List.mem_append_right _ (hacc a r hm), hm⟩
    simp [this]
  have c4 : existingMissing (memb s) touched s.existing = false := by
    unfold existingMissing
    rw [List.any_eq_false]
    intro r _
    cases hany : accs.any (fun a => memb s a r) with
    | false => simp
    | true =>
      rw [List.any_eq_true] at hany
      obtain ⟨a, -, ha⟩ := hany
      simp only [memb, hasRoleQ, Option.isSome_iff_exists] at ha
      obtain ⟨i, hi'⟩ := ha
      have hlt := ((hi.role r).back a i hi').1
      have : r ∈ s.existing := (hi.exIff r).mpr (by omega)
      simp [this]
  unfold existingCheck
  rw [if_neg (by simp [c1]), if_neg c2, if_neg (by simp [c3]), if_neg (by simp [c4])]

/-! ### monitor state ↔ model state -/

/-- the storage invariant, the plain set, and the hand-over invariants of the admin / owner
sub-machines (each with its own ghost log of offers) -/
structure MInv (c : Cfg) (x : GS) : Prop where
  ginv : GInv x
  adm : ∃ g, OZ.RoleTransfer.Inv c ⟨x.s.adm, g⟩
  own : ∃ g, OZ.RoleTransfer.Inv c ⟨x.s.own, g⟩

/-- monitor state and (model state + plain set) describe the same point of a history -/
structure Agree (m : Mon) (x : GS) : Prop where
  g : m.g = x.g
  admin : m.admin = getAdmin x.s
  owner : m.owner = x.s.own.holder
  ra : m.ra = (List.range R).map (getRoleAdmin x.s)
  raG : m.raG = x.s.roleAdmin
  str : m.first = false → m.stateStr = persistStr x.s
  accts : ∀ a r, x.g a r = true → a ∈ m.accts

theorem stepG_s (c : Cfg) (x : GS) (a : List Nat × Op) : (stepG c x a).s = step c x.s a := by
  unfold stepG step
  cases apply c x.s a.1 a.2 <;> rfl

theorem initG_minv (c : Cfg) (admin owner : Option Nat) (now : Nat) : MInv c (initG admin owner now) :=
  ⟨initG_ginv admin owner now, ⟨none, OZ.RoleTransfer.init_inv c admin now⟩,
    ⟨none, OZ.RoleTransfer.init_inv c owner now⟩⟩

theorem sub_inv (c : Cfg) (f : OZ.RoleTransfer.Flavor) {t : RT} (h : ∃ g, OZ.RoleTransfer.Inv c ⟨t, g⟩)
    (l : List (List Nat × OZ.RoleTransfer.Op)) :
    ∃ g, OZ.RoleTransfer.Inv c ⟨OZ.RoleTransfer.run c f t l, g⟩ := by
  obtain ⟨g, hg⟩ := h
  have h1 := OZ.RoleTransfer.runG_inv c f hg l
  have h2 : (OZ.RoleTransfer.runG c f ⟨t, g⟩ l).s = OZ.RoleTransfer.run c f t l :=
    OZ.RoleTransfer.runG_s c f ⟨t, g⟩ l
  refine ⟨(OZ.RoleTransfer.runG c f ⟨t, g⟩ l).g, ?_⟩
  rw [← h2]
  exact h1

theorem sub_none (c : Cfg) (f : OZ.RoleTransfer.Flavor) {t : RT} (h : ∃ g, OZ.RoleTransfer.Inv c ⟨t, g⟩)
    (hn : t.holder = none) (l : List (List Nat × OZ.RoleTransfer.Op)) :
    (OZ.RoleTransfer.run c f t l).holder = none := by
  obtain ⟨g, hg⟩ := h
  have h1 := OZ.RoleTransfer.holder_none_final c f l ⟨t, g⟩ hg hn
  rwa [OZ.RoleTransfer.runG_s] at h1

theorem stepG_minv (c : Cfg) {x : GS} (hx : MInv c x) (a : List Nat × Op) : MInv c (stepG c x a) := by
  refine ⟨stepG_ginv c hx.ginv a, ?_, ?_⟩
  · rw [stepG_s, step_adm]; exact sub_inv c .admin hx.adm _
  · rw [stepG_s, step_own]; exact sub_inv c .owner hx.own _

/-- once renounced, nobody holds again (one call) -/
theorem step_admin_none (c : Cfg) {x : GS} (hx : MInv c x) (a : List Nat × Op)
    (hn : getAdmin x.s = none) : getAdmin (stepG c x a).s = none := by
  unfold getAdmin
  rw [stepG_s, step_adm]
  exact sub_none c .admin hx.adm hn _

theorem step_owner_none (c : Cfg) {x : GS} (hx : MInv c x) (a : List Nat × Op)
    (hn : x.s.own.holder = none) : (stepG c x a).s.own.holder = none := by
  rw [stepG_s, step_own]
  exact sub_none c .owner hx.own hn _

/-- the sub-machine call behind `.adm` / `.own` -/
theorem subOp_ok {c : Cfg} {f : OZ.RoleTransfer.Flavor} {t t' : RT} {auth : List Nat}
    {o : OZ.RoleTransfer.Op} (h : subOp c f t auth o = .ok t') :
    OZ.RoleTransfer.apply c f t auth o = .ok t' ∧ ∀ n, o ≠ .advance n := by
  cases o with
  | advance n => simp [subOp] at h
  | offer new lu => exact ⟨h, fun n => by simp⟩
  | accept => exact ⟨h, fun n => by simp⟩
  | renounce => exact ⟨h, fun n => by simp⟩
  | guarded => exact ⟨h, fun n => by simp⟩

/-- the admin changes only by an accepted accept / renounce of the admin machine -/
theorem admin_change {c : Cfg} {s s' : State} {auth : List Nat} {op : Op}
    (h : apply c s auth op = .ok s') (hne : getAdmin s' ≠ getAdmin s) : isAdmHandover op = true := by
  unfold getAdmin at hne
  cases ht : op.touchesAdm with
  | false => exact absurd ((apply_frame h).1 ht ▸ rfl) hne
  | true =>
    cases op <;> simp [Op.touchesAdm] at ht
    · rename_i o
      obtain ⟨t, ht', he⟩ := liftRT_ok h
      subst he
      obtain ⟨ha, -⟩ := subOp_ok ht'
      rcases OZ.RoleTransfer.holder_change ha hne with ⟨e, -⟩ | ⟨e, -⟩ <;> subst e <;> rfl
    · simp only [apply] at h; injection h with h; subst h; exact absurd rfl hne

theorem owner_change {c : Cfg} {s s' : State} {auth : List Nat} {op : Op}
    (h : apply c s auth op = .ok s') (hne : s'.own.holder ≠ s.own.holder) : isOwnHandover op = true := by
  cases ht : op.touchesOwn with
  | false => exact absurd ((apply_frame h).2 ht ▸ rfl) hne
  | true =>
    cases op <;> simp [Op.touchesOwn] at ht
    · rename_i o
      obtain ⟨t, ht', he⟩ := liftRT_ok h
      subst he
      obtain ⟨ha, -⟩ := subOp_ok ht'
      rcases OZ.RoleTransfer.holder_change ha hne with ⟨e, -⟩ | ⟨e, -⟩ <;> subst e <;> rfl
    · simp only [apply] at h; injection h with h; subst h; exact absurd rfl hne

/-! ### guards, on any state -/

theorem contains_iff (auth : List Nat) (k : Nat) : auth.contains k = true ↔ k ∈ auth := List.contains_iff_mem

theorem onlyRole_iff (c : Cfg) (s : State) (auth : List Nat) (k r : Nat) (b : Bool) :
    (∃ s', apply c s auth (.onlyRole k r b) = .ok s') ↔ memb s k r = true ∧ k ∈ auth ∧ b = true := by
  simp only [apply, keep_iff, onlyRole, ensureRole, requireAuth, bind_unit_iff, require_iff]
  rw [contains_iff]; rfl

theorem hasRole_iff (c : Cfg) (s : State) (auth : List Nat) (k r : Nat) (ba b : Bool) :
    (∃ s', apply c s auth (.hasRole k r ba b) = .ok s') ↔
      memb s k r = true ∧ (ba = true → k ∈ auth) ∧ b = true := by
  simp only [apply, keep_iff, hasRoleGuard, body, ensureRole, bind_unit_iff, require_iff]
  cases ba <;> simp [memb]

theorem hasAnyRole_iff (c : Cfg) (s : State) (auth : List Nat) (k : Nat) (rs : List Nat) (ba : Bool) :
    (∃ s', apply c s auth (.hasAnyRole k rs ba) = .ok s') ↔
      anyRole s k rs = true ∧ (ba = true → k ∈ auth) := by
  simp only [apply, keep_iff, hasAnyRoleGuard, body, bind_unit_iff, require_iff]
  cases ba <;> simp

theorem onlyAnyRole_iff (c : Cfg) (s : State) (auth : List Nat) (k : Nat) (rs : List Nat) :
    (∃ s', apply c s auth (.onlyAnyRole k rs) = .ok s') ↔ anyRole s k rs = true ∧ k ∈ auth := by
  simp only [apply, keep_iff, onlyAnyRoleGuard, requireAuth, bind_unit_iff, require_iff]
  rw [contains_iff]

theorem ensure_iff (c : Cfg) (s : State) (auth : List Nat) (r k : Nat) :
    (∃ s', apply c s auth (.ensureAdminOrRole r k) = .ok s') ↔
      (isAdmin s k || isAdminRole s r k) = true := by
  simp only [apply, keep_iff, ensureIfAdminOrAdminRole, require_iff]

theorem admGuarded_of {c : Cfg} {s : State} {auth : List Nat} {h : Nat}
    (h1 : s.adm.holder = some h) (h2 : h ∈ auth) : apply c s auth (.adm .guarded) = .ok s := by
  simp [apply, subOp, OZ.RoleTransfer.apply, OZ.RoleTransfer.guarded, OZ.RoleTransfer.enforceHolderAuth,
    h1, h2, liftRT, bind, Except.bind, pure, Except.pure]

theorem ownGuarded_of {c : Cfg} {s : State} {auth : List Nat} {h : Nat}
    (h1 : s.own.holder = some h) (h2 : h ∈ auth) : apply c s auth (.own .guarded) = .ok s := by
  simp [apply, subOp, OZ.RoleTransfer.apply, OZ.RoleTransfer.guarded, OZ.RoleTransfer.enforceHolderAuth,
    h1, h2, liftRT, bind, Except.bind, pure, Except.pure]

theorem not_ok_of_error {c : Cfg} {s : State} {auth : List Nat} {op : Op} {e : Err}
    (h : apply c s auth op = .error e) : ¬ ∃ s', apply c s auth op = .ok s' := by
  rintro ⟨s', h'⟩; rw [h] at h'; cases h'

/-! ### what the monitor knows, in terms of the model state -/

theorem inAuth_some {h : Nat} {auth : List Nat} (hm : h ∈ auth) : inAuth (some h) auth = true := by
  simpa [inAuth] using hm

theorem inAuth_true {p : Option Nat} {auth : List Nat} (h : inAuth p auth = true) :
    ∃ a, p = some a ∧ a ∈ auth := by
  cases p with
  | none => simp [inAuth] at h
  | some a => exact ⟨a, rfl, by simpa [inAuth] using h⟩

theorem roleAdminOf_eq {m : Mon} {x : GS} (ha : Agree m x) (r : Nat) :
    roleAdminOf m r = getRoleAdmin x.s r := by
  unfold roleAdminOf
  rw [ha.ra]
  by_cases h : r < R
  · rw [List.getElem?_map, List.getElem?_range h]; rfl
  · rw [List.getElem?_eq_none (by simp; omega)]
    simp only
    rw [ha.raG]; rfl

theorem mayAdminister_eq {m : Mon} {x : GS} (ha : Agree m x) (hs : memb x.s = x.g) (r k : Nat) :
    mayAdminister m r k = (isAdmin x.s k || isAdminRole x.s r k) := by
  unfold mayAdminister holdsAdminRole isAdmin isAdminRole
  rw [roleAdminOf_eq ha, ha.admin, ha.g, ← hs]
  congr 1
  · cases getAdmin x.s with
    | none => simp
    | some ad =>
      simp only [Option.some.injEq]
      by_cases e : k = ad
      · subst e; simp
      · have : ¬ ad = k := fun e' => e e'.symm
        simp [e, this]

theorem anyOf_eq {m : Mon} {x : GS} (ha : Agree m x) (hs : memb x.s = x.g) (k : Nat) (rs : List Nat) :
    anyOf m k rs = anyRole x.s k rs := by
  unfold anyOf anyRole
  rw [ha.g, ← hs]; rfl

theorem g_eq {m : Mon} {x : GS} (ha : Agree m x) (hs : memb x.s = x.g) (a r : Nat) :
    m.g a r = memb x.s a r := by rw [ha.g, ← hs]

/-! ### the verdict on the model's own calls -/

theorem persistStr_advance (s : State) (n : Nat) :
    persistStr { s with adm := { s.adm with now := s.adm.now + n }, own := { s.own with now := s.own.now + n } }
      = persistStr s := rfl

/-- an accepted call of the model passes the verdict -/
theorem verdictAccepted_model {c : Cfg} {m : Mon} {x : GS} {auth : List Nat} {op : Op} {s' : State}
    (hx : GInv x) (ha : Agree m x) (h : apply c x.s auth op = .ok s') (o : Obs)
    (ho : o.stateStr = persistStr s') : verdictAccepted m auth op o = none := by
  have hs := hx.set
  cases op with
  | grant a r k =>
    obtain ⟨hk, hent, -⟩ := grantRole_ok h
    show verdictGrant m auth a r k = none
    unfold verdictGrant
    rw [if_neg (by simp [hk]), if_neg (by rw [mayAdminister_eq ha hs, hent]; simp)]
  | revoke a r k =>
    obtain ⟨hk, hent, h2⟩ := revokeRole_ok h
    obtain ⟨-, -, hmem, -⟩ := revokeRoleNoAuth_effect hx.inv h2
    show verdictRevoke m auth a r k = none
    unfold verdictRevoke
    rw [if_neg (by simp [hk]), if_neg (by rw [mayAdminister_eq ha hs, hent]; simp),
      if_neg (by rw [g_eq ha hs, hmem]; simp)]
  | renounce r k =>
    obtain ⟨hk, h2⟩ := renounceRole_ok h
    obtain ⟨-, -, hmem, -⟩ := revokeRoleNoAuth_effect hx.inv h2
    show verdictRenounce m auth r k = none
    unfold verdictRenounce
    rw [if_neg (by simp [hk]), if_neg (by rw [g_eq ha hs, hmem]; simp)]
  | grantNoAuth a r k => rfl
  | revokeNoAuth a r k =>
    obtain ⟨-, -, hmem, -⟩ := revokeRoleNoAuth_effect hx.inv h
    show verdictRevokeNoAuth m a r = none
    unfold verdictRevokeNoAuth
    rw [if_neg (by rw [g_eq ha hs, hmem]; simp)]
  | setRoleAdmin r ar =>
    obtain ⟨⟨a, h1, h2⟩, -⟩ := setRoleAdmin_ok h
    show verdictSetRoleAdmin m auth = none
    unfold verdictSetRoleAdmin
    rw [if_neg (by rw [ha.admin, h1, inAuth_some h2]; simp)]
  | setRoleAdminNoAuth r ar => rfl
  | removeRoleAdminNoAuth r => rfl
  | removeCountNoAuth r => rfl
  | adm rt =>
    obtain ⟨t, ht, -⟩ := liftRT_ok h
    obtain ⟨hap, -⟩ := subOp_ok ht
    have hadm : ∀ hd, x.s.adm.holder = some hd → hd ∈ auth → inAuth m.admin auth = true := by
      intro hd h1 h2
      rw [ha.admin, show getAdmin x.s = x.s.adm.holder from rfl, h1]
      exact inAuth_some h2
    show verdictAdm m auth rt = none
    cases rt with
    | guarded =>
      obtain ⟨-, hd, h1, h2⟩ := OZ.RoleTransfer.guarded_ok hap
      show (if ¬ inAuth m.admin auth then _ else none) = none
      rw [if_neg (by rw [hadm hd h1 h2]; simp)]
    | offer new lu =>
      obtain ⟨hd, h1, h2, -⟩ := OZ.RoleTransfer.offer_ok hap
      show (if ¬ inAuth m.admin auth then _ else none) = none
      rw [if_neg (by rw [hadm hd h1 h2]; simp)]
    | renounce =>
      obtain ⟨hd, h1, h2, -⟩ := OZ.RoleTransfer.renounce_ok hap
      show (if ¬ inAuth m.admin auth then _ else none) = none
      rw [if_neg (by rw [hadm hd h1 h2]; simp)]
    | accept => rfl
    | advance n => rfl
  | own rt =>
    obtain ⟨t, ht, -⟩ := liftRT_ok h
    obtain ⟨hap, -⟩ := subOp_ok ht
    have hown : ∀ hd, x.s.own.holder = some hd → hd ∈ auth → inAuth m.owner auth = true := by
      intro hd h1 h2
      rw [ha.owner, h1]
      exact inAuth_some h2
    show verdictOwn m auth rt = none
    cases rt with
    | guarded =>
      obtain ⟨-, hd, h1, h2⟩ := OZ.RoleTransfer.guarded_ok hap
      show (if ¬ inAuth m.owner auth then _ else none) = none
      rw [if_neg (by rw [hown hd h1 h2]; simp)]
    | offer new lu =>
      obtain ⟨hd, h1, h2, -⟩ := OZ.RoleTransfer.offer_ok hap
      show (if ¬ inAuth m.owner auth then _ else none) = none
      rw [if_neg (by rw [hown hd h1 h2]; simp)]
    | renounce =>
      obtain ⟨hd, h1, h2, -⟩ := OZ.RoleTransfer.renounce_ok hap
      show (if ¬ inAuth m.owner auth then _ else none) = none
      rw [if_neg (by rw [hown hd h1 h2]; simp)]
    | accept => rfl
    | advance n => rfl
  | onlyRole k r b =>
    obtain ⟨h1, h2, -⟩ := (onlyRole_iff c x.s auth k r b).mp ⟨s', h⟩
    show verdictOnlyRole m auth k r = none
    unfold verdictOnlyRole
    rw [if_neg (by rw [g_eq ha hs, h1]; simp), if_neg (by simp [h2])]
  | hasRole k r ba b =>
    obtain ⟨h1, h2, -⟩ := (hasRole_iff c x.s auth k r ba b).mp ⟨s', h⟩
    show verdictHasRole m auth k r ba = none
    unfold verdictHasRole
    rw [if_neg (by rw [g_eq ha hs, h1]; simp), if_neg (by
      rintro ⟨e1, e2⟩
      exact e2 ((contains_iff auth k).mpr (h2 e1)))]
  | hasAnyRole k rs ba =>
    obtain ⟨h1, h2⟩ := (hasAnyRole_iff c x.s auth k rs ba).mp ⟨s', h⟩
    show verdictHasAnyRole m auth k rs ba = none
    unfold verdictHasAnyRole
    rw [if_neg (by rw [anyOf_eq ha hs, h1]; simp), if_neg (by
      rintro ⟨e1, e2⟩
      exact e2 ((contains_iff auth k).mpr (h2 e1)))]
  | onlyAnyRole k rs =>
    obtain ⟨h1, h2⟩ := (onlyAnyRole_iff c x.s auth k rs).mp ⟨s', h⟩
    show verdictOnlyAnyRole m auth k rs = none
    unfold verdictOnlyAnyRole
    rw [if_neg (by rw [anyOf_eq ha hs, h1]; simp), if_neg (by simp [h2])]
  | ensureAdminOrRole r k =>
    have h1 := (ensure_iff c x.s auth r k).mp ⟨s', h⟩
    show verdictEnsure m r k = none
    unfold verdictEnsure
    rw [if_neg (by rw [mayAdminister_eq ha hs, h1]; simp)]
  | advance n =>
    simp only [apply] at h
    injection h with h; subst h
    show verdictAdvance m n o = none
    unfold verdictAdvance
    rw [if_neg (by
      rintro ⟨e1, e2⟩
      apply e2
      rw [ho, persistStr_advance]
      exact (ha.str (by simpa using e1)).symm)]

/-- a call the model rejects passes the verdict: nothing observable changed, and no entitled
caller of a guard-only entry point is refused -/
theorem verdictRejected_model {c : Cfg} {m : Mon} {x : GS} {auth : List Nat} {op : Op} {e : Err}
    (hx : GInv x) (ha : Agree m x) (h : apply c x.s auth op = .error e) (o : Obs)
    (ho : o.stateStr = persistStr x.s) : verdictRejected m auth op o = none := by
  have hs := hx.set
  have hno := not_ok_of_error h
  unfold verdictRejected
  rw [if_neg (by
    rintro ⟨e1, e2⟩
    apply e2
    rw [ho]
    exact (ha.str (by simpa using e1)).symm)]
  cases op with
  | adm rt =>
    cases rt with
    | guarded =>
      show (if inAuth m.admin auth then _ else none) = none
      rw [if_neg]
      intro hin
      obtain ⟨a, h1, h2⟩ := inAuth_true hin
      rw [ha.admin] at h1
      exact hno ⟨_, admGuarded_of h1 h2⟩
    | offer new lu => rfl
    | accept => rfl
    | renounce => rfl
    | advance n => rfl
  | own rt =>
    cases rt with
    | guarded =>
      show (if inAuth m.owner auth then _ else none) = none
      rw [if_neg]
      intro hin
      obtain ⟨a, h1, h2⟩ := inAuth_true hin
      rw [ha.owner] at h1
      exact hno ⟨_, ownGuarded_of h1 h2⟩
    | offer new lu => rfl
    | accept => rfl
    | renounce => rfl
    | advance n => rfl
  | onlyRole k r b =>
    show (if m.g k r ∧ auth.contains k ∧ b then _ else none) = none
    rw [if_neg]
    rintro ⟨h1, h2, h3⟩
    rw [g_eq ha hs] at h1
    exact hno ((onlyRole_iff c x.s auth k r b).mpr ⟨h1, (contains_iff auth k).mp h2, h3⟩)
  | hasRole k r ba b =>
    show (if m.g k r ∧ (¬ ba ∨ auth.contains k) ∧ b then _ else none) = none
    rw [if_neg]
    rintro ⟨h1, h2, h3⟩
    rw [g_eq ha hs] at h1
    refine hno ((hasRole_iff c x.s auth k r ba b).mpr ⟨h1, ?_, h3⟩)
    intro hb
    rcases h2 with h2 | h2
    · exact absurd hb h2
    · exact (contains_iff auth k).mp h2
  | hasAnyRole k rs ba =>
    show (if anyOf m k rs ∧ (¬ ba ∨ auth.contains k) then _ else none) = none
    rw [if_neg]
    rintro ⟨h1, h2⟩
    rw [anyOf_eq ha hs] at h1
    refine hno ((hasAnyRole_iff c x.s auth k rs ba).mpr ⟨h1, ?_⟩)
    intro hb
    rcases h2 with h2 | h2
    · exact absurd hb h2
    · exact (contains_iff auth k).mp h2
  | onlyAnyRole k rs =>
    show (if anyOf m k rs ∧ auth.contains k then _ else none) = none
    rw [if_neg]
    rintro ⟨h1, h2⟩
    rw [anyOf_eq ha hs] at h1
    exact hno ((onlyAnyRole_iff c x.s auth k rs).mpr ⟨h1, (contains_iff auth k).mp h2⟩)
  | ensureAdminOrRole r k =>
    show (if mayAdminister m r k then _ else none) = none
    rw [if_neg]
    intro h1
    rw [mayAdminister_eq ha hs] at h1
    exact hno ((ensure_iff c x.s auth r k).mpr h1)
  | grant a r k => rfl
  | revoke a r k => rfl
  | renounce r k => rfl
  | grantNoAuth a r k => rfl
  | revokeNoAuth a r k => rfl
  | setRoleAdmin r ar => rfl
  | setRoleAdminNoAuth r ar => rfl
  | removeRoleAdminNoAuth r => rfl
  | removeCountNoAuth r => rfl
  | advance n => rfl

/-! ### one call of the model, as the monitor sees it -/

/-- whether the model accepts the call -/
def accepted (c : Cfg) (s : State) (a : List Nat × Op) : Bool :=
  match apply c s a.1 a.2 with
  | .ok _ => true
  | .error _ => false

theorem stepG_of_ok {c : Cfg} {x : GS} {a : List Nat × Op} {s' : State}
    (h : apply c x.s a.1 a.2 = .ok s') :
    stepG c x a = ⟨s', setStep x.g a.2 true⟩ ∧ accepted c x.s a = true := by
  simp [stepG, accepted, h]

theorem stepG_of_err {c : Cfg} {x : GS} {a : List Nat × Op} {e : Err}
    (h : apply c x.s a.1 a.2 = .error e) :
    stepG c x a = ⟨x.s, setStep x.g a.2 false⟩ ∧ accepted c x.s a = false := by
  simp [stepG, accepted, h]

theorem stepG_g (c : Cfg) (x : GS) (a : List Nat × Op) :
    (stepG c x a).g = setStep x.g a.2 (accepted c x.s a) := by
  unfold stepG accepted
  cases apply c x.s a.1 a.2 <;> rfl

theorem verdict_model (c : Cfg) {m : Mon} {x : GS} (hx : GInv x) (ha : Agree m x)
    (a : List Nat × Op) (xr : List Nat) :
    verdict m a.1 a.2 (modelObs (stepG c x a).s xr (accepted c x.s a)) = none := by
  cases h : apply c x.s a.1 a.2 with
  | error e =>
    obtain ⟨h1, h2⟩ := stepG_of_err h
    rw [h1, h2]
    unfold verdict
    rw [if_pos (by simp [modelObs])]
    exact verdictRejected_model hx ha h _ rfl
  | ok s' =>
    obtain ⟨h1, h2⟩ := stepG_of_ok h
    rw [h1, h2]
    unfold verdict
    rw [if_neg (by simp [modelObs])]
    exact verdictAccepted_model hx ha h _ rfl

theorem admin_step_change {c : Cfg} {x : GS} {a : List Nat × Op}
    (hne : getAdmin (stepG c x a).s ≠ getAdmin x.s) :
    accepted c x.s a = true ∧ isAdmHandover a.2 = true := by
  cases h : apply c x.s a.1 a.2 with
  | error e => rw [(stepG_of_err h).1] at hne; exact absurd rfl hne
  | ok s' =>
    obtain ⟨h1, h2⟩ := stepG_of_ok h
    rw [h1] at hne
    exact ⟨h2, admin_change h hne⟩

theorem owner_step_change {c : Cfg} {x : GS} {a : List Nat × Op}
    (hne : (stepG c x a).s.own.holder ≠ x.s.own.holder) :
    accepted c x.s a = true ∧ isOwnHandover a.2 = true := by
  cases h : apply c x.s a.1 a.2 with
  | error e => rw [(stepG_of_err h).1] at hne; exact absurd rfl hne
  | ok s' =>
    obtain ⟨h1, h2⟩ := stepG_of_ok h
    rw [h1] at hne
    exact ⟨h2, owner_change h hne⟩

theorem holderCheck_model (c : Cfg) {m : Mon} {x : GS} (hi : MInv c x) (ha : Agree m x)
    (a : List Nat × Op) (xr : List Nat) :
    holderCheck m a.2 (modelObs (stepG c x a).s xr (accepted c x.s a)) = none := by
  unfold holderCheck
  rw [if_neg, if_neg, if_neg, if_neg]
  · rintro ⟨h1, h2⟩
    rw [ha.owner] at h1
    exact h2 (step_owner_none c hi a h1)
  · rintro ⟨h1, h2⟩
    rw [ha.admin] at h1
    exact h2 (step_admin_none c hi a h1)
  · rintro ⟨h1, h2⟩
    rw [ha.owner] at h1
    exact h2 (owner_step_change h1)
  · rintro ⟨h1, h2⟩
    rw [ha.admin] at h1
    exact h2 (admin_step_change h1)

/-! ### the ghost logs follow the model -/

theorem apply_roleAdmin {c : Cfg} {s s' : State} {auth : List Nat} {op : Op}
    (h : apply c s auth op = .ok s') : s'.roleAdmin = raStep s.roleAdmin op true := by
  cases op with
  | grant a r k => obtain ⟨-, -, h⟩ := grantRole_ok h; exact (grantRoleNoAuth_rest h).1
  | grantNoAuth a r k => exact (grantRoleNoAuth_rest h).1
  | revoke a r k => obtain ⟨-, -, h⟩ := revokeRole_ok h; exact (revokeRoleNoAuth_rest h).1
  | revokeNoAuth a r k => exact (revokeRoleNoAuth_rest h).1
  | renounce r k => obtain ⟨-, h⟩ := renounceRole_ok h; exact (revokeRoleNoAuth_rest h).1
  | setRoleAdmin r ar => obtain ⟨-, he⟩ := setRoleAdmin_ok h; subst he; rfl
  | setRoleAdminNoAuth r ar => simp only [apply] at h; injection h with h; subst h; rfl
  | removeRoleAdminNoAuth r => have he := removeRoleAdminNoAuth_ok h; subst he; rfl
  | removeCountNoAuth r => obtain ⟨-, he⟩ := removeCount_ok h; subst he; rfl
  | adm o => obtain ⟨t, -, he⟩ := liftRT_ok h; subst he; rfl
  | own o => obtain ⟨t, -, he⟩ := liftRT_ok h; subst he; rfl
  | onlyRole k r b => obtain ⟨he, -⟩ := keep_ok h; subst he; rfl
  | hasRole k r ba b => obtain ⟨he, -⟩ := keep_ok h; subst he; rfl
  | hasAnyRole k rs ba => obtain ⟨he, -⟩ := keep_ok h; subst he; rfl
  | onlyAnyRole k rs => obtain ⟨he, -⟩ := keep_ok h; subst he; rfl
  | ensureAdminOrRole r k => obtain ⟨he, -⟩ := keep_ok h; subst he; rfl
  | advance n => simp only [apply] at h; injection h with h; subst h; rfl

theorem stepG_roleAdmin (c : Cfg) (x : GS) (a : List Nat × Op) :
    (stepG c x a).s.roleAdmin = raStep x.s.roleAdmin a.2 (accepted c x.s a) := by
  cases h : apply c x.s a.1 a.2 with
  | error e => rw [(stepG_of_err h).1, (stepG_of_err h).2]; rfl
  | ok s' => rw [(stepG_of_ok h).1, (stepG_of_ok h).2]; exact apply_roleAdmin h

theorem mem_addAcct_self (accts : List Nat) (a : Nat) : a ∈ addAcct accts a := by
  unfold addAcct
  split
  · rename_i h; exact (contains_iff accts a).mp h
  · exact List.mem_cons_self ..

theorem mem_addAcct_of_mem {accts : List Nat} {a : Nat} (b : Nat) (h : a ∈ accts) : a ∈ addAcct accts b := by
  unfold addAcct
  split
  · exact h
  · exact List.mem_cons_of_mem _ h

/-- every account of the plain set has been named by an accepted grant -/
theorem accts_step {g : PSet} {accts : List Nat} (h : ∀ a r, g a r = true → a ∈ accts) (op : Op) (ok : Bool) :
    ∀ a r, setStep g op ok a r = true → a ∈ acctStep accts op ok := by
  intro a r hs
  cases ok with
  | false => exact h a r hs
  | true =>
    have add : ∀ a' r', upd2 g a' r' true a r = true → a ∈ addAcct accts a' := by
      intro a' r' hu
      by_cases e : a = a' ∧ r = r'
      · rw [e.1]; exact mem_addAcct_self accts a'
      · rw [upd2_ne _ _ _ _ _ _ e] at hu; exact mem_addAcct_of_mem a' (h a r hu)
    have del : ∀ a' r', upd2 g a' r' false a r = true → a ∈ accts := by
      intro a' r' hu
      by_cases e : a = a' ∧ r = r'
      · rw [e.1, e.2, upd2_same] at hu; cases hu
      · rw [upd2_ne _ _ _ _ _ _ e] at hu; exact h a r hu
    cases op with
    | grant a' r' k => exact add a' r' hs
    | grantNoAuth a' r' k => exact add a' r' hs
    | revoke a' r' k => exact del a' r' hs
    | revokeNoAuth a' r' k => exact del a' r' hs
    | renounce r' k => exact del k r' hs
    | setRoleAdmin _ _ => exact h a r hs
    | setRoleAdminNoAuth _ _ => exact h a r hs
    | removeRoleAdminNoAuth _ => exact h a r hs
    | removeCountNoAuth _ => exact h a r hs
    | adm _ => exact h a r hs
    | own _ => exact h a r hs
    | onlyRole _ _ _ => exact h a r hs
    | hasRole _ _ _ _ => exact h a r hs
    | hasAnyRole _ _ _ => exact h a r hs
    | onlyAnyRole _ _ => exact h a r hs
    | ensureAdminOrRole _ _ => exact h a r hs
    | advance _ => exact h a r hs

end OZ.Access.Mon
