import OZ.Lemmas.NftEnumerable
import OZ.Lemmas.NftConsecutive
/-
Helper lemmas for C11: what a successful `check_spender_approval`, `approve_for_owner`,
`approve_for_all` imply, what the per-token approval entry looks like after each operation,
for the shared `Core` and the three flavours.
-/
namespace OZ.Nft
open OZ.Host

theorem checkSpender_ok {c : Core} {sp o id : Nat} {u : Unit}
    (h : checkSpenderApproval c sp o id = .ok u) :
    sp = o ∨ getApproved c id = some sp ∨ isApprovedForAll c o sp = true := by
  unfold checkSpenderApproval at h
  split at h
  · cases h
  · rename_i hn
    apply Classical.byContradiction
    intro hc
    apply hn
    refine ⟨fun e => hc (Or.inl e), fun e => hc (Or.inr (Or.inl e)), ?_⟩
    cases hb : isApprovedForAll c o sp
    · rfl
    · exact absurd (Or.inr (Or.inr hb)) hc

theorem get?_some_eq {α : Type} (e : Temp α) (now : Nat) :
    Temp.get? (some e) now = if now ≤ e.liveUntil then some e.val else none := rfl

/-- a live reading of `get_approved`: the stored data names the account and is not expired,
neither by its own `live_until_ledger` nor by the host -/
theorem getApproved_some {c : Core} {id a : Nat} (h : getApproved c id = some a) :
    ∃ e, c.approval id = some e ∧ e.val.approved = a ∧ c.now ≤ e.val.liveUntilLedger ∧ c.now ≤ e.liveUntil := by
  unfold getApproved at h
  cases he : c.approval id with
  | none => rw [he] at h; cases h
  | some e =>
    rw [he, get?_some_eq] at h
    by_cases hl : c.now ≤ e.liveUntil
    · rw [if_pos hl] at h
      have h : approvedOf c.now e.val = some a := h
      unfold approvedOf at h
      by_cases hx : e.val.liveUntilLedger < c.now
      · rw [if_pos hx] at h; cases h
      · rw [if_neg hx] at h; injection h with h
        exact ⟨e, rfl, h, by omega, hl⟩
    · rw [if_neg hl] at h; cases h

theorem getApproved_none_of_entry_none {c : Core} {id : Nat} (h : c.approval id = none) :
    getApproved c id = none := by
  unfold getApproved; rw [h]; rfl

/-- an expired approval reads as none (explicit comparison of `get_approved`) -/
theorem getApproved_expired {c : Core} {id : Nat} {e : Temp ApprovalData}
    (he : c.approval id = some e) (hx : e.val.liveUntilLedger < c.now) : getApproved c id = none := by
  unfold getApproved; rw [he, get?_some_eq]
  by_cases hl : c.now ≤ e.liveUntil
  · rw [if_pos hl]
    show approvedOf c.now e.val = none
    unfold approvedOf; rw [if_pos hx]
  · rw [if_neg hl]; rfl

theorem isApprovedForAll_true {c : Core} {o p : Nat} (h : isApprovedForAll c o p = true) :
    ∃ e, c.operator o p = some e ∧ c.now ≤ e.val ∧ c.now ≤ e.liveUntil := by
  unfold isApprovedForAll at h
  cases he : c.operator o p with
  | none => rw [he] at h; cases h
  | some e =>
    rw [he, get?_some_eq] at h
    by_cases hl : c.now ≤ e.liveUntil
    · rw [if_pos hl] at h
      have h : decide (e.val ≥ c.now) = true := h
      exact ⟨e, rfl, by simpa using h, hl⟩
    · rw [if_neg hl] at h; cases h

theorem isApprovedForAll_expired {c : Core} {o p : Nat} {e : Temp Nat}
    (he : c.operator o p = some e) (hx : e.val < c.now) : isApprovedForAll c o p = false := by
  unfold isApprovedForAll; rw [he, get?_some_eq]
  by_cases hl : c.now ≤ e.liveUntil
  · rw [if_pos hl]
    show decide (e.val ≥ c.now) = false
    exact decide_eq_false (by omega)
  · rw [if_neg hl]

theorem isApprovedForAll_none {c : Core} {o p : Nat} (he : c.operator o p = none) :
    isApprovedForAll c o p = false := by
  unfold isApprovedForAll; rw [he]; rfl

/-- the host entry written by `set` + `extend_ttl(live_for, live_for)` outlives `lu` -/
theorem extend_set_liveUntil {α : Type} {cfg : Cfg} {t : Option (Temp α)} {now lu : Nat} {v : α}
    {e : Temp α} (hlu : now ≤ lu)
    (h : Temp.extend cfg (Temp.set cfg t now v) now (lu - now) (lu - now) = some e) :
    e.val = v ∧ lu ≤ e.liveUntil := by
  have hv : (Temp.set cfg t now v).val = v := by
    unfold Temp.set
    split
    · split <;> rfl
    · rfl
  unfold Temp.extend at h
  split at h
  · cases h
  · simp only at h
    split at h
    · cases h
    · split at h
      · injection h with h; subst h; exact ⟨hv, by show lu ≤ now + (lu - now); omega⟩
      · rename_i hc
        injection h with h; subst h
        refine ⟨hv, ?_⟩
        apply Classical.byContradiction; intro hn
        apply hc
        constructor <;> omega

/-- `approve_for_owner`: the approver is the owner or a live operator of the owner; only the
token's approval entry changes; `live_until_ledger = 0` deletes it, otherwise it names
`approved` until `lu` -/
theorem approveForOwner_ok {cfg : Cfg} {c c' : Core} {o ap a id lu : Nat}
    (h : approveForOwner cfg c o ap a id lu = .ok c') :
    (ap = o ∨ isApprovedForAll c o ap = true) ∧
    c'.operator = c.operator ∧ c'.bal = c.bal ∧ c'.nextId = c.nextId ∧ c'.now = c.now ∧
    (lu = 0 → c'.approval = upd c.approval id none) ∧
    (lu ≠ 0 → c.now ≤ lu ∧ ∃ e, c'.approval = upd c.approval id (some e) ∧
      e.val = ⟨a, lu⟩ ∧ lu ≤ e.liveUntil) := by
  unfold approveForOwner at h
  split at h
  · cases h
  · rename_i hn
    have hap : ap = o ∨ isApprovedForAll c o ap = true := by
      apply Classical.byContradiction; intro hc
      apply hn
      refine ⟨fun e => hc (Or.inl e), ?_⟩
      cases hb : isApprovedForAll c o ap
      · rfl
      · exact absurd (Or.inr hb) hc
    split at h
    · rename_i h0
      injection h with h; subst h
      exact ⟨hap, rfl, rfl, rfl, rfl, fun _ => rfl, fun hne => absurd h0 hne⟩
    · rename_i h0
      split at h
      · cases h
      · rename_i hlt
        unfold storeApproval at h
        split at h
        · cases h
        · rename_i e he
          injection h with h; subst h
          refine ⟨hap, rfl, rfl, rfl, rfl, fun e0 => absurd e0 h0, fun _ => ⟨by omega, e, rfl, ?_⟩⟩
          exact extend_set_liveUntil (by show c.now ≤ lu; omega) he

/-- `approve_for_all`: the owner authorizes; only the `(owner, operator)` entry changes -/
theorem approveForAll_ok {cfg : Cfg} {c c' : Core} {auth : List Nat} {o p lu : Nat}
    (h : approveForAll cfg c auth o p lu = .ok c') :
    o ∈ auth ∧ c'.approval = c.approval ∧ c'.bal = c.bal ∧ c'.nextId = c.nextId ∧ c'.now = c.now ∧
    (∀ o' p', ¬ (o' = o ∧ p' = p) → c'.operator o' p' = c.operator o' p') ∧
    (lu = 0 → c'.operator o p = none) ∧
    (lu ≠ 0 → c.now ≤ lu ∧ ∃ e, c'.operator o p = some e ∧ e.val = lu ∧ lu ≤ e.liveUntil) := by
  unfold approveForAll at h
  obtain ⟨_, ha, h⟩ := bind_eq_ok h
  have hauth := requireAuth_ok ha
  have hupd2 : ∀ (f : Nat → Nat → Option (Temp Nat)) v o' p', ¬ (o' = o ∧ p' = p) →
      upd2 f o p v o' p' = f o' p' := by
    intro f v o' p' hne; unfold upd2; rw [if_neg hne]
  have hupd2s : ∀ (f : Nat → Nat → Option (Temp Nat)) v, upd2 f o p v o p = v := by
    intro f v; unfold upd2; rw [if_pos ⟨rfl, rfl⟩]
  split at h
  · rename_i h0
    have h := pure_eq_ok h; subst h
    exact ⟨hauth, rfl, rfl, rfl, rfl, fun o' p' hne => hupd2 _ _ o' p' hne, fun _ => hupd2s _ _,
      fun hne => absurd h0 hne⟩
  · rename_i h0
    split at h
    · cases h
    · rename_i hlt
      unfold storeOperator at h
      split at h
      · cases h
      · rename_i e he
        injection h with h; subst h
        refine ⟨hauth, rfl, rfl, rfl, rfl, fun o' p' hne => hupd2 _ _ o' p' hne,
          fun e0 => absurd e0 h0, fun _ => ⟨by omega, e, hupd2s _ _, ?_⟩⟩
        exact extend_set_liveUntil (by omega) he

/-- reading an approval entry whose host lifetime covers its `live_until_ledger` (which
`approve` guarantees): live up to and including `live_until_ledger`, dead from the next ledger -/
theorem getApproved_entry {c : Core} {id : Nat} {e : Temp ApprovalData} (he : c.approval id = some e)
    (hl : e.val.liveUntilLedger ≤ e.liveUntil) :
    getApproved c id = if c.now ≤ e.val.liveUntilLedger then some e.val.approved else none := by
  by_cases hx : c.now ≤ e.val.liveUntilLedger
  · rw [if_pos hx]
    unfold getApproved; rw [he, get?_some_eq, if_pos (by omega)]
    show approvedOf c.now e.val = _
    unfold approvedOf; rw [if_neg (by omega)]
  · rw [if_neg hx]; exact getApproved_expired he (by omega)

theorem isApprovedForAll_entry {c : Core} {o p : Nat} {e : Temp Nat} (he : c.operator o p = some e)
    (hl : e.val ≤ e.liveUntil) : isApprovedForAll c o p = decide (c.now ≤ e.val) := by
  by_cases hx : c.now ≤ e.val
  · rw [decide_eq_true hx]
    unfold isApprovedForAll; rw [he, get?_some_eq, if_pos (by omega)]
    show decide (e.val ≥ c.now) = true
    exact decide_eq_true hx
  · rw [decide_eq_false hx]; exact isApprovedForAll_expired he (by omega)

/-- which spender an operation acts through -/
def Op.spender : Op → Option Nat
  | .transferFrom sp _ _ _ => some sp
  | .burnFrom sp _ _ => some sp
  | _ => none

/-- the property's justification of a move of token `id` out of the hands of `f` -/
def Justified (c : Core) (auth : List Nat) (f id : Nat) (op : Op) : Prop :=
  match op.spender with
  | none => f ∈ auth
  | some sp => sp ∈ auth ∧ (sp = f ∨ getApproved c id = some sp ∨ isApprovedForAll c f sp = true)

/-- `approve(.., id, ..)` operations -/
def Op.approves (id : Nat) : Op → Bool
  | .approve _ _ id' _ => id' == id
  | _ => false

/-! ### base flavour -/

local macro "no_such_op" : tactic => `(tactic| (intros; rename_i e; cases e))

theorem apply_auth (cfg : Cfg) {s s' : State} {auth : List Nat} {op : Op} {r : Option Nat}
    (h : apply cfg s auth op = .ok (s', r)) :
    (∀ f id, op.moves = some (f, id) →
      s.owner id = some f ∧ Justified s.toCore auth f id op ∧ s'.approval id = none) ∧
    (∀ ap a id lu, op = .approve ap a id lu → ap ∈ auth ∧
      ∃ o, s.owner id = some o ∧ (ap = o ∨ isApprovedForAll s.toCore o ap = true)) ∧
    (∀ o p lu, op = .approveForAll o p lu → o ∈ auth) := by
  cases op with
  | mintSeq to => refine ⟨?_, ?_, ?_⟩ <;> no_such_op
  | mint to id => refine ⟨?_, ?_, ?_⟩ <;> no_such_op
  | batchMint to n => cases h
  | advance n => refine ⟨?_, ?_, ?_⟩ <;> no_such_op
  | transfer f t id =>
    obtain ⟨s2, h1, h⟩ := bind_eq_ok h
    have h := pure_eq_ok h
    injection h with ha hb; subst ha; subst hb
    obtain ⟨_, hra, hu⟩ := bind_eq_ok h1
    obtain ⟨hs, _, _, _, _, happ, _⟩ := update_transfer_ok hu
    refine ⟨?_, by no_such_op, by no_such_op⟩
    intro f' id' hm; injection hm with hm; injection hm with e1 e2; subst e1; subst e2
    exact ⟨hs, requireAuth_ok hra, by rw [happ]; exact upd_same _ _ _⟩
  | burn f id =>
    obtain ⟨s2, h1, h⟩ := bind_eq_ok h
    have h := pure_eq_ok h
    injection h with ha hb; subst ha; subst hb
    obtain ⟨_, hra, hu⟩ := bind_eq_ok h1
    obtain ⟨hs, _, _, _, _, happ, _⟩ := update_burn_ok hu
    refine ⟨?_, by no_such_op, by no_such_op⟩
    intro f' id' hm; injection hm with hm; injection hm with e1 e2; subst e1; subst e2
    exact ⟨hs, requireAuth_ok hra, by rw [happ]; exact upd_same _ _ _⟩
  | transferFrom sp f t id =>
    obtain ⟨s2, h1, h⟩ := bind_eq_ok h
    have h := pure_eq_ok h
    injection h with ha hb; subst ha; subst hb
    obtain ⟨_, hra, h1⟩ := bind_eq_ok h1
    obtain ⟨_, hck, hu⟩ := bind_eq_ok h1
    obtain ⟨hs, _, _, _, _, happ, _⟩ := update_transfer_ok hu
    refine ⟨?_, by no_such_op, by no_such_op⟩
    intro f' id' hm; injection hm with hm; injection hm with e1 e2; subst e1; subst e2
    exact ⟨hs, ⟨requireAuth_ok hra, checkSpender_ok hck⟩, by rw [happ]; exact upd_same _ _ _⟩
  | burnFrom sp f id =>
    obtain ⟨s2, h1, h⟩ := bind_eq_ok h
    have h := pure_eq_ok h
    injection h with ha hb; subst ha; subst hb
    obtain ⟨_, hra, h1⟩ := bind_eq_ok h1
    obtain ⟨_, hck, hu⟩ := bind_eq_ok h1
    obtain ⟨hs, _, _, _, _, happ, _⟩ := update_burn_ok hu
    refine ⟨?_, by no_such_op, by no_such_op⟩
    intro f' id' hm; injection hm with hm; injection hm with e1 e2; subst e1; subst e2
    exact ⟨hs, ⟨requireAuth_ok hra, checkSpender_ok hck⟩, by rw [happ]; exact upd_same _ _ _⟩
  | approve ap a id lu =>
    obtain ⟨s2, h1, h⟩ := bind_eq_ok h
    have h := pure_eq_ok h
    injection h with ha hb; subst ha; subst hb
    unfold approve at h1
    obtain ⟨_, hra, h1⟩ := bind_eq_ok h1
    obtain ⟨o, ho, h1⟩ := bind_eq_ok h1
    obtain ⟨c, hc, h1⟩ := bind_eq_ok h1
    refine ⟨by no_such_op, ?_, by no_such_op⟩
    intro ap' a' id' lu' e; injection e with e1 e2 e3 e4; subst e1; subst e2; subst e3; subst e4
    exact ⟨requireAuth_ok hra, o, ownerOf_ok ho, (approveForOwner_ok hc).1⟩
  | approveForAll o p lu =>
    obtain ⟨c, hc, h⟩ := bind_eq_ok h
    refine ⟨by no_such_op, by no_such_op, ?_⟩
    intro o' p' lu' e; injection e with e1 e2 e3; subst e1; subst e2; subst e3
    exact (approveForAll_ok hc).1

/-- the approval entry of `id` is written only by `approve(.., id, ..)` -/
theorem apply_approval_none (cfg : Cfg) {s s' : State} {auth : List Nat} {op : Op} {r : Option Nat}
    (h : apply cfg s auth op = .ok (s', r)) {id : Nat} (hn : s.approval id = none)
    (hop : op.approves id = false) : s'.approval id = none := by
  have keep : ∀ id', upd s.approval id' none id = none := by
    intro id'
    by_cases e : id = id'
    · subst e; exact upd_same _ _ _
    · rw [upd_other _ _ _ _ e]; exact hn
  cases op with
  | mintSeq to =>
    obtain ⟨⟨s2, i⟩, h1, h⟩ := bind_eq_ok h
    have h := pure_eq_ok h
    injection h with ha hb; subst ha; subst hb
    obtain ⟨_, _, hu⟩ := sequentialMint_ok h1
    obtain ⟨_, _, _, happ, _⟩ := update_mint_ok hu
    rw [happ]; exact hn
  | mint to i =>
    obtain ⟨s2, h1, h⟩ := bind_eq_ok h
    have h := pure_eq_ok h
    injection h with ha hb; subst ha; subst hb
    obtain ⟨_, _, _, happ, _⟩ := update_mint_ok h1
    rw [happ]; exact hn
  | batchMint to n => cases h
  | advance n =>
    injection h with h; injection h with ha hb; subst ha; exact hn
  | transfer f t i =>
    obtain ⟨s2, h1, h⟩ := bind_eq_ok h
    have h := pure_eq_ok h
    injection h with ha hb; subst ha; subst hb
    obtain ⟨_, _, hu⟩ := bind_eq_ok h1
    obtain ⟨_, _, _, _, _, happ, _⟩ := update_transfer_ok hu
    rw [happ]; exact keep i
  | burn f i =>
    obtain ⟨s2, h1, h⟩ := bind_eq_ok h
    have h := pure_eq_ok h
    injection h with ha hb; subst ha; subst hb
    obtain ⟨_, _, hu⟩ := bind_eq_ok h1
    obtain ⟨_, _, _, _, _, happ, _⟩ := update_burn_ok hu
    rw [happ]; exact keep i
  | transferFrom sp f t i =>
    obtain ⟨s2, h1, h⟩ := bind_eq_ok h
    have h := pure_eq_ok h
    injection h with ha hb; subst ha; subst hb
    obtain ⟨_, _, h1⟩ := bind_eq_ok h1
    obtain ⟨_, _, hu⟩ := bind_eq_ok h1
    obtain ⟨_, _, _, _, _, happ, _⟩ := update_transfer_ok hu
    rw [happ]; exact keep i
  | burnFrom sp f i =>
    obtain ⟨s2, h1, h⟩ := bind_eq_ok h
    have h := pure_eq_ok h
    injection h with ha hb; subst ha; subst hb
    obtain ⟨_, _, h1⟩ := bind_eq_ok h1
    obtain ⟨_, _, hu⟩ := bind_eq_ok h1
    obtain ⟨_, _, _, _, _, happ, _⟩ := update_burn_ok hu
    rw [happ]; exact keep i
  | approve ap a i lu =>
    have hne : i ≠ id := by
      intro e; subst e; simp [Op.approves] at hop
    obtain ⟨s2, h1, h⟩ := bind_eq_ok h
    have h := pure_eq_ok h
    injection h with ha hb; subst ha; subst hb
    unfold approve at h1
    obtain ⟨_, _, h1⟩ := bind_eq_ok h1
    obtain ⟨o, _, h1⟩ := bind_eq_ok h1
    obtain ⟨c, hc, h1⟩ := bind_eq_ok h1
    have h1 := pure_eq_ok h1; subst h1
    obtain ⟨_, _, _, _, _, h0, hpos⟩ := approveForOwner_ok hc
    show c.approval id = none
    by_cases hl : lu = 0
    · rw [h0 hl, upd_other _ _ _ _ (Ne.symm hne)]; exact hn
    · obtain ⟨_, e, he, _⟩ := hpos hl
      rw [he, upd_other _ _ _ _ (Ne.symm hne)]; exact hn
  | approveForAll o p lu =>
    obtain ⟨c, hc, h⟩ := bind_eq_ok h
    have h := pure_eq_ok h
    injection h with ha hb; subst ha; subst hb
    show c.approval id = none
    rw [(approveForAll_ok hc).2.1]; exact hn

theorem approve_core (cfg : Cfg) {s s' : State} {auth : List Nat} {ap a id lu : Nat} {r : Option Nat}
    (h : apply cfg s auth (.approve ap a id lu) = .ok (s', r)) :
    ∃ o, s.owner id = some o ∧ approveForOwner cfg s.toCore o ap a id lu = .ok s'.toCore ∧ s'.owner = s.owner := by
  obtain ⟨s2, h1, h⟩ := bind_eq_ok h
  have h := pure_eq_ok h
  injection h with ha hb; subst ha
  unfold approve at h1
  obtain ⟨_, _, h1⟩ := bind_eq_ok h1
  obtain ⟨o, ho, h1⟩ := bind_eq_ok h1
  obtain ⟨c, hc, h1⟩ := bind_eq_ok h1
  have h1 := pure_eq_ok h1; subst h1
  exact ⟨o, ownerOf_ok ho, hc, rfl⟩

theorem approveForAll_core (cfg : Cfg) {s s' : State} {auth : List Nat} {o p lu : Nat} {r : Option Nat}
    (h : apply cfg s auth (.approveForAll o p lu) = .ok (s', r)) :
    approveForAll cfg s.toCore auth o p lu = .ok s'.toCore ∧ s'.owner = s.owner := by
  obtain ⟨c, hc, h⟩ := bind_eq_ok h
  have h := pure_eq_ok h
  injection h with ha hb; subst ha
  exact ⟨hc, rfl⟩

theorem run_approval_none (cfg : Cfg) (ops : List (List Nat × Op)) (s : State) (id : Nat)
    (hn : s.approval id = none) (hx : ∀ x ∈ ops, x.2.approves id = false) :
    (run cfg s ops).approval id = none := by
  induction ops generalizing s with
  | nil => exact hn
  | cons x xs ih =>
    show (run cfg (step cfg s x) xs).approval id = none
    apply ih
    · unfold step
      cases h : apply cfg s x.1 x.2 with
      | error e => exact hn
      | ok p => obtain ⟨s', r⟩ := p; exact apply_approval_none cfg h hn (hx x (by simp))
    · intro y hy; exact hx y (by simp [hy])

end OZ.Nft

/-! ### enumerable flavour: every accepted call is the same call on `Base` plus list upkeep -/
namespace OZ.NftEnum
open OZ.Host OZ.Nft

theorem addToEnumerations_toState {s s' : State} {o id : Nat} (h : addToEnumerations s o id = .ok s') :
    s'.toState = s.toState := by
  obtain ⟨s1, h1, h⟩ := bind_eq_ok h
  obtain ⟨⟨s2, ts⟩, h2, h⟩ := bind_eq_ok h
  have h := pure_eq_ok h
  obtain ⟨_, hs1⟩ := addToOwner_ok h1
  obtain ⟨hs2, _⟩ := incrementTotal_ok h2
  subst hs1; subst hs2; subst h; rfl

theorem removeFromOwner_toState {s s' : State} {o id : Nat} (h : removeFromOwnerEnumeration s o id = .ok s') :
    s'.toState = s.toState ∧ s'.total = s.total ∧ s'.gTok = s.gTok ∧ s'.gIdx = s.gIdx := by
  obtain ⟨k, _, hcase⟩ := removeFromOwner_ok h
  rcases hcase with ⟨_, l, _, hs'⟩ | ⟨_, hs'⟩ <;> subst hs' <;> exact ⟨rfl, rfl, rfl, rfl⟩

theorem moveInOwner_toState {s s' : State} {f t id : Nat} (h : moveInOwnerEnumerations s f t id = .ok s') :
    s'.toState = s.toState := by
  unfold moveInOwnerEnumerations at h
  split at h
  · obtain ⟨s1, h1, h2⟩ := bind_eq_ok h
    obtain ⟨_, hs'⟩ := addToOwner_ok h2
    subst hs'
    exact (removeFromOwner_toState h1).1
  · injection h with h; subst h; rfl

theorem removeFromEnumerations_toState {s s' : State} {o id : Nat} (h : removeFromEnumerations s o id = .ok s') :
    s'.toState = s.toState := by
  obtain ⟨s1, h1, h⟩ := bind_eq_ok h
  obtain ⟨⟨s2, ts⟩, h2, h3⟩ := bind_eq_ok h
  obtain ⟨_, hs2, _⟩ := decrementTotal_ok h2
  obtain ⟨k, l, _, _, hs'⟩ := removeFromGlobal_ok h3
  subst hs'; subst hs2
  exact (removeFromOwner_toState h1).1

/-- no invariant needed: an accepted call on the enumerable flavour is an accepted identical
call on its `Base` state -/
theorem apply_base (cfg : Cfg) {s s' : State} {auth : List Nat} {op : Op} {r : Option Nat}
    (h : apply cfg s auth op = .ok (s', r)) :
    Nft.apply cfg s.toState auth op = .ok (s'.toState, r) := by
  cases op with
  | mintSeq to =>
    obtain ⟨⟨s2, id⟩, h1, h⟩ := bind_eq_ok h
    have h := pure_eq_ok h
    injection h with ha hb; subst ha; subst hb
    unfold sequentialMint at h1
    obtain ⟨⟨b, id'⟩, h2, h1⟩ := bind_eq_ok h1
    obtain ⟨s3, h3, h1⟩ := bind_eq_ok h1
    have h1 := pure_eq_ok h1
    injection h1 with ha hb; subst ha; subst hb
    have hst := addToEnumerations_toState h3
    show (Nft.sequentialMint s.toState to >>= fun x => pure (x.1, some x.2)) = _
    rw [h2, hst]; rfl
  | mint to id =>
    obtain ⟨s2, h1, h⟩ := bind_eq_ok h
    have h := pure_eq_ok h
    injection h with ha hb; subst ha; subst hb
    unfold nonSequentialMint at h1
    obtain ⟨b, h2, h3⟩ := bind_eq_ok h1
    have hst := addToEnumerations_toState h3
    show (Nft.mint s.toState to id >>= fun x => pure (x, none)) = _
    unfold Nft.mint
    rw [h2, hst]; rfl
  | batchMint to n => cases h
  | transfer f t id =>
    obtain ⟨s2, h1, h⟩ := bind_eq_ok h
    have h := pure_eq_ok h
    injection h with ha hb; subst ha; subst hb
    unfold transfer at h1
    obtain ⟨b, h2, h3⟩ := bind_eq_ok h1
    have hst := moveInOwner_toState h3
    show (Nft.transfer s.toState auth f t id >>= fun x => pure (x, none)) = _
    rw [h2, hst]; rfl
  | transferFrom sp f t id =>
    obtain ⟨s2, h1, h⟩ := bind_eq_ok h
    have h := pure_eq_ok h
    injection h with ha hb; subst ha; subst hb
    unfold transferFrom at h1
    obtain ⟨b, h2, h3⟩ := bind_eq_ok h1
    have hst := moveInOwner_toState h3
    show (Nft.transferFrom s.toState auth sp f t id >>= fun x => pure (x, none)) = _
    rw [h2, hst]; rfl
  | approve ap a id lu =>
    obtain ⟨b, h1, h⟩ := bind_eq_ok h
    have h := pure_eq_ok h
    injection h with ha hb; subst ha; subst hb
    show (Nft.approve cfg s.toState auth ap a id lu >>= fun x => pure (x, none)) = _
    rw [h1]; rfl
  | approveForAll o p lu =>
    obtain ⟨c, h1, h⟩ := bind_eq_ok h
    have h := pure_eq_ok h
    injection h with ha hb; subst ha; subst hb
    show (Nft.approveForAll cfg s.toCore auth o p lu >>= fun c => pure ({ s.toState with toCore := c }, none)) = _
    rw [h1]; rfl
  | burn f id =>
    obtain ⟨s2, h1, h⟩ := bind_eq_ok h
    have h := pure_eq_ok h
    injection h with ha hb; subst ha; subst hb
    unfold burn at h1
    obtain ⟨b, h2, h3⟩ := bind_eq_ok h1
    have hst := removeFromEnumerations_toState h3
    show (Nft.burn s.toState auth f id >>= fun x => pure (x, none)) = _
    rw [h2, hst]; rfl
  | burnFrom sp f id =>
    obtain ⟨s2, h1, h⟩ := bind_eq_ok h
    have h := pure_eq_ok h
    injection h with ha hb; subst ha; subst hb
    unfold burnFrom at h1
    obtain ⟨b, h2, h3⟩ := bind_eq_ok h1
    have hst := removeFromEnumerations_toState h3
    show (Nft.burnFrom s.toState auth sp f id >>= fun x => pure (x, none)) = _
    rw [h2, hst]; rfl
  | advance n =>
    injection h with h
    injection h with ha hb; subst ha; subst hb
    rfl

theorem run_approval_none (cfg : Cfg) (ops : List (List Nat × Op)) (s : State) (id : Nat)
    (hn : s.approval id = none) (hx : ∀ x ∈ ops, x.2.approves id = false) :
    (run cfg s ops).approval id = none := by
  induction ops generalizing s with
  | nil => exact hn
  | cons x xs ih =>
    show (run cfg (step cfg s x) xs).approval id = none
    apply ih
    · unfold step
      cases h : apply cfg s x.1 x.2 with
      | error e => exact hn
      | ok p =>
        obtain ⟨s', r⟩ := p
        exact Nft.apply_approval_none cfg (apply_base cfg h) hn (hx x (by simp))
    · intro y hy; exact hx y (by simp [hy])

end OZ.NftEnum

/-! ### consecutive flavour (any bit store) -/
namespace OZ.NftCons
open OZ.Host OZ.Nft

section
variable {β : Type} (B : BitOps β)

theorem setOwnership_core {s s' : State β} {id : Nat} (h : setOwnershipInBucket B s id = .ok s') :
    s'.toCore = s.toCore ∧ s'.mark = s.mark ∧ s'.burned = s.burned := by
  unfold setOwnershipInBucket at h
  split at h
  · cases h
  · split at h
    · cases h
    · injection h with h; subst h; exact ⟨rfl, rfl, rfl⟩

theorem setOwnerForPrev_core {s s' : State β} {f id : Nat} (h : setOwnerForPreviousToken B s f id = .ok s') :
    s'.toCore = s.toCore := by
  unfold setOwnerForPreviousToken at h
  split at h
  · injection h with h; subst h; rfl
  · split at h
    · injection h with h; subst h; rfl
    · split at h
      · injection h with h; subst h; rfl
      · exact (setOwnership_core B h).1

/-- a successful `update` with a `from`: `owner_of` said `from`, the approval entry of the token
is deleted, operators and ledger are untouched -/
theorem update_from_core {s s' : State β} {f id : Nat} {to : Option Nat}
    (h : update B s (some f) to id = .ok s') :
    ownerOf B s id = .ok f ∧ s'.approval = upd s.approval id none ∧ s'.operator = s.operator ∧
    s'.now = s.now := by
  obtain ⟨s1, hd, hc⟩ := bind_eq_ok h
  unfold debit at hd
  simp only at hd
  obtain ⟨o, ho, hd⟩ := bind_eq_ok hd
  obtain ⟨_, hck, hd⟩ := bind_eq_ok hd
  obtain ⟨c, hdec, hp⟩ := bind_eq_ok hd
  have hof := checkOwner_ok hck
  obtain ⟨hcc, _⟩ := decreaseBalance_ok hdec
  have h1 := setOwnerForPrev_core B hp
  subst hcc
  rw [hof] at ho
  have h1a : s1.approval = upd s.approval id none := by
    show s1.toCore.approval = _; rw [h1]; rfl
  have h1o : s1.operator = s.operator := by show s1.toCore.operator = _; rw [h1]; rfl
  have h1n : s1.now = s.now := by show s1.toCore.now = _; rw [h1]; rfl
  cases to with
  | none =>
    unfold credit at hc
    injection hc with hc; subst hc
    exact ⟨ho, h1a, h1o, h1n⟩
  | some t =>
    unfold credit at hc
    simp only at hc
    obtain ⟨c2, hinc, hset⟩ := bind_eq_ok hc
    obtain ⟨hc2, _⟩ := increaseBalance_ok hinc
    have h2 := (setOwnership_core B hset).1
    subst hc2
    refine ⟨ho, ?_, ?_, ?_⟩
    · show s'.toCore.approval = _; rw [h2]; exact h1a
    · show s'.toCore.operator = _; rw [h2]; exact h1o
    · show s'.toCore.now = _; rw [h2]; exact h1n

theorem batchMint_core {s s' : State β} {to n last : Nat} (h : batchMint B s to n = .ok (s', last)) :
    s'.approval = s.approval ∧ s'.operator = s.operator ∧ s'.now = s.now := by
  unfold batchMint at h
  split at h
  · cases h
  · obtain ⟨⟨c, first⟩, h1, h⟩ := bind_eq_ok h
    obtain ⟨c2, h2, h⟩ := bind_eq_ok h
    obtain ⟨s3, h3, h⟩ := bind_eq_ok h
    have h := pure_eq_ok h
    injection h with ha hb
    obtain ⟨hc, _, _⟩ := incrementTokenId_ok h1
    obtain ⟨hc2, _⟩ := increaseBalance_ok h2
    have h3c := (setOwnership_core B h3).1
    subst hc; subst hc2; subst ha
    refine ⟨?_, ?_, ?_⟩
    · show s3.toCore.approval = _; rw [h3c]
    · show s3.toCore.operator = _; rw [h3c]
    · show s3.toCore.now = _; rw [h3c]

local macro "no_such_op" : tactic => `(tactic| (intros; rename_i e; cases e))

theorem apply_auth (cfg : Cfg) {s s' : State β} {auth : List Nat} {op : Op} {r : Option Nat}
    (h : apply B cfg s auth op = .ok (s', r)) :
    (∀ f id, op.moves = some (f, id) →
      ownerOf B s id = .ok f ∧ Justified s.toCore auth f id op ∧ s'.approval id = none) ∧
    (∀ ap a id lu, op = .approve ap a id lu → ap ∈ auth ∧
      ∃ o, ownerOf B s id = .ok o ∧ (ap = o ∨ isApprovedForAll s.toCore o ap = true)) ∧
    (∀ o p lu, op = .approveForAll o p lu → o ∈ auth) := by
  cases op with
  | mintSeq to => cases h
  | mint to id => cases h
  | batchMint to n => refine ⟨?_, ?_, ?_⟩ <;> no_such_op
  | advance n => refine ⟨?_, ?_, ?_⟩ <;> no_such_op
  | transfer f t id =>
    obtain ⟨s2, h1, h⟩ := bind_eq_ok h
    have h := pure_eq_ok h
    injection h with ha hb; subst ha; subst hb
    obtain ⟨_, hra, hu⟩ := bind_eq_ok h1
    obtain ⟨ho, happ, _⟩ := update_from_core B hu
    refine ⟨?_, by no_such_op, by no_such_op⟩
    intro f' id' hm; injection hm with hm; injection hm with e1 e2; subst e1; subst e2
    exact ⟨ho, requireAuth_ok hra, by rw [happ]; exact upd_same _ _ _⟩
  | burn f id =>
    obtain ⟨s2, h1, h⟩ := bind_eq_ok h
    have h := pure_eq_ok h
    injection h with ha hb; subst ha; subst hb
    obtain ⟨_, hra, hu⟩ := bind_eq_ok h1
    obtain ⟨ho, happ, _⟩ := update_from_core B hu
    refine ⟨?_, by no_such_op, by no_such_op⟩
    intro f' id' hm; injection hm with hm; injection hm with e1 e2; subst e1; subst e2
    exact ⟨ho, requireAuth_ok hra, by rw [happ]; exact upd_same _ _ _⟩
  | transferFrom sp f t id =>
    obtain ⟨s2, h1, h⟩ := bind_eq_ok h
    have h := pure_eq_ok h
    injection h with ha hb; subst ha; subst hb
    obtain ⟨_, hra, h1⟩ := bind_eq_ok h1
    obtain ⟨_, hck, hu⟩ := bind_eq_ok h1
    obtain ⟨ho, happ, _⟩ := update_from_core B hu
    refine ⟨?_, by no_such_op, by no_such_op⟩
    intro f' id' hm; injection hm with hm; injection hm with e1 e2; subst e1; subst e2
    exact ⟨ho, ⟨requireAuth_ok hra, checkSpender_ok hck⟩, by rw [happ]; exact upd_same _ _ _⟩
  | burnFrom sp f id =>
    obtain ⟨s2, h1, h⟩ := bind_eq_ok h
    have h := pure_eq_ok h
    injection h with ha hb; subst ha; subst hb
    obtain ⟨_, hra, h1⟩ := bind_eq_ok h1
    obtain ⟨_, hck, hu⟩ := bind_eq_ok h1
    obtain ⟨ho, happ, _⟩ := update_from_core B hu
    refine ⟨?_, by no_such_op, by no_such_op⟩
    intro f' id' hm; injection hm with hm; injection hm with e1 e2; subst e1; subst e2
    exact ⟨ho, ⟨requireAuth_ok hra, checkSpender_ok hck⟩, by rw [happ]; exact upd_same _ _ _⟩
  | approve ap a id lu =>
    obtain ⟨s2, h1, h⟩ := bind_eq_ok h
    have h := pure_eq_ok h
    injection h with ha hb; subst ha; subst hb
    unfold approve at h1
    obtain ⟨_, hra, h1⟩ := bind_eq_ok h1
    obtain ⟨o, ho, h1⟩ := bind_eq_ok h1
    obtain ⟨c, hc, h1⟩ := bind_eq_ok h1
    refine ⟨by no_such_op, ?_, by no_such_op⟩
    intro ap' a' id' lu' e; injection e with e1 e2 e3 e4; subst e1; subst e2; subst e3; subst e4
    exact ⟨requireAuth_ok hra, o, ho, (approveForOwner_ok hc).1⟩
  | approveForAll o p lu =>
    obtain ⟨c, hc, h⟩ := bind_eq_ok h
    refine ⟨by no_such_op, by no_such_op, ?_⟩
    intro o' p' lu' e; injection e with e1 e2 e3; subst e1; subst e2; subst e3
    exact (approveForAll_ok hc).1

/-- the approval entry of `id` is written only by `approve(.., id, ..)` -/
theorem apply_approval_none (cfg : Cfg) {s s' : State β} {auth : List Nat} {op : Op} {r : Option Nat}
    (h : apply B cfg s auth op = .ok (s', r)) {id : Nat} (hn : s.approval id = none)
    (hop : op.approves id = false) : s'.approval id = none := by
  have keep : ∀ id', upd s.approval id' none id = none := by
    intro id'
    by_cases e : id = id'
    · subst e; exact upd_same _ _ _
    · rw [upd_other _ _ _ _ e]; exact hn
  cases op with
  | mintSeq to => cases h
  | mint to i => cases h
  | batchMint to n =>
    obtain ⟨⟨s2, last⟩, h1, h⟩ := bind_eq_ok h
    have h := pure_eq_ok h
    injection h with ha hb; subst ha; subst hb
    rw [(batchMint_core B h1).1]; exact hn
  | advance n =>
    injection h with h; injection h with ha hb; subst ha; exact hn
  | transfer f t i =>
    obtain ⟨s2, h1, h⟩ := bind_eq_ok h
    have h := pure_eq_ok h
    injection h with ha hb; subst ha; subst hb
    obtain ⟨_, _, hu⟩ := bind_eq_ok h1
    rw [(update_from_core B hu).2.1]; exact keep i
  | burn f i =>
    obtain ⟨s2, h1, h⟩ := bind_eq_ok h
    have h := pure_eq_ok h
    injection h with ha hb; subst ha; subst hb
    obtain ⟨_, _, hu⟩ := bind_eq_ok h1
    rw [(update_from_core B hu).2.1]; exact keep i
  | transferFrom sp f t i =>
    obtain ⟨s2, h1, h⟩ := bind_eq_ok h
    have h := pure_eq_ok h
    injection h with ha hb; subst ha; subst hb
    obtain ⟨_, _, h1⟩ := bind_eq_ok h1
    obtain ⟨_, _, hu⟩ := bind_eq_ok h1
    rw [(update_from_core B hu).2.1]; exact keep i
  | burnFrom sp f i =>
    obtain ⟨s2, h1, h⟩ := bind_eq_ok h
    have h := pure_eq_ok h
    injection h with ha hb; subst ha; subst hb
    obtain ⟨_, _, h1⟩ := bind_eq_ok h1
    obtain ⟨_, _, hu⟩ := bind_eq_ok h1
    rw [(update_from_core B hu).2.1]; exact keep i
  | approve ap a i lu =>
    have hne : i ≠ id := by
      intro e; subst e; simp [Op.approves] at hop
    obtain ⟨s2, h1, h⟩ := bind_eq_ok h
    have h := pure_eq_ok h
    injection h with ha hb; subst ha; subst hb
    unfold approve at h1
    obtain ⟨_, _, h1⟩ := bind_eq_ok h1
    obtain ⟨o, _, h1⟩ := bind_eq_ok h1
    obtain ⟨c, hc, h1⟩ := bind_eq_ok h1
    have h1 := pure_eq_ok h1; subst h1
    obtain ⟨_, _, _, _, _, h0, hpos⟩ := approveForOwner_ok hc
    show c.approval id = none
    by_cases hl : lu = 0
    · rw [h0 hl, upd_other _ _ _ _ (Ne.symm hne)]; exact hn
    · obtain ⟨_, e, he, _⟩ := hpos hl
      rw [he, upd_other _ _ _ _ (Ne.symm hne)]; exact hn
  | approveForAll o p lu =>
    obtain ⟨c, hc, h⟩ := bind_eq_ok h
    have h := pure_eq_ok h
    injection h with ha hb; subst ha; subst hb
    show c.approval id = none
    rw [(approveForAll_ok hc).2.1]; exact hn

theorem approve_core (cfg : Cfg) {s s' : State β} {auth : List Nat} {ap a id lu : Nat} {r : Option Nat}
    (h : apply B cfg s auth (.approve ap a id lu) = .ok (s', r)) :
    ∃ o, ownerOf B s id = .ok o ∧ approveForOwner cfg s.toCore o ap a id lu = .ok s'.toCore := by
  obtain ⟨s2, h1, h⟩ := bind_eq_ok h
  have h := pure_eq_ok h
  injection h with ha hb; subst ha
  unfold approve at h1
  obtain ⟨_, _, h1⟩ := bind_eq_ok h1
  obtain ⟨o, ho, h1⟩ := bind_eq_ok h1
  obtain ⟨c, hc, h1⟩ := bind_eq_ok h1
  have h1 := pure_eq_ok h1; subst h1
  exact ⟨o, ho, hc⟩

theorem approveForAll_core (cfg : Cfg) {s s' : State β} {auth : List Nat} {o p lu : Nat} {r : Option Nat}
    (h : apply B cfg s auth (.approveForAll o p lu) = .ok (s', r)) :
    approveForAll cfg s.toCore auth o p lu = .ok s'.toCore := by
  obtain ⟨c, hc, h⟩ := bind_eq_ok h
  have h := pure_eq_ok h
  injection h with ha hb; subst ha
  exact hc

theorem run_approval_none (cfg : Cfg) (ops : List (List Nat × Op)) (s : State β) (id : Nat)
    (hn : s.approval id = none) (hx : ∀ x ∈ ops, x.2.approves id = false) :
    (run B cfg s ops).approval id = none := by
  induction ops generalizing s with
  | nil => exact hn
  | cons x xs ih =>
    show (run B cfg (step B cfg s x) xs).approval id = none
    apply ih
    · unfold step
      cases h : apply B cfg s x.1 x.2 with
      | error e => exact hn
      | ok p => obtain ⟨s', r⟩ := p; exact apply_approval_none B cfg h hn (hx x (by simp))
    · intro y hy; exact hx y (by simp [hy])

end

end OZ.NftCons
