import OZ.Lemmas.TimelockControllerMonRoles
import OZ.Lemmas.TimelockControllerMonOps
/-
Soundness of the C09 monitor, monitor part 1: the checks that every call line passes through
(idle gap, Done stays Done, rollback, effects need a cause) and the consumption check `consumed`,
each shown silent on model observations, stated with plain arguments.
-/
namespace OZ.TimelockController.Mon
open OZ.Host OZ.Timelock OZ.TimelockController

/-! ### state letters of the model's observation -/

theorem stCode_D {c : CState} {defs : List Operation} {ok : Bool} {eq : Option (List Nat)} {k : Nat} :
    stCode (modelObs c defs ok eq) k = "D" ↔ ∃ d, defs[k]? = some d ∧ c.tl.ledger d.id = 1 := by
  rw [stCode_model]
  cases h : defs[k]? with
  | none => simp
  | some d =>
    simp only [Option.some.injEq, exists_eq_left']
    rw [codeOf_D]
    exact stateOf_done

theorem stCode_R {c : CState} {defs : List Operation} {ok : Bool} {eq : Option (List Nat)} {k : Nat} :
    stCode (modelObs c defs ok eq) k = "R" ↔ ∃ d, defs[k]? = some d ∧ getOperationState c.tl d.id = .ready := by
  rw [stCode_model]
  cases h : defs[k]? with
  | none => simp
  | some d =>
    simp only [Option.some.injEq, exists_eq_left']
    exact codeOf_R

/-! ### Done stays Done -/

theorem undone_none {c c' : CState} (defs : List Operation) (ok ok' : Bool) (eq eq' : Option (List Nat))
    (h : ∀ id, c.tl.ledger id = 1 → c'.tl.ledger id = 1) :
    undoneCheck (modelObs c defs ok eq) (modelObs c' defs ok' eq') = none := by
  unfold undoneCheck
  have : (List.range (modelObs c defs ok eq).st.length).find?
      (fun k => decide (stCode (modelObs c defs ok eq) k = "D" ∧ stCode (modelObs c' defs ok' eq') k ≠ "D")) = none := by
    rw [List.find?_eq_none]
    intro k _
    simp only [decide_eq_true_eq, not_and, Decidable.not_not]
    intro hd
    obtain ⟨d, hk, h1⟩ := stCode_D.mp hd
    exact stCode_D.mpr ⟨d, hk, h _ h1⟩
  rw [this]

theorem newlyDone_false {c c' : CState} (defs : List Operation) (ok ok' : Bool) (eq eq' : Option (List Nat))
    (h : ∀ id, c'.tl.ledger id = 1 → c.tl.ledger id = 1) :
    newlyDone (modelObs c defs ok eq) (modelObs c' defs ok' eq') = false := by
  unfold newlyDone
  have : (List.range (modelObs c' defs ok' eq').st.length).find?
      (fun k => decide (stCode (modelObs c defs ok eq) k ≠ "D" ∧ stCode (modelObs c' defs ok' eq') k = "D")) = none := by
    rw [List.find?_eq_none]
    intro k _
    simp only [decide_eq_true_eq, not_and]
    intro hn hd
    obtain ⟨d, hk, h1⟩ := stCode_D.mp hd
    exact hn (stCode_D.mpr ⟨d, hk, h _ h1⟩)
  rw [this]; rfl

/-! ### a rejected call -/

theorem rollback_none (c : CState) (defs : List Operation) (ok ok' : Bool) (eq eq' : Option (List Nat)) :
    rollback (modelObs c defs ok eq) (modelObs c defs ok' eq') = none := by
  unfold rollback
  rw [if_neg]
  simp [modelObs]

/-! ### an idle gap -/

theorem idleAt_none {c c' : CState} (defs : List Operation) (ok ok' : Bool) (eq eq' : Option (List Nat))
    (hl : c'.tl.ledger = c.tl.ledger) (hn : c.tl.now ≤ c'.tl.now) (n k : Nat) :
    idleAt (modelObs c defs ok eq) (modelObs c' defs ok' eq') n k = none := by
  unfold idleAt
  show (match (modelSt c defs)[k]?, (modelSt c' defs)[k]? with
    | some (a, la), some (b, lb) => _
    | _, _ => none) = none
  rw [modelSt_get, modelSt_get]
  cases defs[k]? with
  | none => rfl
  | some d =>
    simp only [Option.map_some]
    unfold getOperationState getOperationLedger
    rw [hl]
    show (if codeOf (stateOf (c.tl.ledger d.id) c.tl.now) = codeOf (stateOf (c.tl.ledger d.id) c'.tl.now) ∧
        c.tl.ledger d.id = c.tl.ledger d.id then none
      else if codeOf (stateOf (c.tl.ledger d.id) c.tl.now) = "W" ∧
          codeOf (stateOf (c.tl.ledger d.id) c'.tl.now) = "R" ∧ c.tl.ledger d.id = c.tl.ledger d.id ∧
          c.tl.ledger d.id ≤ c'.tl.now then none else _) = none
    by_cases h0 : c.tl.ledger d.id = 0
    · rw [if_pos ⟨by rw [stateOf_unset.mpr h0, stateOf_unset.mpr h0], rfl⟩]
    · by_cases h1 : c.tl.ledger d.id = 1
      · rw [if_pos ⟨by rw [stateOf_done.mpr h1, stateOf_done.mpr h1], rfl⟩]
      · by_cases hw : c.tl.now < c.tl.ledger d.id
        · have hb := stateOf_waiting.mpr ⟨show 2 ≤ c.tl.ledger d.id by omega, hw⟩
          by_cases hw' : c'.tl.now < c.tl.ledger d.id
          · rw [if_pos ⟨by rw [hb, stateOf_waiting.mpr ⟨show 2 ≤ c.tl.ledger d.id by omega, hw'⟩], rfl⟩]
          · have hr := stateOf_ready.mpr ⟨show 2 ≤ c.tl.ledger d.id by omega, show c.tl.ledger d.id ≤ c'.tl.now by omega⟩
            rw [hb, hr]
            rw [if_neg (by simp [codeOf]), if_pos ⟨rfl, rfl, rfl, by omega⟩]
        · rw [if_pos ⟨by
            rw [stateOf_ready.mpr ⟨show 2 ≤ c.tl.ledger d.id by omega, show c.tl.ledger d.id ≤ c.tl.now by omega⟩,
              stateOf_ready.mpr ⟨show 2 ≤ c.tl.ledger d.id by omega, show c.tl.ledger d.id ≤ c'.tl.now by omega⟩], rfl⟩]

/-- nothing but the clock moved: the idle-gap check is silent -/
theorem idleCheck_none {c c' : CState} (defs : List Operation) (ok ok' : Bool) (eq eq' : Option (List Nat))
    (hmin : c'.tl.minDelay = c.tl.minDelay) (hadm : c'.admin = c.admin)
    (hrole : c'.ac.hasRole = c.ac.hasRole) (hradm : c'.ac.roleAdmin = c.ac.roleAdmin)
    (hcalls : c'.tl.calls = c.tl.calls)
    (hl : c'.tl.ledger = c.tl.ledger) (hn : c.tl.now ≤ c'.tl.now) (n : Nat) :
    idleCheck (modelObs c defs ok eq) (modelObs c' defs ok' eq') n = none := by
  unfold idleCheck
  rw [if_neg (by simp [modelObs, hmin]), if_neg (by simp [modelObs, hadm]),
    if_neg (by simp [modelObs, modelRoles_of_ac hrole]), if_neg (by simp [modelObs, modelRadm_of_ac hradm]),
    if_neg (by simp [modelObs, showCalls, hcalls])]
  have : (List.range (modelObs c defs ok eq).st.length).filterMap
      (idleAt (modelObs c defs ok eq) (modelObs c' defs ok' eq') n) = [] := by
    rw [List.filterMap_eq_nil_iff]
    intro k _
    exact idleAt_none defs ok ok' eq eq' hl hn n k
  rw [this]; rfl

/-! ### effects need a cause -/

theorem effect_none (cl : Call) (prev o : Obs)
    (h1 : isUpdateK cl = false → o.min = prev.min)
    (h2 : isCallerK cl = false → o.roles = prev.roles)
    (h3 : isSetradmK cl = false → o.radm = prev.radm)
    (h4 : isAcceptK cl = false → isRenounceK cl = false → o.admin = prev.admin)
    (h5 : isAdminK cl = false → isCallerK cl = false → isCheckK cl = false → isExecK cl = false →
      newlyDone prev o = false) :
    effect cl prev o = none := by
  unfold effect
  rw [if_neg, if_neg, if_neg, if_neg, if_neg]
  · rintro ⟨a, b, c, d, e⟩
    rw [h5 (by simpa using b) (by simpa using c) (by simpa using d) (by simpa using e)] at a
    cases a
  · rintro ⟨a, b, c⟩
    exact a (h4 (by simpa using b) (by simpa using c))
  · rintro ⟨a, b⟩
    exact a (h3 (by simpa using b))
  · rintro ⟨a, b⟩
    exact a (h2 (by simpa using b))
  · rintro ⟨a, b⟩
    exact a (h1 (by simpa using b))

/-! ### the consumption check -/

/-- a role holder makes the role's member count positive -/
theorem executorCount_pos {c : CState} (hi : OZ.Access.Inv c.ac) {a : Nat} (h : c.hasRole EXECUTOR a = true) :
    c.executorCount ≠ 0 := by
  unfold CState.hasRole OZ.Access.hasRoleQ at h
  cases hh : c.ac.hasRole a EXECUTOR with
  | none => rw [hh] at h; cases h
  | some i =>
    have := ((hi.role EXECUTOR).back a i hh).1
    unfold CState.executorCount
    omega

/-- the executor clause of `consumed` on the model: the named executor holds the role and signed -/
theorem execCheck_none (c : CState) (defs : List Operation) (ok : Bool) (eq : Option (List Nat))
    (hi : OZ.Access.Inv c.ac) (e : Option Nat) (j : Nat) (auth : List AuthM)
    (h : c.executorCount ≠ 0 → ∃ ex, e = some ex ∧ c.hasRole EXECUTOR ex = true ∧ AuthM.exec ex j ∈ auth) :
    execCheck (modelObs c defs ok eq) e j auth = none := by
  unfold execCheck
  by_cases hem : (members (modelObs c defs ok eq) 1).isEmpty
  · rw [if_pos hem]
  · rw [if_neg hem]
    have hne : c.executorCount ≠ 0 := by
      cases hl : members (modelObs c defs ok eq) 1 with
      | nil => rw [hl] at hem; simp at hem
      | cons a t =>
        have : a ∈ members (modelObs c defs ok eq) 1 := by rw [hl]; simp
        exact executorCount_pos hi (members_sub c defs ok eq this)
    obtain ⟨ex, rfl, hr, hin⟩ := h hne
    simp only
    rw [if_neg, if_neg]
    · simpa using hin
    · rintro ⟨hu, hc⟩
      apply hc
      rw [members_contains c defs ok eq (by decide) (by simpa [inU] using hu)]
      exact hr

/-- **consumption**: the operation (controller, fn, args, pred, salt) was Ready in the model state
`x.c`, is Done in `c'`, and the executor condition holds — then the monitor's `consumed` is silent:
the operation is a defined one, pending with its delay elapsed in the monitor's ghost log,
reported Ready before and Done after -/
theorem consumed_none (m : Mon) (x : MS) (hi : MInv x) (ha : Agree m x) (c' : CState)
    (ok0 : Bool) (eq0 : Option (List Nat)) (fn : Nat) (args : List Nat) (md : MetaM) (pred : Id)
    (hres : refKey x.defs md.p = some pred) (j : Nat) (auth : List AuthM)
    (hready : getOperationState x.c.tl (Id.op 0 fn args pred md.s) = .ready)
    (hdone : c'.tl.ledger (Id.op 0 fn args pred md.s) = 1)
    (hexec : x.c.executorCount ≠ 0 →
      ∃ ex, md.e = some ex ∧ x.c.hasRole EXECUTOR ex = true ∧ AuthM.exec ex j ∈ auth)
    (chk : Bool) (hpd : chk = true → pred = Id.zero ∨ x.c.tl.ledger pred = 1) :
    consumed m (modelObs x.c x.defs ok0 eq0) (modelObs c' x.defs true none) fn args md j auth chk = none ∧
    keyOf x.defs fn args md = some (Id.op 0 fn args pred md.s) := by
  obtain ⟨h2, hn⟩ := stateOf_ready.mp hready
  obtain ⟨l, d, mn, hg, hv, _, _, _⟩ := (hi.tl.coh _).ledger_ge_two h2
  have hmem : Id.op 0 fn args pred md.s ∈ x.defs.map Operation.id := hi.known _ (by rw [hg]; simp)
  obtain ⟨k, hk⟩ := findDef_of_mem hmem
  have hkd := findDef_some hk
  have hkey : opKey fn args (refKey x.defs md.p) md.s = some (Id.op 0 fn args pred md.s) := by
    rw [hres]; rfl
  refine ⟨?_, ?_⟩
  · unfold consumed
    rw [ha.defs, hkey, hk]
    simp only
    unfold consumedAt
    have hget : m.get (keyAt m.defs k) = .pending l d := by
      unfold keyAt
      rw [ha.defs, hkd, ha.ghost, hg]; rfl
    have hel : elapsedM l d x.c.tl.now = true := by
      rw [elapsedM_iff]
      unfold getOperationLedger at hn
      rw [hv] at hn
      exact (satAdd_le_iff_elapsed hi.tl.nowHi).mp hn
    have hearly : early (m.get (keyAt m.defs k)) k (modelObs x.c x.defs ok0 eq0).now = none := by
      rw [hget]
      unfold early
      simp only
      exact if_pos hel
    rw [hearly]
    simp only
    obtain ⟨dd, hdd, hdi⟩ : ∃ dd, x.defs[k]? = some dd ∧ dd.id = Id.op 0 fn args pred md.s := by
      cases hx : x.defs[k]? with
      | none => rw [hx] at hkd; cases hkd
      | some dd => rw [hx] at hkd; injection hkd with hkd; exact ⟨dd, rfl, hkd⟩
    have hddp : dd.pred = pred := by
      unfold Operation.id at hdi
      injection hdi
    rw [if_neg (by
      rintro ⟨hc, hpp⟩
      unfold predPending at hpp
      rw [ha.defs, hdd] at hpp
      simp only [Bool.and_eq_true, decide_eq_true_eq] at hpp
      obtain ⟨hnz, hnd⟩ := hpp
      rw [hddp] at hnz hnd
      rcases hpd hc with hz | hl1
      · exact hnz hz
      · apply hnd
        rw [ha.ghost]
        have hcoh := hi.tl.coh pred
        cases hgp : ghost x.c.tl.log pred with
        | unset => rw [hgp] at hcoh; simp only [Coh] at hcoh; omega
        | done => rfl
        | pending l' d' mm =>
          rw [hgp] at hcoh; simp only [Coh] at hcoh
          have : 2 ≤ satAdd l' d' := by unfold satAdd U32_MAX; split <;> omega
          omega)]
    rw [if_neg (by
      intro hne; apply hne
      exact stCode_R.mpr ⟨dd, hdd, by rw [hdi]; exact hready⟩)]
    rw [if_neg (by
      intro hne; apply hne
      exact stCode_D.mpr ⟨dd, hdd, by rw [hdi]; exact hdone⟩)]
    exact execCheck_none x.c x.defs ok0 eq0 hi.ac md.e j auth hexec
  · unfold keyOf
    rw [hkey, hk]
    exact hkd

end OZ.TimelockController.Mon
