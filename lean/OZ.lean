-- Root of the `OZ` library: models, property theorems and axiom audits.
import OZ.Model.MulDiv
