"""Per-property configuration of ./check: one JSON file per claimed property in config/."""
import glob, json, os

ROOT = os.path.dirname(os.path.abspath(__file__))

COMMON_TRUSTED = [
    "Lean 4.33 kernel (thorough tier: re-checked by leanchecker)",
    "hand-written Lean model of the anchored Rust code; tied to /repo's working tree only by the "
    "correspondence check (Rust harness + Lean driver + diff in ./check), which is differential testing",
    "Soroban host (soroban-env-host 25.0.x, native test Env): rollback of failed invocations, require_auth, "
    "storage/TTL, Vec/Map, I256, XDR — modelled and exercised, not proved",
    "contracts run natively (no wasm32 target in the sandbox)",
]

PROPS = {}
for path in sorted(glob.glob(os.path.join(ROOT, "config", "C*.json"))):
    pid = os.path.basename(path)[:-5]
    PROPS[pid] = json.load(open(path))
