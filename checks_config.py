"""Per-property configuration of ./check (which harness binary, which driver, which theorem modules)."""

COMMON_TRUSTED = [
    "Lean 4.33 kernel (thorough tier: re-checked by leanchecker)",
    "hand-written Lean model of the anchored Rust code; tied to /repo's working tree only by the "
    "correspondence check (Rust harness + Lean driver + diff in ./check), which is differential testing",
    "Soroban host (soroban-env-host 25.0.x, native test Env): rollback of failed invocations, require_auth, "
    "storage/TTL, Vec/Map, I256, XDR — modelled and exercised, not proved",
    "contracts run natively (no wasm32 target in the sandbox)",
]

PROPS = {
    "C01": dict(
        bin="c01", drv="drv_c01", drv_module="OZ.Drv.C01", props=["OZ.Props.C01"],
        shards=dict(quick=1, thorough=8),
        trusted=["temporary-entry TTL semantics of the host as modelled in OZ/Model/Host.lean (read from soroban-env-host 25.0.1)",
                 "flavours other than Base (allow/block-list, capped, pausable, votes, vault shares, RWA) reach balances only "
                 "through Base::update (by reading); their wiring is exercised by the C04/C05/C13/C16 correspondences"],
        assumptions=["accounts mentioned by the operations lie in a duplicate-free universe U; all other balances are 0"],
    ),
    "C12": dict(
        bin="c12", drv="drv_c12", drv_module="OZ.Drv.C12", props=["OZ.Props.C12"], unit="op",
        shards=dict(quick=1, thorough=6),
        rule="every op is one call of the real mul_div / checked_mul_div (i128, I256) or Wad function: the boundary "
             "lattice cube (seeded 1/6 sample in quick, complete in thorough) plus random operands stratified by bit "
             "length and engineered so that quotients sit at the i128 boundary; distinct_nontrivial counts distinct "
             "ops whose result is a value (not an error)",
        trusted=["host I256 arithmetic (mul/div/rem_euclid/add/sub trap on overflow) as modelled in OZ/Model/MulDiv.lean"],
        assumptions=["operands of the i128 functions range over all of i128; I256 theorems assume the product fits in 256 bits, as the property states"],
    ),
}
